//! sci-facts: rustc_private fact extractor for the stats-ci static checks.
//!
//! Injected as RUSTC_WORKSPACE_WRAPPER under `cargo +nightly check`.  For the crate named
//! in VERIF_CRATE (default `stats_ci`) it serialises, after analysis, the unoptimised MIR of
//! every local body, the resolved call graph walked from every local fn as instantiated,
//! item/impl tables, trait-selection answers for the state types and every `format_args!`
//! template, into the single JSON file named by VERIF_FACTS_OUT (one write).
#![feature(rustc_private)]
#![allow(rustc::internal)]

extern crate rustc_abi;
extern crate rustc_ast;
extern crate rustc_data_structures;
extern crate rustc_driver;
extern crate rustc_hir;
extern crate rustc_index;
extern crate rustc_infer;
extern crate rustc_interface;
extern crate rustc_middle;
extern crate rustc_session;
extern crate rustc_span;
extern crate rustc_trait_selection;

mod json;
use json::J;

use rustc_driver::Compilation;
use rustc_hir::def::DefKind;
use rustc_hir::def_id::{DefId, LocalDefId, LOCAL_CRATE};
use rustc_interface::interface::Compiler;
use rustc_middle::mir::interpret::Scalar;
use rustc_middle::mir::{self, *};
use rustc_middle::ty::print::with_no_trimmed_paths;
use rustc_middle::ty::{self, GenericArgsRef, Instance, InstanceKind, Ty, TyCtxt, TypingEnv};
use rustc_span::Span;
use std::collections::HashMap;

struct Cb {
    want: String,
    out: Option<String>,
    fmt: Vec<J>,
}

fn main() {
    let mut args: Vec<String> = std::env::args().collect();
    // RUSTC_WORKSPACE_WRAPPER passes the real rustc as argv[1]
    if args.len() > 1 && (args[1].ends_with("rustc") || args[1].contains("/rustc")) {
        args.remove(1);
    }
    let want = std::env::var("VERIF_CRATE").unwrap_or_else(|_| "stats_ci".to_string());
    let out = std::env::var("VERIF_FACTS_OUT").ok();
    let mut cb = Cb { want, out, fmt: Vec::new() };
    rustc_driver::run_compiler(&args, &mut cb);
}

impl rustc_driver::Callbacks for Cb {
    fn after_expansion<'tcx>(&mut self, _c: &Compiler, tcx: TyCtxt<'tcx>) -> Compilation {
        if tcx.crate_name(LOCAL_CRATE).as_str() != self.want || self.out.is_none() {
            return Compilation::Continue;
        }
        let resolver = tcx.resolver_for_lowering().borrow();
        let krate = &resolver.1;
        let mut v = FmtVisitor { tcx, stack: Vec::new(), out: Vec::new() };
        rustc_ast::visit::walk_crate(&mut v, krate);
        self.fmt = v.out;
        Compilation::Continue
    }

    fn after_analysis<'tcx>(&mut self, _c: &Compiler, tcx: TyCtxt<'tcx>) -> Compilation {
        if tcx.crate_name(LOCAL_CRATE).as_str() != self.want {
            return Compilation::Continue;
        }
        let Some(out) = self.out.clone() else { return Compilation::Continue };
        let facts = with_no_trimmed_paths!(Dumper::new(tcx).dump(std::mem::take(&mut self.fmt)));
        let mut s = String::with_capacity(1 << 22);
        facts.write(&mut s);
        std::fs::write(&out, s).expect("cannot write facts");
        Compilation::Continue
    }
}

// ---------------------------------------------------------------------------------------------
// format_args! templates (post-expansion AST)

struct FmtVisitor<'tcx> {
    tcx: TyCtxt<'tcx>,
    stack: Vec<String>,
    out: Vec<J>,
}

impl<'tcx> FmtVisitor<'tcx> {
    fn loc(&self, sp: Span) -> J {
        span_json(self.tcx, sp)
    }
    /// non-doc attributes as written (source text of the attribute's own span)
    fn attr_texts(&self, owner: &str, attrs: &[rustc_ast::Attribute], out: &mut Vec<J>) {
        for a in attrs {
            if a.is_doc_comment() {
                continue;
            }
            let txt = match &a.kind {
                rustc_ast::AttrKind::Normal(n) => {
                    let sm = self.tcx.sess.source_map();
                    sm.span_to_snippet(n.item.span()).unwrap_or_else(|_| rustc_ast_pretty_path(&n.item.path))
                }
                _ => continue,
            };
            out.push(J::obj().set("owner", J::s(owner)).set("text", J::s(txt)));
        }
    }
}

impl<'a, 'tcx> rustc_ast::visit::Visitor<'a> for FmtVisitor<'tcx> {
    fn visit_item(&mut self, i: &'a rustc_ast::Item) {
        use rustc_ast::ItemKind;
        let name = match &i.kind {
            ItemKind::Fn(f) => format!("fn {}", f.ident.name),
            ItemKind::Mod(_, ident, _) => format!("mod {}", ident.name),
            ItemKind::Impl(imp) => {
                let t = imp
                    .of_trait
                    .as_ref()
                    .map(|t| rustc_ast_pretty_path(&t.trait_ref.path))
                    .unwrap_or_default();
                format!("impl {} for {}", t, ty_str(&imp.self_ty))
            }
            ItemKind::Trait(t) => format!("trait {}", t.ident.name),
            _ => String::new(),
        };
        // derive-helper attributes (`serde(..)`) are inert: they survive expansion in the AST (with `cfg_attr`
        // already resolved for this feature set) but are not kept in the HIR
        match &i.kind {
            ItemKind::Struct(ident, _, vd) => {
                let mut rec = Vec::new();
                self.attr_texts("item", &i.attrs, &mut rec);
                for f in vd.fields() {
                    let fname = f.ident.map(|x| x.name.to_string()).unwrap_or_default();
                    self.attr_texts(&format!("field {}", fname), &f.attrs, &mut rec);
                }
                self.out.push(J::obj().set(
                    "adt_attrs",
                    J::obj().set("name", J::s(ident.name.as_str())).set("at", self.loc(ident.span)).set("attrs", J::Arr(rec)),
                ));
            }
            ItemKind::Enum(ident, _, ed) => {
                let mut rec = Vec::new();
                self.attr_texts("item", &i.attrs, &mut rec);
                for v in ed.variants.iter() {
                    self.attr_texts(&format!("variant {}", v.ident.name), &v.attrs, &mut rec);
                    for f in v.data.fields() {
                        let fname = f.ident.map(|x| x.name.to_string()).unwrap_or_default();
                        self.attr_texts(&format!("field {}.{}", v.ident.name, fname), &f.attrs, &mut rec);
                    }
                }
                self.out.push(J::obj().set(
                    "adt_attrs",
                    J::obj().set("name", J::s(ident.name.as_str())).set("at", self.loc(ident.span)).set("attrs", J::Arr(rec)),
                ));
            }
            _ => {}
        }
        self.stack.push(name);
        rustc_ast::visit::walk_item(self, i);
        self.stack.pop();
    }
    fn visit_assoc_item(&mut self, i: &'a rustc_ast::AssocItem, ctxt: rustc_ast::visit::AssocCtxt) {
        let name = match &i.kind {
            rustc_ast::AssocItemKind::Fn(f) => format!("fn {}", f.ident.name),
            _ => String::new(),
        };
        self.stack.push(name);
        rustc_ast::visit::walk_assoc_item(self, i, ctxt);
        self.stack.pop();
    }
    fn visit_expr(&mut self, e: &'a rustc_ast::Expr) {
        if let rustc_ast::ExprKind::FormatArgs(fa) = &e.kind {
            let mut pieces = Vec::new();
            for p in fa.template.iter() {
                match p {
                    rustc_ast::FormatArgsPiece::Literal(s) => {
                        pieces.push(J::obj().set("lit", J::s(s.as_str())));
                    }
                    rustc_ast::FormatArgsPiece::Placeholder(ph) => {
                        let idx = match ph.argument.index {
                            Ok(i) => i as i128,
                            Err(_) => -1,
                        };
                        let arg_src = if idx >= 0 {
                            fa.arguments
                                .all_args()
                                .get(idx as usize)
                                .map(|a| expr_str(&a.expr))
                                .unwrap_or_default()
                        } else {
                            String::new()
                        };
                        let o = &ph.format_options;
                        let plain = o.width.is_none()
                            && o.precision.is_none()
                            && o.alignment.is_none()
                            && o.fill.is_none()
                            && o.sign.is_none()
                            && !o.alternate
                            && !o.zero_pad
                            && o.debug_hex.is_none();
                        pieces.push(
                            J::obj()
                                .set("arg", J::Int(idx))
                                .set("trait", J::s(format!("{:?}", ph.format_trait)))
                                .set("expr", J::s(arg_src))
                                .set("plain", J::Bool(plain)),
                        );
                    }
                }
            }
            self.out.push(
                J::obj()
                    .set("enclosing", J::Arr(self.stack.iter().map(|s| J::s(s.clone())).collect()))
                    .set("span", self.loc(e.span))
                    .set("nargs", J::Int(fa.arguments.all_args().len() as i128))
                    .set("pieces", J::Arr(pieces)),
            );
        }
        rustc_ast::visit::walk_expr(self, e);
    }
}

fn rustc_ast_pretty_path(p: &rustc_ast::Path) -> String {
    p.segments.iter().map(|s| s.ident.name.to_string()).collect::<Vec<_>>().join("::")
}
fn ty_str(t: &rustc_ast::Ty) -> String {
    match &t.kind {
        rustc_ast::TyKind::Path(_, p) => rustc_ast_pretty_path(p),
        _ => String::from("?"),
    }
}
fn expr_str(e: &rustc_ast::Expr) -> String {
    match &e.kind {
        rustc_ast::ExprKind::Path(_, p) => rustc_ast_pretty_path(p),
        rustc_ast::ExprKind::AddrOf(_, _, inner) => format!("&{}", expr_str(inner)),
        rustc_ast::ExprKind::Field(b, id) => format!("{}.{}", expr_str(b), id.name),
        rustc_ast::ExprKind::Paren(inner) => expr_str(inner),
        rustc_ast::ExprKind::MethodCall(mc) => {
            format!("{}.{}(..)", expr_str(&mc.receiver), mc.seg.ident.name)
        }
        rustc_ast::ExprKind::Lit(l) => format!("{}", l.symbol),
        _ => String::from("?"),
    }
}

fn span_json<'tcx>(tcx: TyCtxt<'tcx>, sp: Span) -> J {
    let sm = tcx.sess.source_map();
    let sp = sp.source_callsite();
    let lo = sm.lookup_char_pos(sp.lo());
    let hi = sm.lookup_char_pos(sp.hi());
    let file = format!("{}", lo.file.name.prefer_local_unconditionally());
    J::Arr(vec![J::s(file), J::Int(lo.line as i128), J::Int(hi.line as i128)])
}

// ---------------------------------------------------------------------------------------------

struct Dumper<'tcx> {
    tcx: TyCtxt<'tcx>,
    def_ids: HashMap<DefId, usize>,
    defs: Vec<DefId>,
}

impl<'tcx> Dumper<'tcx> {
    fn new(tcx: TyCtxt<'tcx>) -> Self {
        Dumper { tcx, def_ids: HashMap::new(), defs: Vec::new() }
    }

    fn did(&mut self, d: DefId) -> usize {
        if let Some(&i) = self.def_ids.get(&d) {
            return i;
        }
        let i = self.defs.len();
        self.defs.push(d);
        self.def_ids.insert(d, i);
        i
    }

    fn path(&self, d: DefId) -> String {
        self.tcx.def_path_str(d)
    }

    fn span(&self, sp: Span) -> J {
        span_json(self.tcx, sp)
    }

    fn ty(&self, t: Ty<'tcx>) -> J {
        self.ty_d(t, 0)
    }

    fn ty_d(&self, t: Ty<'tcx>, depth: usize) -> J {
        let s = format!("{}", t);
        let mut o = J::obj().set("s", J::s(s));
        let k = match t.kind() {
            ty::Bool => "bool".to_string(),
            ty::Char => "char".to_string(),
            ty::Int(i) => i.name_str().to_string(),
            ty::Uint(u) => u.name_str().to_string(),
            ty::Float(f) => f.name_str().to_string(),
            ty::Str => "str".to_string(),
            ty::Never => "never".to_string(),
            ty::Param(p) => {
                o.put("name", J::s(p.name.as_str()));
                "param".to_string()
            }
            ty::Adt(def, args) => {
                o.put("adt", J::s(self.path(def.did())));
                o.put("local", J::Bool(def.did().is_local()));
                if depth < 4 {
                    let a: Vec<J> =
                        args.iter().filter_map(|a| a.as_type()).map(|t| self.ty_d(t, depth + 1)).collect();
                    o.put("args", J::Arr(a));
                }
                if def.is_enum() { "enum".to_string() } else { "struct".to_string() }
            }
            ty::Ref(_, inner, m) => {
                if depth < 6 {
                    o.put("inner", self.ty_d(*inner, depth + 1));
                }
                o.put("mut", J::Bool(m.is_mut()));
                "ref".to_string()
            }
            ty::RawPtr(inner, _) => {
                if depth < 6 {
                    o.put("inner", self.ty_d(*inner, depth + 1));
                }
                "rawptr".to_string()
            }
            ty::Tuple(ts) => {
                if depth < 4 {
                    o.put("elems", J::Arr(ts.iter().map(|t| self.ty_d(t, depth + 1)).collect()));
                }
                "tuple".to_string()
            }
            ty::Slice(inner) => {
                if depth < 6 {
                    o.put("inner", self.ty_d(*inner, depth + 1));
                }
                "slice".to_string()
            }
            ty::Array(inner, _) => {
                if depth < 6 {
                    o.put("inner", self.ty_d(*inner, depth + 1));
                }
                "array".to_string()
            }
            ty::Closure(d, _) => {
                o.put("def", J::s(self.path(*d)));
                "closure".to_string()
            }
            ty::FnDef(d, _) => {
                o.put("def", J::s(self.path(*d)));
                "fndef".to_string()
            }
            ty::FnPtr(..) => "fnptr".to_string(),
            ty::Alias(..) => "alias".to_string(),
            ty::Dynamic(..) => "dyn".to_string(),
            _ => "other".to_string(),
        };
        o.put("k", J::Str(k));
        o
    }

    // ------------------------------------------------------------------ items

    fn dump_adts(&mut self) -> J {
        let tcx = self.tcx;
        let mut out = Vec::new();
        for ld in tcx.hir_crate_items(()).definitions() {
            let d = ld.to_def_id();
            let kind = tcx.def_kind(d);
            if !matches!(kind, DefKind::Struct | DefKind::Enum) {
                continue;
            }
            let adt = tcx.adt_def(d);
            let mut variants = Vec::new();
            for v in adt.variants().iter() {
                let mut fields = Vec::new();
                for f in v.fields.iter() {
                    let fty = tcx.type_of(f.did).instantiate_identity().skip_norm_wip();
                    fields.push(
                        J::obj()
                            .set("name", J::s(f.name.as_str()))
                            .set("ty", self.ty(fty))
                            .set("attrs", self.helper_attrs(f.did))
                            .set("pub", J::Bool(f.vis.is_public())),
                    );
                }
                variants.push(
                    J::obj()
                        .set("name", J::s(v.name.as_str()))
                        .set("attrs", self.helper_attrs(v.def_id))
                        .set("fields", J::Arr(fields)),
                );
            }
            let generics = tcx.generics_of(d);
            let gens: Vec<J> = generics.own_params.iter().map(|p| J::s(p.name.as_str())).collect();
            out.push(
                J::obj()
                    .set("path", J::s(self.path(d)))
                    .set("kind", J::s(if adt.is_enum() { "enum" } else { "struct" }))
                    .set("pub", J::Bool(tcx.visibility(d).is_public()))
                    .set("exported", J::Bool(tcx.effective_visibilities(()).is_reachable(ld)))
                    .set("generics", J::Arr(gens))
                    .set("span", self.span(tcx.def_span(d)))
                    .set("attrs", self.helper_attrs(d))
                    .set("variants", J::Arr(variants))
                    .set("traits", self.type_traits(d)),
            );
        }
        J::Arr(out)
    }

    /// Source text of the non-builtin attributes (derive helpers such as `serde(..)`) the compiler kept on a
    /// local item / variant / field after expansion (`cfg_attr` already resolved for this feature set).
    fn helper_attrs(&self, d: DefId) -> J {
        let tcx = self.tcx;
        let mut out = Vec::new();
        if let Some(ld) = d.as_local() {
            let hid = tcx.local_def_id_to_hir_id(ld);
            for a in tcx.hir_attrs(hid) {
                if let rustc_hir::Attribute::Unparsed(item) = a {
                    let sp = item.span;
                    let txt = tcx.sess.source_map().span_to_snippet(sp).unwrap_or_else(|_| format!("{:?}", item.path));
                    out.push(J::s(txt));
                }
            }
        }
        J::Arr(out)
    }

    /// Send/Sync/Copy/Freeze of the ADT with every type parameter instantiated to f64.
    fn type_traits(&self, d: DefId) -> J {
        use rustc_infer::infer::TyCtxtInferExt;
        use rustc_trait_selection::infer::InferCtxtExt;
        let tcx = self.tcx;
        let generics = tcx.generics_of(d);
        let args = ty::GenericArgs::for_item(tcx, d, |p, _| match p.kind {
            ty::GenericParamDefKind::Type { .. } => tcx.types.f64.into(),
            ty::GenericParamDefKind::Lifetime => tcx.lifetimes.re_erased.into(),
            ty::GenericParamDefKind::Const { .. } => tcx.mk_param_from_def(p),
        });
        let _ = generics;
        let t = tcx.type_of(d).instantiate(tcx, args).skip_norm_wip();
        let tenv = TypingEnv::fully_monomorphized();
        let infcx = tcx.infer_ctxt().build(ty::TypingMode::PostAnalysis);
        let mut o = J::obj().set("inst", J::s(format!("{}", t)));
        let q = |name: &str| -> Option<DefId> {
            match name {
                "Send" => tcx.get_diagnostic_item(rustc_span::sym::Send),
                "Sync" => tcx.get_diagnostic_item(rustc_span::sym::Sync),
                "Copy" => tcx.lang_items().copy_trait(),
                "Clone" => tcx.lang_items().clone_trait(),
                _ => None,
            }
        };
        for name in ["Send", "Sync", "Copy", "Clone"] {
            let r = match q(name) {
                Some(tr) => infcx.type_implements_trait(tr, [t], tenv.param_env).must_apply_modulo_regions(),
                None => false,
            };
            o.put(name, J::Bool(r));
        }
        o.put("Freeze", J::Bool(t.is_freeze(tcx, tenv)));
        o
    }

    fn dump_impls(&mut self) -> J {
        let tcx = self.tcx;
        let mut out = Vec::new();
        for ld in tcx.hir_crate_items(()).definitions() {
            let d = ld.to_def_id();
            if !matches!(tcx.def_kind(d), DefKind::Impl { .. }) {
                continue;
            }
            let self_ty = tcx.type_of(d).instantiate_identity().skip_norm_wip();
            let mut o = J::obj()
                .set("id", J::Int(self.did(d) as i128))
                .set("self_ty", self.ty(self_ty))
                .set("span", self.span(tcx.def_span(d)))
                .set("derived", J::Bool(tcx.is_automatically_derived(d)));
            if let Some(tr) = tcx.impl_opt_trait_ref(d) {
                let tr = tr.instantiate_identity().skip_norm_wip();
                o.put("trait", J::s(self.path(tr.def_id)));
                o.put("trait_crate", J::s(tcx.crate_name(tr.def_id.krate).as_str()));
                o.put("trait_name", J::s(tcx.item_name(tr.def_id).as_str()));
                o.put("trait_ref", J::s(format!("{}", tr)));
                let targs: Vec<J> = tr.args.iter().skip(1).filter_map(|a| a.as_type()).map(|t| self.ty(t)).collect();
                o.put("trait_args", J::Arr(targs));
            } else {
                o.put("trait", J::Null);
            }
            let mut items = Vec::new();
            for it in tcx.associated_items(d).in_definition_order() {
                items.push(
                    J::obj()
                        .set("name", J::s(it.name().as_str()))
                        .set("def", J::Int(self.did(it.def_id) as i128))
                        .set("is_fn", J::Bool(it.is_fn())),
                );
            }
            o.put("items", J::Arr(items));
            out.push(o);
        }
        J::Arr(out)
    }

    fn dump_traits(&mut self) -> J {
        let tcx = self.tcx;
        let mut out = Vec::new();
        for ld in tcx.hir_crate_items(()).definitions() {
            let d = ld.to_def_id();
            if !matches!(tcx.def_kind(d), DefKind::Trait) {
                continue;
            }
            let mut items = Vec::new();
            for it in tcx.associated_items(d).in_definition_order() {
                items.push(
                    J::obj()
                        .set("name", J::s(it.name().as_str()))
                        .set("def", J::Int(self.did(it.def_id) as i128))
                        .set("has_default", J::Bool(it.defaultness(tcx).has_value())),
                );
            }
            out.push(
                J::obj()
                    .set("path", J::s(self.path(d)))
                    .set("id", J::Int(self.did(d) as i128))
                    .set("items", J::Arr(items)),
            );
        }
        J::Arr(out)
    }

    fn fn_meta(&mut self, ld: LocalDefId) -> J {
        let tcx = self.tcx;
        let d = ld.to_def_id();
        let kind = tcx.def_kind(d);
        let mut o = J::obj()
            .set("id", J::Int(self.did(d) as i128))
            .set("path", J::s(self.path(d)))
            .set("kind", J::s(format!("{:?}", kind)))
            .set("span", self.span(tcx.def_span(d)));
        if matches!(kind, DefKind::Fn | DefKind::AssocFn) {
            o.put("pub", J::Bool(tcx.visibility(d).is_public()));
            o.put("exported", J::Bool(tcx.effective_visibilities(()).is_reachable(ld)));
            o.put("name", J::s(tcx.item_name(d).as_str()));
            let sig = tcx.fn_sig(d).instantiate_identity().skip_norm_wip().skip_binder();
            o.put("inputs", J::Arr(sig.inputs().iter().map(|t| self.ty(*t)).collect()));
            o.put("output", self.ty(sig.output()));
            if let Some(ai) = tcx.opt_associated_item(d) {
                o.put("has_self", J::Bool(ai.is_method()));
            }
            if let Some(imp) = tcx.impl_of_assoc(d) {
                o.put("impl", J::Int(self.did(imp) as i128));
            }
            if let Some(tr) = tcx.trait_of_assoc(d) {
                o.put("trait_decl", J::s(self.path(tr)));
            }
        } else {
            let root = tcx.typeck_root_def_id(d);
            o.put("parent", J::Int(self.did(root) as i128));
        }
        o
    }

    // ------------------------------------------------------------------ MIR bodies

    fn place(&self, p: &Place<'tcx>) -> J {
        let mut proj = Vec::new();
        for e in p.projection.iter() {
            proj.push(match e {
                ProjectionElem::Deref => J::s("*"),
                ProjectionElem::Field(f, _) => J::Arr(vec![J::s("f"), J::Int(f.as_usize() as i128)]),
                ProjectionElem::Downcast(name, v) => J::Arr(vec![
                    J::s("v"),
                    J::Int(v.as_usize() as i128),
                    J::s(name.map(|s| s.to_string()).unwrap_or_default()),
                ]),
                ProjectionElem::Index(l) => J::Arr(vec![J::s("i"), J::Int(l.as_usize() as i128)]),
                ProjectionElem::ConstantIndex { offset, from_end, .. } => {
                    J::Arr(vec![J::s("ci"), J::Int(offset as i128), J::Bool(from_end)])
                }
                other => J::Arr(vec![J::s("?"), J::s(format!("{:?}", other))]),
            });
        }
        J::Arr(vec![J::Int(p.local.as_usize() as i128), J::Arr(proj)])
    }

    fn constant(&mut self, c: &ConstOperand<'tcx>, def: DefId) -> J {
        let tcx = self.tcx;
        let ty = c.const_.ty();
        let mut o = J::obj().set("ty", self.ty(ty));
        if let ty::FnDef(d, args) = ty.kind() {
            o.put("fn", J::s(self.path(*d)));
            o.put("fn_args", J::s(format!("{:?}", args)));
            return J::obj().set("const", o);
        }
        if let ty::Closure(..) = ty.kind() {
            return J::obj().set("const", o);
        }
        match c.const_ {
            Const::Unevaluated(uv, _) => {
                if let Some(p) = uv.promoted {
                    o.put("promoted", J::Int(p.as_usize() as i128));
                    return J::obj().set("const", o);
                }
                o.put("item", J::s(self.path(uv.def)));
            }
            _ => {}
        }
        let tenv = TypingEnv::post_analysis(tcx, def);
        match c.const_.eval(tcx, tenv, c.span) {
            Ok(val) => match val {
                ConstValue::Scalar(Scalar::Int(i)) => {
                    let size = i.size();
                    let bits = i.to_bits(size);
                    o.put("bits", J::s(format!("{}", bits)));
                    o.put("size", J::Int(size.bytes() as i128));
                }
                ConstValue::ZeroSized => {
                    o.put("zst", J::Bool(true));
                }
                ConstValue::Slice { .. } => {
                    if let Some(bytes) = val.try_get_slice_bytes_for_diagnostics(tcx) {
                        o.put("str", J::s(String::from_utf8_lossy(bytes).to_string()));
                    } else {
                        o.put("opaque", J::s("slice"));
                    }
                }
                _ => {
                    o.put("opaque", J::s(format!("{:?}", val)));
                }
            },
            Err(_) => {
                o.put("uneval", J::s(format!("{}", c.const_)));
            }
        }
        J::obj().set("const", o)
    }

    fn operand(&mut self, op: &Operand<'tcx>, def: DefId) -> J {
        match op {
            Operand::Copy(p) => J::obj().set("copy", self.place(p)),
            Operand::Move(p) => J::obj().set("move", self.place(p)),
            Operand::Constant(c) => self.constant(c, def),
            #[allow(unreachable_patterns)]
            _ => J::obj().set("other", J::s(format!("{:?}", op))),
        }
    }

    fn rvalue(&mut self, rv: &Rvalue<'tcx>, body: &Body<'tcx>, def: DefId) -> J {
        let tcx = self.tcx;
        match rv {
            Rvalue::Use(op, ..) => J::obj().set("use", self.operand(op, def)),
            Rvalue::Ref(_, bk, p) => J::obj()
                .set("ref", self.place(p))
                .set("mut", J::Bool(matches!(bk, BorrowKind::Mut { .. })))
                .set("fake", J::Bool(matches!(bk, BorrowKind::Fake(_)))),
            Rvalue::RawPtr(_, p) => J::obj().set("rawptr", self.place(p)),
            Rvalue::Cast(kind, op, ty) => {
                let from = op.ty(body, tcx);
                J::obj()
                    .set("cast", J::s(format!("{:?}", kind)))
                    .set("op", self.operand(op, def))
                    .set("from", self.ty(from))
                    .set("to", self.ty(*ty))
            }
            Rvalue::BinaryOp(op, ops) => {
                let lt = ops.0.ty(body, tcx);
                J::obj()
                    .set("binop", J::s(format!("{:?}", op)))
                    .set("l", self.operand(&ops.0, def))
                    .set("r", self.operand(&ops.1, def))
                    .set("opty", self.ty(lt))
            }
            Rvalue::UnaryOp(op, o) => {
                let t = o.ty(body, tcx);
                J::obj().set("unop", J::s(format!("{:?}", op))).set("op", self.operand(o, def)).set("opty", self.ty(t))
            }
            Rvalue::Discriminant(p) => J::obj().set("discr", self.place(p)),
            Rvalue::Aggregate(kind, ops) => {
                let fields: Vec<J> = ops.iter().map(|o| self.operand(o, def)).collect();
                let mut o = J::obj();
                match &**kind {
                    AggregateKind::Tuple => o.put("agg", J::s("tuple")),
                    AggregateKind::Array(_) => o.put("agg", J::s("array")),
                    AggregateKind::Adt(d, v, _, _, active) => {
                        o.put("agg", J::s("adt"));
                        o.put("adt", J::s(self.path(*d)));
                        o.put("variant", J::Int(v.as_usize() as i128));
                        let adt = tcx.adt_def(*d);
                        o.put("vname", J::s(adt.variant(*v).name.as_str()));
                        o.put("is_enum", J::Bool(adt.is_enum()));
                        if active.is_some() {
                            o.put("union", J::Bool(true));
                        }
                    }
                    AggregateKind::Closure(d, _) => {
                        o.put("agg", J::s("closure"));
                        o.put("def", J::Int(self.did(*d) as i128));
                    }
                    other => {
                        o.put("agg", J::s(format!("{:?}", other)));
                    }
                }
                o.put("fields", J::Arr(fields));
                o
            }
            Rvalue::CopyForDeref(p) => J::obj().set("use", J::obj().set("copy", self.place(p))),
            Rvalue::Repeat(op, _) => J::obj().set("repeat", self.operand(op, def)),
            other => J::obj().set("other", J::s(format!("{:?}", other))),
        }
    }

    fn body(&mut self, body: &Body<'tcx>, def: DefId) -> J {
        let tcx = self.tcx;
        let mut names: HashMap<usize, String> = HashMap::new();
        for vdi in body.var_debug_info.iter() {
            if let VarDebugInfoContents::Place(p) = vdi.value {
                if p.projection.is_empty() {
                    names.entry(p.local.as_usize()).or_insert_with(|| vdi.name.to_string());
                }
            }
        }
        let mut locals = Vec::new();
        for (l, decl) in body.local_decls.iter_enumerated() {
            let mut o = J::obj().set("ty", self.ty(decl.ty));
            if let Some(n) = names.get(&l.as_usize()) {
                o.put("name", J::s(n.clone()));
            }
            locals.push(o);
        }
        let mut blocks = Vec::new();
        for (_bb, data) in body.basic_blocks.iter_enumerated() {
            let mut stmts = Vec::new();
            for st in data.statements.iter() {
                match &st.kind {
                    StatementKind::Assign(b) => {
                        let (p, rv) = &**b;
                        stmts.push(
                            J::obj()
                                .set("p", self.place(p))
                                .set("rv", self.rvalue(rv, body, def))
                                .set("line", self.line(st.source_info.span)),
                        );
                    }
                    StatementKind::SetDiscriminant { place, variant_index } => {
                        stmts.push(
                            J::obj()
                                .set("setdiscr", self.place(place))
                                .set("variant", J::Int(variant_index.as_usize() as i128)),
                        );
                    }
                    _ => {}
                }
            }
            let term = data.terminator();
            let exp = term.source_info.span.from_expansion();
            let mut t = J::obj().set("line", self.line(term.source_info.span)).set("exp", J::Bool(exp));
            match &term.kind {
                TerminatorKind::Goto { target } => {
                    t.put("k", J::s("goto"));
                    t.put("target", J::Int(target.as_usize() as i128));
                }
                TerminatorKind::SwitchInt { discr, targets } => {
                    t.put("k", J::s("switch"));
                    t.put("discr", self.operand(discr, def));
                    t.put("dty", self.ty(discr.ty(body, tcx)));
                    let mut arms = Vec::new();
                    for (v, bb) in targets.iter() {
                        arms.push(J::Arr(vec![J::s(format!("{}", v)), J::Int(bb.as_usize() as i128)]));
                    }
                    t.put("arms", J::Arr(arms));
                    t.put("otherwise", J::Int(targets.otherwise().as_usize() as i128));
                }
                TerminatorKind::Return => t.put("k", J::s("return")),
                TerminatorKind::Unreachable => t.put("k", J::s("unreachable")),
                TerminatorKind::UnwindResume => t.put("k", J::s("resume")),
                TerminatorKind::UnwindTerminate(_) => t.put("k", J::s("abort")),
                TerminatorKind::Drop { place, target, .. } => {
                    t.put("k", J::s("drop"));
                    t.put("place", self.place(place));
                    t.put("target", J::Int(target.as_usize() as i128));
                }
                TerminatorKind::Call { func, args, destination, target, .. } => {
                    t.put("k", J::s("call"));
                    t.put("func", self.operand(func, def));
                    t.put("args", J::Arr(args.iter().map(|a| self.operand(&a.node, def)).collect()));
                    t.put("dest", self.place(destination));
                    match target {
                        Some(bb) => t.put("target", J::Int(bb.as_usize() as i128)),
                        None => t.put("target", J::Null),
                    }
                }
                TerminatorKind::Assert { cond, expected, msg, target, .. } => {
                    t.put("k", J::s("assert"));
                    t.put("cond", self.operand(cond, def));
                    t.put("expected", J::Bool(*expected));
                    let kind = match &**msg {
                        AssertKind::BoundsCheck { .. } => "BoundsCheck".to_string(),
                        AssertKind::Overflow(op, ..) => format!("Overflow({:?})", op),
                        AssertKind::OverflowNeg(_) => "OverflowNeg".to_string(),
                        AssertKind::DivisionByZero(_) => "DivisionByZero".to_string(),
                        AssertKind::RemainderByZero(_) => "RemainderByZero".to_string(),
                        other => format!("{:?}", other).chars().take(40).collect(),
                    };
                    t.put("msg", J::s(kind));
                    t.put("target", J::Int(target.as_usize() as i128));
                }
                TerminatorKind::FalseEdge { real_target, .. } => {
                    t.put("k", J::s("goto"));
                    t.put("target", J::Int(real_target.as_usize() as i128));
                }
                TerminatorKind::FalseUnwind { real_target, .. } => {
                    t.put("k", J::s("goto"));
                    t.put("target", J::Int(real_target.as_usize() as i128));
                }
                other => {
                    t.put("k", J::s("other"));
                    t.put("dbg", J::s(format!("{:?}", other).chars().take(80).collect::<String>()));
                }
            }
            blocks.push(
                J::obj().set("stmts", J::Arr(stmts)).set("term", t).set("cleanup", J::Bool(data.is_cleanup)),
            );
        }
        J::obj()
            .set("arg_count", J::Int(body.arg_count as i128))
            .set("locals", J::Arr(locals))
            .set("blocks", J::Arr(blocks))
    }

    fn line(&self, sp: Span) -> J {
        let sm = self.tcx.sess.source_map();
        let sp = sp.source_callsite();
        J::Int(sm.lookup_char_pos(sp.lo()).line as i128)
    }

    // ------------------------------------------------------------------ instance walk

    fn callee_json(
        &mut self,
        tenv: TypingEnv<'tcx>,
        cdef: DefId,
        cargs: GenericArgsRef<'tcx>,
        queue: &mut Vec<(DefId, GenericArgsRef<'tcx>)>,
        inst_ids: &mut HashMap<(DefId, GenericArgsRef<'tcx>), usize>,
    ) -> J {
        let tcx = self.tcx;
        let mut o = J::obj()
            .set("path", J::s(self.path(cdef)))
            .set("full", J::s(tcx.def_path_str_with_args(cdef, cargs)))
            .set("targs", J::Arr(cargs.iter().filter_map(|a| a.as_type()).map(|t| self.ty(t)).collect()));
        if let Some(tr) = tcx.trait_of_assoc(cdef) {
            o.put("trait", J::s(self.path(tr)));
            o.put("method", J::s(tcx.item_name(cdef).as_str()));
        }
        if let DefKind::Ctor(of, _) = tcx.def_kind(cdef) {
            // a tuple struct / variant constructor used as a function value
            let parent = tcx.parent(cdef);
            let (adt_did, vidx) = match of {
                rustc_hir::def::CtorOf::Struct => (parent, 0usize),
                rustc_hir::def::CtorOf::Variant => {
                    let adt_did = tcx.parent(parent);
                    let adt = tcx.adt_def(adt_did);
                    (adt_did, adt.variant_index_with_id(parent).as_usize())
                }
            };
            o.put("ctor", J::obj().set("adt", J::s(self.path(adt_did))).set("variant", J::Int(vidx as i128)));
        }
        let mut enqueue = |this: &mut Self, d: DefId, a: GenericArgsRef<'tcx>| -> usize {
            if let Some(&i) = inst_ids.get(&(d, a)) {
                return i;
            }
            let i = inst_ids.len();
            inst_ids.insert((d, a), i);
            queue.push((d, a));
            let _ = this;
            i
        };
        let resolved = Instance::try_resolve(tcx, tenv, cdef, cargs);
        match resolved {
            Ok(Some(inst)) => {
                let rd = inst.def_id();
                let kind = match inst.def {
                    InstanceKind::Item(_) => "item",
                    InstanceKind::ClosureOnceShim { .. } => "closure_once_shim",
                    InstanceKind::FnPtrShim(..) => "fnptr_shim",
                    InstanceKind::CloneShim(..) => "clone_shim",
                    InstanceKind::DropGlue(..) => "drop_glue",
                    InstanceKind::Virtual(..) => "virtual",
                    InstanceKind::ReifyShim(..) => "reify",
                    InstanceKind::Intrinsic(_) => "intrinsic",
                    _ => "other",
                };
                o.put("rkind", J::s(kind));
                o.put("rpath", J::s(self.path(rd)));
                o.put("rfull", J::s(tcx.def_path_str_with_args(rd, inst.args)));
                if matches!(inst.def, InstanceKind::Item(_) | InstanceKind::ClosureOnceShim { .. })
                    && rd.is_local()
                    && tcx.is_mir_available(rd)
                {
                    let args = if let InstanceKind::ClosureOnceShim { .. } = inst.def {
                        // args of the shim are [closure_ty, arg tuple]; the closure's own args are in its type
                        match inst.args.type_at(0).kind() {
                            ty::Closure(_, cargs) => *cargs,
                            _ => inst.args,
                        }
                    } else {
                        inst.args
                    };
                    let id = enqueue(self, rd, args);
                    o.put("inst", J::Int(id as i128));
                }
            }
            Ok(None) => {
                o.put("rkind", J::s("unresolved"));
            }
            Err(_) => {
                o.put("rkind", J::s("error"));
            }
        }
        // peeled resolution: comparison traits called on references
        if let Some(tr) = tcx.trait_of_assoc(cdef) {
            let trp = self.path(tr);
            if trp == "core::cmp::PartialEq" || trp == "core::cmp::PartialOrd" || trp == "std::cmp::PartialEq" || trp == "std::cmp::PartialOrd" {
                let mut depth = 0usize;
                let mut a0 = cargs.type_at(0);
                let mut a1 = if cargs.len() > 1 { cargs.type_at(1) } else { a0 };
                while let (ty::Ref(_, i0, _), ty::Ref(_, i1, _)) = (a0.kind(), a1.kind()) {
                    a0 = *i0;
                    a1 = *i1;
                    depth += 1;
                }
                if depth > 0 {
                    let pargs = tcx.mk_args(&[a0.into(), a1.into()]);
                    let mut p = J::obj().set("depth", J::Int(depth as i128)).set("self_ty", self.ty(a0));
                    if let Ok(Some(pi)) = Instance::try_resolve(tcx, tenv, cdef, pargs) {
                        let rd = pi.def_id();
                        p.put("rpath", J::s(self.path(rd)));
                        if matches!(pi.def, InstanceKind::Item(_)) && rd.is_local() && tcx.is_mir_available(rd) {
                            let id = enqueue(self, rd, pi.args);
                            p.put("inst", J::Int(id as i128));
                        }
                    }
                    o.put("peeled", p);
                }
            }
        }
        o
    }

    fn walk_instances(&mut self, roots: &[LocalDefId]) -> J {
        let tcx = self.tcx;
        let mut all = Vec::new();
        for &root in roots {
            let rd = root.to_def_id();
            let tenv = TypingEnv::post_analysis(tcx, rd);
            let mut inst_ids: HashMap<(DefId, GenericArgsRef<'tcx>), usize> = HashMap::new();
            let mut queue: Vec<(DefId, GenericArgsRef<'tcx>)> = Vec::new();
            let id_args = ty::GenericArgs::identity_for_item(tcx, rd);
            inst_ids.insert((rd, id_args), 0);
            queue.push((rd, id_args));
            let mut insts: Vec<J> = Vec::new();
            let mut qi = 0;
            while qi < queue.len() {
                let (d, args) = queue[qi];
                qi += 1;
                let body = tcx.optimized_mir(d);
                let mut calls = Vec::new();
                let mut closures = Vec::new();
                for (bb, data) in body.basic_blocks.iter_enumerated() {
                    if data.is_cleanup {
                        continue;
                    }
                    let mut si: usize = 0;
                    for st in data.statements.iter() {
                        let emitted = matches!(&st.kind, StatementKind::Assign(_) | StatementKind::SetDiscriminant { .. });
                        let this_si = si;
                        if emitted {
                            si += 1;
                        }
                        let si = this_si;
                        if let StatementKind::Assign(b) = &st.kind {
                            if let Rvalue::Aggregate(k, _) = &b.1 {
                                if let AggregateKind::Closure(cd, cargs) = &**k {
                                    let sub = ty::EarlyBinder::bind(*cargs).instantiate(tcx, args).skip_norm_wip();
                                    let sub = tcx.normalize_erasing_regions(tenv, ty::Unnormalized::new_wip(sub));
                                    let id = if let Some(&i) = inst_ids.get(&(*cd, sub)) {
                                        i
                                    } else {
                                        let i = inst_ids.len();
                                        inst_ids.insert((*cd, sub), i);
                                        queue.push((*cd, sub));
                                        i
                                    };
                                    closures.push(J::Arr(vec![
                                        J::Int(bb.as_usize() as i128),
                                        J::Int(si as i128),
                                        J::Int(id as i128),
                                    ]));
                                }
                            }
                        }
                    }
                    if let TerminatorKind::Call { func, .. } = &data.terminator().kind {
                        let fty = func.ty(body, tcx);
                        let fty = tcx.instantiate_and_normalize_erasing_regions(args, tenv, ty::EarlyBinder::bind(fty));
                        if let ty::FnDef(cd, cargs) = fty.kind() {
                            let cj = self.callee_json(tenv, *cd, cargs, &mut queue, &mut inst_ids);
                            calls.push(J::Arr(vec![J::Int(bb.as_usize() as i128), cj]));
                        } else {
                            calls.push(J::Arr(vec![
                                J::Int(bb.as_usize() as i128),
                                J::obj().set("path", J::s("<indirect>")).set("rkind", J::s("indirect")),
                            ]));
                        }
                    }
                }
                // function items used as values (`map_err(CIError::from)`, `unwrap_or_else(T::infinity)`):
                // resolved like a call, keyed by the constant's own (path, generic args) text
                let mut fnitems = Vec::new();
                {
                    use rustc_middle::mir::visit::Visitor;
                    struct FnConsts<'tcx> {
                        found: Vec<Ty<'tcx>>,
                    }
                    impl<'tcx> Visitor<'tcx> for FnConsts<'tcx> {
                        fn visit_const_operand(&mut self, c: &ConstOperand<'tcx>, _l: Location) {
                            let t = c.const_.ty();
                            if let ty::FnDef(..) = t.kind() {
                                if !self.found.contains(&t) {
                                    self.found.push(t);
                                }
                            }
                        }
                    }
                    let mut v = FnConsts { found: Vec::new() };
                    for (bb, data) in body.basic_blocks.iter_enumerated() {
                        if data.is_cleanup {
                            continue;
                        }
                        v.visit_basic_block_data(bb, data);
                    }
                    for t in v.found {
                        if let ty::FnDef(od, oargs) = t.kind() {
                            let key = format!("{}|{:?}", self.path(*od), oargs);
                            let fty = tcx.instantiate_and_normalize_erasing_regions(args, tenv, ty::EarlyBinder::bind(t));
                            if let ty::FnDef(cd, cargs) = fty.kind() {
                                let cj = self.callee_json(tenv, *cd, cargs, &mut queue, &mut inst_ids);
                                fnitems.push(J::Arr(vec![J::s(key), cj]));
                            }
                        }
                    }
                }
                insts.push(
                    J::obj()
                        .set("fnitems", J::Arr(fnitems))
                        .set("def", J::Int(self.did(d) as i128))
                        .set("args", J::s(format!("{:?}", args)))
                        .set(
                            "targs",
                            J::Arr(args.iter().filter_map(|a| a.as_type()).map(|t| self.ty(t)).collect()),
                        )
                        .set("calls", J::Arr(calls))
                        .set("closures", J::Arr(closures)),
                );
            }
            all.push(J::obj().set("root", J::Int(self.did(rd) as i128)).set("insts", J::Arr(insts)));
        }
        J::Arr(all)
    }

    // ------------------------------------------------------------------ top level


    /// Public names: every path under which an item of this crate can be named from outside (items in public
    /// modules and `pub use` re-exports, followed transitively through re-exported modules), with the item's
    /// definition path.  Lets the analysis identify items by the names users know them by when code moves
    /// between modules.
    fn pubpaths(&mut self) -> J {
        let tcx = self.tcx;
        let mut out: Vec<J> = Vec::new();
        let mut seen: std::collections::HashSet<(String, DefId)> = std::collections::HashSet::new();
        // (module def, its public path)
        let mut work: Vec<(DefId, String, usize)> = vec![(LOCAL_CRATE.as_def_id(), String::new(), 0)];
        while let Some((m, mpath, depth)) = work.pop() {
            if depth > 8 {
                continue;
            }
            let Some(lm) = m.as_local() else { continue };
            let mut children: Vec<(String, DefId)> = Vec::new();
            // items defined in the module
            let (hm, _, _) = tcx.hir_get_module(rustc_span::def_id::LocalModDefId::new_unchecked(lm));
            for &iid in hm.item_ids.iter() {
                let d = iid.owner_id.to_def_id();
                let kind = tcx.def_kind(d);
                if matches!(kind, DefKind::Use | DefKind::Impl { .. } | DefKind::ExternCrate | DefKind::GlobalAsm | DefKind::ForeignMod) {
                    continue;
                }
                if !tcx.visibility(d).is_public() {
                    continue;
                }
                if let Some(name) = tcx.opt_item_name(d) {
                    children.push((name.to_string(), d));
                }
            }
            // re-exports
            for ch in tcx.module_children_local(lm).iter() {
                if !ch.vis.is_public() {
                    continue;
                }
                if let Some(d) = ch.res.opt_def_id() {
                    if d.is_local() {
                        children.push((ch.ident.name.to_string(), d));
                    }
                }
            }
            for (name, d) in children {
                let p = if mpath.is_empty() { name.clone() } else { format!("{}::{}", mpath, name) };
                if !seen.insert((p.clone(), d)) {
                    continue;
                }
                let kind = tcx.def_kind(d);
                out.push(J::obj().set("public", J::s(&p)).set("def", J::s(self.path(d))).set("kind", J::s(format!("{:?}", kind))));
                if matches!(kind, DefKind::Mod) {
                    work.push((d, p, depth + 1));
                }
            }
        }
        J::Arr(out)
    }

    fn dump(&mut self, fmt: Vec<J>) -> J {
        let tcx = self.tcx;
        let owners: Vec<LocalDefId> = tcx.hir_body_owners().collect();
        let mut fns = Vec::new();
        let mut bodies = Vec::new();
        let mut roots = Vec::new();
        for &ld in &owners {
            let d = ld.to_def_id();
            let kind = tcx.def_kind(d);
            if !matches!(kind, DefKind::Fn | DefKind::AssocFn | DefKind::Closure) {
                continue;
            }
            if !tcx.is_mir_available(d) {
                continue;
            }
            fns.push(self.fn_meta(ld));
            let body = tcx.optimized_mir(d);
            let mut b = self.body(body, d);
            let promoted = tcx.promoted_mir(d);
            let pj: Vec<J> = promoted.iter().map(|pb| self.body(pb, d)).collect();
            b.put("promoted", J::Arr(pj));
            b.put("def", J::Int(self.did(d) as i128));
            bodies.push(b);
            if matches!(kind, DefKind::Fn | DefKind::AssocFn) {
                roots.push(ld);
            }
        }
        let adts = self.dump_adts();
        let impls = self.dump_impls();
        let traits = self.dump_traits();
        let pubpaths = self.pubpaths();
        let instances = self.walk_instances(&roots);
        let mut consts = Vec::new();
        for ld in tcx.hir_crate_items(()).definitions() {
            let d = ld.to_def_id();
            if matches!(tcx.def_kind(d), DefKind::Const { .. } | DefKind::AssocConst { .. }) {
                let mut o = J::obj().set("path", J::s(self.path(d)));
                if tcx.generics_of(d).is_empty() {
                    if let Ok(v) = tcx.const_eval_poly(d) {
                        if let ConstValue::Scalar(Scalar::Int(i)) = v {
                            o.put("bits", J::s(format!("{}", i.to_bits(i.size()))));
                            o.put("size", J::Int(i.size().bytes() as i128));
                        }
                    }
                    o.put("ty", self.ty(tcx.type_of(d).instantiate_identity().skip_norm_wip()));
                    // the initialiser's MIR: struct / enum valued constants are evaluated symbolically from it
                    if matches!(tcx.def_kind(d), DefKind::Const { .. } | DefKind::AssocConst { .. }) && tcx.is_mir_available(d) || true {
                        let body = tcx.mir_for_ctfe(d);
                        let mut b = self.body(body, d);
                        b.put("promoted", J::Arr(Vec::new()));
                        o.put("body", b);
                    }
                }
                consts.push(o);
            }
        }
        let mut features: Vec<J> = Vec::new();
        for (k, v) in tcx.sess.config.iter() {
            if k.as_str() == "feature" {
                if let Some(v) = v {
                    features.push(J::s(v.as_str()));
                }
            }
        }
        let defs: Vec<J> = self.defs.clone().iter().map(|d| J::s(self.path(*d))).collect();
        let meta = J::obj()
            .set("crate", J::s(tcx.crate_name(LOCAL_CRATE).as_str()))
            .set("features", J::Arr(features))
            .set("rustc", J::s(rustc_interface::util::rustc_version_str().unwrap_or("?")))
            .set("n_bodies", J::Int(bodies.len() as i128))
            .set("n_roots", J::Int(roots.len() as i128));
        J::obj()
            .set("meta", meta)
            .set("defs", J::Arr(defs))
            .set("adts", adts)
            .set("impls", impls)
            .set("traits", traits)
            .set("consts", J::Arr(consts))
            .set("fns", J::Arr(fns))
            .set("bodies", J::Arr(bodies))
            .set("instances", instances)
            .set("fmt", J::Arr(fmt))
            .set("pubpaths", pubpaths)
    }
}

#[allow(dead_code)]
fn unused(_: mir::Local) {}
