// C11 violation 2: ci_z_normal accepts a sample with a single failure when the counts exceed 2^53.
//
// Expected (statement: "too few successes or failures ... produce the documented error variant";
// docs of ci_z_normal: TooFewFailures; the rule is n - x >= 10 "decided on the exact counts"):
// population - successes = 1 must yield Err(CIError::TooFewFailures(1, ..)).
// Actual: the rule is evaluated on `population as f64` and `successes as f64`
// (src/proportion.rs:639-650). Above 2^53 the conversions round: 2^57+17 -> 2^57+32 and
// 2^57+16 -> 2^57, so n - x = 32 >= 10 and the call returns Ok(..) (a Wald interval for a sample
// that has exactly one failure).  64-bit targets only.
#![cfg(target_pointer_width = "64")]
use stats_ci::error::CIError;
use stats_ci::*;

#[test]
fn wald_one_failure_huge_counts() {
    let n: usize = (1 << 57) + 17;
    let k: usize = (1 << 57) + 16;
    assert_eq!(n - k, 1);
    for c in [Confidence::new_two_sided(0.95), Confidence::new_upper(0.95), Confidence::new_lower(0.95)] {
        let r = proportion::ci_z_normal(c, n, k);
        assert!(matches!(r, Err(CIError::TooFewFailures(1, _, _))), "ci_z_normal({:?}, {}, {}) = {:?}", c, n, k, r);
    }
}

#[test]
fn wald_nine_failures_huge_counts() {
    let n: usize = (1 << 56) + 9;
    let k: usize = 1 << 56;
    let r = proportion::ci_z_normal(Confidence::new_two_sided(0.95), n, k);
    assert!(matches!(r, Err(CIError::TooFewFailures(9, _, _))), "ci_z_normal(0.95, {}, {}) = {:?}", n, k, r);
}
