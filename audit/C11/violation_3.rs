// C11 violation 3: an infinite observation is accepted by the harmonic mean.
//
// Expected (statement: "NaN or infinite observations ... produce the documented error variant";
// docs of mean::Harmonic::ci: InvalidInputData "if the input data contains invalid values"; this is
// what Arithmetic and Geometric answer for +inf): Err(CIError::InvalidInputData).
// Actual: Harmonic::append (src/mean.rs:509-517) only rejects x <= 0 and stores 1/inf = 0, so the
// call returns Ok(..) with a finite interval (one-sided kinds, or two-sided when the reciprocal
// interval stays positive), Ok([inf, inf]) for all-infinite data, or the undocumented
// Err(IntervalError(InvalidBounds)) when the reciprocal interval straddles 0.
use stats_ci::error::CIError;
use stats_ci::*;

#[test]
fn harmonic_infinite_observation_two_sided() {
    let data = [1.0, 1.1, 1.2, 1.3, f64::INFINITY];
    let r = mean::Harmonic::ci(Confidence::new_two_sided(0.95), &data);
    assert!(matches!(r, Err(CIError::InvalidInputData)), "Harmonic::ci(0.95, {:?}) = {:?}", data, r);
}

#[test]
fn harmonic_infinite_observation_one_sided() {
    let data = [1.0, f64::INFINITY];
    let r = mean::Harmonic::ci(Confidence::new_upper(0.8), &data);
    assert!(matches!(r, Err(CIError::InvalidInputData)), "Harmonic::ci(upper 0.8, {:?}) = {:?}", data, r);
}

#[test]
fn harmonic_all_infinite() {
    let data = [f64::INFINITY, f64::INFINITY];
    let r = mean::Harmonic::ci(Confidence::new_two_sided(0.95), &data);
    assert!(matches!(r, Err(CIError::InvalidInputData)), "Harmonic::ci(0.95, {:?}) = {:?}", data, r);
}

#[test]
fn harmonic_infinite_observation_undocumented_variant() {
    let data = [1.0, 2.0, f64::INFINITY];
    let r = <mean::Harmonic<f64> as StatisticsOps<f64>>::ci(Confidence::new_two_sided(0.95), &data);
    assert!(matches!(r, Err(CIError::InvalidInputData)), "Harmonic::ci(0.95, {:?}) = {:?}", data, r);
}
