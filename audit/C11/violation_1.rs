// C11 violation 1: a NaN quantile is answered with TooFewSuccesses instead of InvalidQuantile.
//
// Expected (statement + docs of quantile::ci_indices / quantile::Stats::ci): a quantile that is not
// in (0,1) -- NaN is explicitly in the quantifier -- yields Err(CIError::InvalidQuantile(_)).
// Actual: `quantile <= 0. || 1. <= quantile` (src/quantile.rs:81) is false for NaN, the sample-size
// test passes for n >= 4, `(NaN * n).round() as usize` is 0 and ci_wilson answers
// Err(TooFewSuccesses(0, n, 0.0)), a variant that neither function documents.
// (quantile::ci / ci_sorted_unchecked use `!(q > 0. && q < 1.)` and do reject NaN correctly.)
use stats_ci::error::CIError;
use stats_ci::*;

#[test]
fn nan_quantile_ci_indices() {
    for c in [Confidence::new_two_sided(0.95), Confidence::new_upper(0.95), Confidence::new_lower(0.95)] {
        let r = quantile::ci_indices(c, 15, f64::NAN);
        assert!(matches!(r, Err(CIError::InvalidQuantile(_))), "ci_indices(.., 15, NaN) = {:?}", r);
    }
}

#[test]
fn nan_quantile_stats_ci() {
    let r = quantile::Stats::new(15).ci(Confidence::new_two_sided(0.95), f64::NAN);
    assert!(matches!(r, Err(CIError::InvalidQuantile(_))), "Stats::new(15).ci(.., NaN) = {:?}", r);
}

#[test]
fn nan_quantile_stats_index() {
    // same root cause (src/quantile.rs:148): documented "InvalidQuantile - if the quantile is not in (0, 1)"
    let r = quantile::Stats::new(15).index(f64::NAN);
    assert!(matches!(r, Err(CIError::InvalidQuantile(_))), "Stats::new(15).index(NaN) = {:?}", r);
}
