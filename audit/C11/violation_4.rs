// C11 violation 4: quantile::ci_sorted_unchecked returns Ok with NaN bounds.
//
// Expected (statement: "no call returns Ok with a NaN bound"; NaN observations must give an error
// -- or, for the sorting entry points only, the documented panic): an Err.
// Actual: ci_sorted_unchecked (src/quantile.rs:231-236) hands sorted[lo], sorted[hi] to
// Interval::new / new_upper / new_lower, and Interval::new (src/interval.rs:206-212) only rejects
// `low > high`, which is false whenever a bound is NaN.
// The first slice below is what `sort_by(f64::total_cmp)` produces (NaN last), i.e. a slice a
// caller would legitimately regard as "already sorted".
use stats_ci::*;

fn has_nan(i: &Interval<f64>) -> bool {
    i.low_f().is_nan() || i.high_f().is_nan()
}

#[test]
fn sorted_with_trailing_nan() {
    let mut data = vec![3., 1., 2., f64::NAN, 5., 4., 7., 6., 9., 8., 11., 10., 13., 12., 14.];
    data.sort_by(f64::total_cmp);
    assert!(data[14].is_nan());
    let r = quantile::ci_sorted_unchecked(Confidence::new_two_sided(0.999), &data, 0.867);
    assert!(!matches!(&r, Ok(i) if has_nan(i)), "two-sided: {:?}", r);
}

#[test]
fn sorted_with_trailing_nan_one_sided() {
    let mut data = vec![3., 1., 2., f64::NAN, 5., 4., 7., 6., 9., 8., 11., 10., 13., 12., 14.];
    data.sort_by(f64::total_cmp);
    let r = quantile::ci_sorted_unchecked(Confidence::new_lower(0.999), &data, 0.867);
    assert!(!matches!(&r, Ok(i) if has_nan(i)), "lower one-sided: {:?}", r);
}

#[test]
fn all_nan() {
    let r = quantile::ci_sorted_unchecked(Confidence::new_two_sided(0.95), &[f64::NAN; 15], 0.5);
    assert!(!matches!(&r, Ok(i) if has_nan(i)), "all NaN: {:?}", r);
}
