// C11 violation 5 (scope caveat: these are state-updating entry points, not interval producers):
// undocumented arithmetic-overflow panics of the running counters, in a build with overflow checks
// (the default test / debug profile).
//
// Expected (statement: "The only panics are the documented ones: ..." -- counter overflow is not in
// the list and no doc comment mentions it): no panic.
// Actual: "attempt to add with overflow" at src/proportion.rs:144-154 (add_success / add_failure,
// hence extend, extend_if, FromIterator), :287-288 (Add), :308-309 (AddAssign) and
// src/quantile.rs:163,171 (Add / AddAssign of quantile::Stats).
use stats_ci::*;
use std::panic::catch_unwind;

#[test]
fn proportion_stats_extend_at_max() {
    let r = catch_unwind(|| {
        let mut s = proportion::Stats::new(usize::MAX, 0);
        s.extend(&[false]);
        s
    });
    assert!(r.is_ok(), "proportion::Stats::new(usize::MAX, 0).extend(&[false]) panicked");
}

#[test]
fn proportion_stats_add_at_max() {
    let r = catch_unwind(|| proportion::Stats::new(usize::MAX, 5) + proportion::Stats::new(1, 0));
    assert!(r.is_ok(), "proportion::Stats + proportion::Stats panicked");
}

#[test]
fn quantile_stats_add_at_max() {
    let r = catch_unwind(|| quantile::Stats::new(usize::MAX) + quantile::Stats::new(1));
    assert!(r.is_ok(), "quantile::Stats + quantile::Stats panicked");
}
