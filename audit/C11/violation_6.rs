// C11 violation 6 (scope caveat: accessors of the running statistics, not interval producers; they
// are the "count - 1" mechanism the property is anchored on):
// sample_variance / sample_std_dev / sample_sem of an EMPTY state panic with
// "attempt to subtract with overflow" in a build with overflow checks.
//
// Expected (statement: "The only panics are the documented ones"; nothing in the docs of these
// methods mentions a panic; ci_mean on the same state correctly answers TooFewSamples(0)): no panic
// (e.g. NaN, which is what the singleton state and release builds return).
// Actual: `self.count - 1` on usize at src/mean.rs:339 (sample_variance), :378 (sample_sem),
// :546 (Harmonic::sample_sem), :703 (Geometric::sample_sem); reached as well through
// StatisticsOps::sample_sem and comparison::Paired::sample_sem (src/comparison.rs:327-329).
use stats_ci::*;
use std::panic::catch_unwind;

#[test]
fn arithmetic_empty_sample_sem() {
    assert!(catch_unwind(|| mean::Arithmetic::<f64>::new().sample_sem()).is_ok());
}
#[test]
fn arithmetic_empty_sample_variance() {
    assert!(catch_unwind(|| mean::Arithmetic::<f64>::new().sample_variance()).is_ok());
}
#[test]
fn arithmetic_empty_sample_std_dev() {
    assert!(catch_unwind(|| mean::Arithmetic::<f64>::new().sample_std_dev()).is_ok());
}
#[test]
fn harmonic_geometric_empty_sample_sem_via_trait() {
    assert!(catch_unwind(|| StatisticsOps::<f64>::sample_sem(&mean::Harmonic::<f64>::new())).is_ok());
    assert!(catch_unwind(|| StatisticsOps::<f64>::sample_sem(&mean::Geometric::<f64>::new())).is_ok());
}
#[test]
fn paired_empty_sample_sem() {
    assert!(catch_unwind(|| comparison::Paired::<f64>::default().sample_sem()).is_ok());
}
