// C06 violation 2 (accuracy, systematic): even where the critical value is "a" t quantile, its accuracy
// degrades with the degrees of freedom: from ~1e-8 relative at a few thousand dof to 4e-6 .. 9e-5 relative
// at 30 000 .. 99 999 dof (just below the t -> z switch), i.e. the T cdf at the implied critical value
// misses (1+L)/2 by up to 1.9e-5 (coverage of a two-sided 50% interval: 0.49996; of a 95% interval at
// 99 355 samples: 0.94999908). Above the switch (normal quantile) the error is ~1e-16.
// This is ten orders of magnitude above f64 resolution and far above the library's own regression
// tolerances (1e-8 absolute on the bounds at 99 dof).  Whether it counts as a violation depends on the
// tolerance granted to "equals"; the asserts below grant 1e-7 on the coverage.
//
// Expected behaviour (property C06): T_dof(half-width / standard-error) = (1+L)/2, coverage exactly L.
//
// Root cause: src/stats.rs:33-36 (`t_value`) -> statrs `StudentsT::inverse_cdf` ->
// `inv_beta_reg(dof/2, 1/2, .)` solves for y = dof/(dof+t^2) with an absolute tolerance while 1-y ~ t^2/dof.
//
// Run: cargo test --offline --test violation_2      (default features)

use stats_ci::*;

/// ln cos u, accurate for small u
fn ln_cos(u: f64) -> f64 {
    let s = u.sin();
    0.5 * (-(s * s)).ln_1p()
}

/// composite Simpson of cos^(nu-1) on [0, upper] with `m` (even) intervals
fn simpson(nu: f64, upper: f64, m: usize) -> f64 {
    let h = upper / m as f64;
    let f = |u: f64| if nu == 1.0 { 1.0 } else { ((nu - 1.0) * ln_cos(u)).exp() };
    let mut s = f(0.0) + f(upper);
    for i in 1..m {
        s += f(i as f64 * h) * if i % 2 == 1 { 4.0 } else { 2.0 };
    }
    s * h / 3.0
}

/// P(|T_nu| <= t): with theta = atan(t/sqrt(nu)) it is  int_0^theta cos^(nu-1) / int_0^(pi/2) cos^(nu-1)
fn t_central_prob(t: f64, nu: f64) -> f64 {
    let theta = (t.abs() / nu.sqrt()).atan();
    // the integrand is ~exp(-nu u^2/2): beyond 14/sqrt(nu) it is < 1e-42
    let full = (14.0 / nu.sqrt()).min(std::f64::consts::FRAC_PI_2);
    let per_unit = 400.0 * nu.sqrt(); // step 0.0025/sqrt(nu)
    let m1 = (((theta * per_unit) as usize) / 2 + 1) * 2;
    let m2 = (((full * per_unit) as usize) / 2 + 1) * 2;
    simpson(nu, theta.min(full), m1) / simpson(nu, full, m2)
}

/// n observations with mean exactly 0: n/2 pairs (+1, -1) and a 0 if n is odd
fn probe(n: usize) -> mean::Arithmetic<f64> {
    let mut data: Vec<f64> = Vec::with_capacity(n);
    if n % 2 == 1 {
        data.push(0.0);
    }
    for _ in 0..n / 2 {
        data.push(1.0);
        data.push(-1.0);
    }
    mean::Arithmetic::from_iter(&data).unwrap()
}

#[test]
fn reference_sanity() {
    // exact values: nu = 1 (Cauchy) P(|T|<=1) = 1/2 ; nu = 2: P(|T|<=t) = t/sqrt(2+t^2)
    assert!((t_central_prob(1.0, 1.0) - 0.5).abs() < 1e-9);
    assert!((t_central_prob(2.0, 2.0) - 2.0 / 6f64.sqrt()).abs() < 1e-9);
    // 50-digit value (closed form A&S 26.7.4, decimal arithmetic): A(1.96 | 99998) = 0.95000143675023908...
    assert!((t_central_prob(1.96, 99998.0) - 0.95000143675023908).abs() < 1e-10);
    assert!((t_central_prob(1.2, 39999.0) - 0.76985355221709887).abs() < 1e-10);
}

fn coverage_two_sided(n: usize, level: f64) -> (f64, f64) {
    let stats = probe(n);
    let ci = stats.ci_mean(Confidence::new_two_sided(level)).unwrap();
    let se = stats.sample_std_dev() / (n as f64).sqrt();
    let crit = (ci.high_f() - ci.low_f()) / 2.0 / se;
    (crit, t_central_prob(crit, (n - 1) as f64))
}

#[test]
fn two_sided_95_percent_with_99355_samples() {
    let (crit, coverage) = coverage_two_sided(99_355, 0.95);
    println!("critical value {crit} (true 1.95998786178..), coverage {coverage}");
    assert!((coverage - 0.95).abs() < 1e-7, "coverage {coverage}");
}

#[test]
fn two_sided_50_percent_with_99666_samples() {
    let (crit, coverage) = coverage_two_sided(99_666, 0.5);
    println!("critical value {crit} (true 0.67449221180..), coverage {coverage}");
    assert!((coverage - 0.5).abs() < 1e-7, "coverage {coverage}");
}

#[test]
fn two_sided_80_percent_with_26366_samples() {
    let (crit, coverage) = coverage_two_sided(26_366, 0.8);
    println!("critical value {crit} (true 1.28158367654..), coverage {coverage}");
    assert!((coverage - 0.8).abs() < 1e-7, "coverage {coverage}");
}

#[test]
fn control_above_the_switch_is_accurate() {
    // 100 001 samples -> 100 000 dof -> normal quantile; coverage under the t distribution differs from L
    // only by the (allowed) t-vs-z difference ~ 1e-6, and the normal cdf at the critical value is exact
    let (crit, _) = coverage_two_sided(100_001, 0.95);
    assert!((crit - 1.959963984540054).abs() < 1e-12);
}
