// C06 violation 1 (gross): for some (sample size, level) pairs with roughly 13 000 .. 99 999 degrees of
// freedom the critical value implied by a mean / comparison interval is NOT a Student-t quantile at all:
// the interval is 10x .. 50x too narrow and its coverage under normal sampling is off by 0.2 .. 0.4.
//
// Expected behaviour (property C06): half-width / standard-error = t with  T_dof(t) = (1+L)/2 (two-sided)
// or = L (one-sided), so that the coverage is exactly L.
//
// Root cause: src/stats.rs:33-36 (`t_value`) returns statrs' `StudentsT::inverse_cdf` unchecked; its
// AS 64/109 Newton iteration (`statrs::function::beta::inv_beta_reg`) stops on an ABSOLUTE step criterion
// (|step| <= ~1e-7 on y = dof/(dof+t^2), which lies within ~1/dof of 1) and sometimes stops at a non-root.
//
// The reference below is independent of statrs: the Student-t central probability as the ratio of two
// composite-Simpson integrals of cos^(dof-1) (angle form of the t density; no gamma function needed).
//
// Run: cargo test --offline --test violation_1      (default features)

use stats_ci::*;

/// ln cos u, accurate for small u
fn ln_cos(u: f64) -> f64 {
    let s = u.sin();
    0.5 * (-(s * s)).ln_1p()
}

/// composite Simpson of cos^(nu-1) on [0, upper] with `m` (even) intervals
fn simpson(nu: f64, upper: f64, m: usize) -> f64 {
    let h = upper / m as f64;
    let f = |u: f64| if nu == 1.0 { 1.0 } else { ((nu - 1.0) * ln_cos(u)).exp() };
    let mut s = f(0.0) + f(upper);
    for i in 1..m {
        s += f(i as f64 * h) * if i % 2 == 1 { 4.0 } else { 2.0 };
    }
    s * h / 3.0
}

/// P(|T_nu| <= t): with theta = atan(t/sqrt(nu)) it is  int_0^theta cos^(nu-1) / int_0^(pi/2) cos^(nu-1)
fn t_central_prob(t: f64, nu: f64) -> f64 {
    let theta = (t.abs() / nu.sqrt()).atan();
    // the integrand is ~exp(-nu u^2/2): beyond 14/sqrt(nu) it is < 1e-42
    let full = (14.0 / nu.sqrt()).min(std::f64::consts::FRAC_PI_2);
    let per_unit = 400.0 * nu.sqrt(); // step 0.0025/sqrt(nu)
    let m1 = (((theta * per_unit) as usize) / 2 + 1) * 2;
    let m2 = (((full * per_unit) as usize) / 2 + 1) * 2;
    simpson(nu, theta.min(full), m1) / simpson(nu, full, m2)
}

/// n observations with mean exactly 0: n/2 pairs (+1, -1) and a 0 if n is odd
fn probe(n: usize) -> mean::Arithmetic<f64> {
    let mut data: Vec<f64> = Vec::with_capacity(n);
    if n % 2 == 1 {
        data.push(0.0);
    }
    for _ in 0..n / 2 {
        data.push(1.0);
        data.push(-1.0);
    }
    mean::Arithmetic::from_iter(&data).unwrap()
}

#[test]
fn reference_sanity() {
    // exact values: nu = 1 (Cauchy) P(|T|<=1) = 1/2 ; nu = 2: P(|T|<=t) = t/sqrt(2+t^2)
    assert!((t_central_prob(1.0, 1.0) - 0.5).abs() < 1e-9);
    assert!((t_central_prob(2.0, 2.0) - 2.0 / 6f64.sqrt()).abs() < 1e-9);
    // 50-digit value (closed form A&S 26.7.4, decimal arithmetic): A(1.96 | 99998) = 0.95000143675023908...
    assert!((t_central_prob(1.96, 99998.0) - 0.95000143675023908).abs() < 1e-10);
    assert!((t_central_prob(1.2, 39999.0) - 0.76985355221709887).abs() < 1e-10);
}

#[test]
fn two_sided_75_percent_with_49519_samples() {
    let n = 49_519usize;
    let level = 0.75;
    let stats = probe(n);
    let ci = stats.ci_mean(Confidence::new_two_sided(level)).unwrap();
    let se = stats.sample_std_dev() / (n as f64).sqrt();
    let crit = (ci.high_f() - ci.low_f()) / 2.0 / se;
    let coverage = t_central_prob(crit, (n - 1) as f64);
    println!("n={n} two-sided {level}: implied critical value {crit}, coverage under normality {coverage}");
    // true critical value: 1.15036..; the library's interval uses 0.021999.. and covers with probability 0.0176
    assert!(
        (coverage - level).abs() < 1e-6,
        "75% interval covers with probability {coverage} (critical value {crit})"
    );
}

#[test]
fn upper_79_percent_with_16698_samples() {
    let n = 16_698usize;
    let level = 0.79;
    let stats = probe(n);
    let ci = stats.ci_mean(Confidence::new_upper(level)).unwrap();
    let se = stats.sample_std_dev() / (n as f64).sqrt();
    let crit = (stats.sample_mean() - ci.low_f()) / se;
    let cdf = 0.5 + 0.5 * crit.signum() * t_central_prob(crit, (n - 1) as f64);
    println!("n={n} upper {level}: implied critical value {crit}, T cdf at it {cdf}");
    // true critical value 0.8064..; the library uses 0.033999.. whose cdf is 0.5136
    assert!((cdf - level).abs() < 1e-6, "cdf at the critical value is {cdf}, not {level}");
}

#[test]
fn unpaired_real_valued_dof() {
    // two samples of 50 001 observations, standard deviations in ratio 1.026:
    // effective dof (library's formula) = 99936.186.. < 100 000, so the t distribution applies
    let n = 50_001usize;
    let level = 0.55;
    let a = probe(n);
    let mut b = mean::Arithmetic::<f64>::new();
    let mut data = vec![0.0];
    for _ in 0..n / 2 {
        data.push(1.026);
        data.push(-1.026);
    }
    b.extend(&data).unwrap();
    let u = comparison::Unpaired::new(a, b);
    let ci = u.ci_mean(Confidence::new_two_sided(level)).unwrap();
    // the library's standard error and effective dof, from public accessors
    let nf = n as f64;
    let (sa, sb) = (u.stats_a().sample_std_dev(), u.stats_b().sample_std_dev());
    let (va, vb) = (sa * sa / nf, sb * sb / nf);
    let se = (va + vb).sqrt();
    let dof = (va + vb) * (va + vb) / (va * va / (nf + 1.0) + vb * vb / (nf + 1.0)) - 2.0;
    assert!(dof > 99_900.0 && dof < 100_000.0);
    let crit = (ci.high_f() - ci.low_f()) / 2.0 / se;
    let coverage = t_central_prob(crit, dof);
    println!("unpaired dof={dof} two-sided {level}: critical value {crit}, coverage {coverage}");
    // true critical value 0.75537..; the library uses 0.074928.. (coverage 0.0597)
    assert!((coverage - level).abs() < 1e-6, "55% interval covers with probability {coverage}");
}
