// C17 violation 6 (rounding level, populations >= 2^52 only): the Wilson interval's upper bound exceeds 1 by one
// ulp and the upper bound decreases by one ulp from k to k+1.
//
// Statement: "both bounds ... are non-decreasing in the success count k" and "all bounds stay within [0,1]".
// The statement has no rounding allowance, but its quantifier says "(n, k) ... up to a large bound
// (exhaustively)"; populations of 2^52 .. 2^56 are only inside it if that bound is taken to be the whole usize
// range.  Below 2^52 no such case exists in 145M boundary-focused cases (levels 0.9 .. 0.999, all kinds).
// Root cause: src/proportion.rs:549-555 - for n >= 2^52, n_s + z^2/2 and n + z^2 are rounded to multiples of
// 1..8 so `mean` carries an error of a few 1e-16, comparable with 1 - (mean + span) ~ n_f^2 / (n z^2).
#![cfg(target_pointer_width = "64")]
use stats_ci::*;

#[test]
fn wilson_upper_bound_above_one() {
    let n: usize = 1 << 53;
    let i = proportion::ci(Confidence::new_two_sided(0.999), n, n - 2).unwrap();
    assert!(i.high_f() <= 1., "n=2^53, k=n-2: {i:?}");
}

#[test]
fn wilson_lower_one_sided_upper_bound_above_one() {
    let n: usize = 1 << 54;
    let i = proportion::ci(Confidence::new_lower(0.999), n, n - 2).unwrap();
    assert!(i.high_f() <= 1., "n=2^54, k=n-2: {i:?}");
}

#[test]
fn wilson_upper_bound_not_monotone_in_k() {
    let n: usize = (1 << 53) - 1;
    let c = Confidence::new_two_sided(0.999);
    let a = proportion::ci(c, n, n - 3).unwrap();
    let b = proportion::ci(c, n, n - 2).unwrap();
    assert!(a.high_f() <= b.high_f(), "n=2^53-1: k=n-3 {a:?} -> k=n-2 {b:?}");
}
