// C17 violation 4 (floating-point degeneracy): for very small two-sided levels the interval collapses to the
// single point [k/n, k/n], so a larger population does not give a STRICTLY narrower interval and a higher level
// does not give a wider one.
//
// Statement: "observing the same proportion on a larger population gives a strictly narrower interval; a higher
// level gives a wider one", for all confidence levels.  Confidence::new_two_sided(1e-17) is a valid confidence.
// Expected: width(n=200,k=100) < width(n=100,k=50); width(level 1e-16) > width(level 1e-17).
// Actual: all four intervals are TwoSided(0.5, 0.5).
// Root cause: src/confidence.rs:271 - `1. - (1. - confidence) / 2.` is exactly 0.5 for every level < 2^-53
// (so z = 0 at src/proportion.rs:546), and for levels up to ~1e-14 the span z/(n+z^2)*sqrt(..) is below half an
// ulp of the centre so `mean - span == mean + span` (src/proportion.rs:553, 664).
use stats_ci::*;

#[test]
fn tiny_two_sided_level_not_strictly_narrower() {
    let c = Confidence::new_two_sided(1e-17);
    type F = fn(Confidence, usize, usize) -> CIResult<Interval<f64>>;
    let fs: [(&str, F); 3] = [
        ("ci", proportion::ci),
        ("ci_wilson", proportion::ci_wilson),
        ("ci_z_normal", proportion::ci_z_normal),
    ];
    for (name, f) in fs {
        let small = f(c, 100, 50).unwrap();
        let large = f(c, 200, 100).unwrap();
        assert!(
            large.high_f() - large.low_f() < small.high_f() - small.low_f(),
            "{name}: {small:?} (n=100) vs {large:?} (n=200): not strictly narrower"
        );
    }
}

#[test]
fn tiny_two_sided_level_not_wider_with_level() {
    let lo = proportion::ci(Confidence::new_two_sided(1e-17), 100, 40).unwrap();
    let hi = proportion::ci(Confidence::new_two_sided(1e-16), 100, 40).unwrap();
    assert!(
        hi.high_f() - hi.low_f() > lo.high_f() - lo.low_f(),
        "level 1e-17 gives {lo:?}, level 1e-16 gives {hi:?}: not wider"
    );
}
