// C17 violation 5: the bounds of ci_z_normal (Wald) are not monotone in the success count k at very high levels.
//
// Statement: "For a fixed confidence both bounds of the proportion interval are non-decreasing in the success
// count k", all admissible (n, k), all levels.
// Two-sided level 1 - 1e-12, n = 177: k = 10 -> lower bound -0.0672450..., k = 11 -> lower bound -0.0672459...
// (decreases); symmetrically the upper bound decreases from k = 165 to k = 166.
// Root cause: src/proportion.rs:659-664 - d/dk (p - z sqrt(p q / n)) = (1 - z (1 - 2p) / (2 sqrt(n p q))) / n is
// negative near k = 10 once z > 2 sqrt(n p q) ~ 6.3, i.e. for two-sided levels >= ~1 - 1e-10; in that regime the
// bound is already outside [0,1] (see violation 1).  Exhaustive n <= 4000: first seen at level 1 - 1e-11.
use stats_ci::*;

#[test]
fn wald_lower_bound_decreases_in_k() {
    let c = Confidence::new_two_sided(1. - 1e-12);
    let a = proportion::ci_z_normal(c, 177, 10).unwrap();
    let b = proportion::ci_z_normal(c, 177, 11).unwrap();
    assert!(a.low_f() <= b.low_f(), "lower bound k=10: {:?} > k=11: {:?}", a.low_f(), b.low_f());
}

#[test]
fn wald_upper_bound_decreases_in_k() {
    let c = Confidence::new_two_sided(1. - 1e-12);
    let a = proportion::ci_z_normal(c, 177, 166).unwrap();
    let b = proportion::ci_z_normal(c, 177, 167).unwrap();
    assert!(a.high_f() <= b.high_f(), "upper bound k=166: {:?} > k=167: {:?}", a.high_f(), b.high_f());
}
