// C17 violation 2: for one-sided confidences with level <= 1/2, observing the same proportion on a larger
// population does NOT give a strictly narrower interval (it gives a wider one for level < 1/2 and an identical
// one for level = 1/2).
//
// Statement: "observing the same proportion on a larger population gives a strictly narrower interval",
// quantified over "all multipliers m for (m*n, m*k), all confidence levels/kinds".  Confidence::new_upper(0.3)
// is a valid confidence (level in (0,1)).
// Expected: width(ci(c, 2n, 2k)) < width(ci(c, n, k)).  Actual (Wilson, upper one-sided 30 %):
//   n=100,k=50 -> [0.52618.., 1]      n=200,k=100 -> [0.51852.., 1]   (wider)
// Root cause: for a one-sided level < 1/2 the normal quantile z = z_value(confidence) (src/stats.rs:18 with
// src/confidence.rs:272) is negative, so `mean - span` (src/proportion.rs:550,554 and 662,665) lies ABOVE p-hat
// and converges down to p-hat as n grows; for level = 1/2, z = 0 and the interval is [k/n, 1] for every n.
use stats_ci::*;

fn width(i: &Interval<f64>) -> f64 {
    i.high_f() - i.low_f()
}

fn check(c: Confidence) {
    type F = fn(Confidence, usize, usize) -> CIResult<Interval<f64>>;
    let fs: [(&str, F); 3] = [
        ("ci", proportion::ci),
        ("ci_wilson", proportion::ci_wilson),
        ("ci_z_normal", proportion::ci_z_normal),
    ];
    for (name, f) in fs {
        let small = f(c, 100, 50).unwrap();
        let large = f(c, 200, 100).unwrap();
        assert!(
            width(&large) < width(&small),
            "{name} {c:?}: n=100,k=50 gives {small:?} but n=200,k=100 gives {large:?} (not strictly narrower)"
        );
    }
    let small = proportion::Stats::new(100, 50).ci(c).unwrap();
    let large = (proportion::Stats::new(100, 50) + proportion::Stats::new(100, 50)).ci(c).unwrap();
    assert!(width(&large) < width(&small), "Stats::ci {c:?}: {small:?} -> {large:?}");
}

#[test]
fn upper_one_sided_30_percent() {
    check(Confidence::new_upper(0.3));
}

#[test]
fn lower_one_sided_30_percent() {
    check(Confidence::new_lower(0.3));
}

#[test]
fn one_sided_50_percent() {
    check(Confidence::new_upper(0.5));
    check(Confidence::new_lower(0.5));
}
