// C17 violation 1: ci_z_normal (Wald) returns bounds outside [0,1].
//
// Statement: "... all bounds stay within [0,1] ..." for all admissible (n, k), all levels / kinds.
// (n, k) below satisfy the function's own admissibility rule k >= 10 and n - k >= 10, the levels are
// ordinary (99.9 %, 99.99 %).  Expected: 0 <= low <= high <= 1.  Actual: e.g. high = 1.00078..., low = -0.00224...
// Root cause: src/proportion.rs:659-667 - `mean -/+ z * sqrt(p q / n)` is returned unclamped; with k = 10 the
// lower bound is negative as soon as z^2 > 10 n / (n - 10), i.e. for every two-sided level >= ~0.9985.
use stats_ci::*;

fn assert_unit(i: &Interval<f64>, what: &str) {
    assert!(
        i.low_f() >= 0. && i.high_f() <= 1.,
        "{what}: bounds {:?} are not within [0,1]",
        i
    );
}

#[test]
fn wald_two_sided_999_upper_bound_above_one() {
    let i = proportion::ci_z_normal(Confidence::new_two_sided(0.999), 260, 250).unwrap();
    assert_unit(&i, "two-sided 99.9%, n=260, k=250");
}

#[test]
fn wald_two_sided_9999_lower_bound_negative() {
    let i = proportion::ci_z_normal(Confidence::new_two_sided(0.9999), 1000, 10).unwrap();
    assert_unit(&i, "two-sided 99.99%, n=1000, k=10");
}

#[test]
fn wald_one_sided_9999_bounds_outside() {
    let i = proportion::ci_z_normal(Confidence::new_upper(0.9999), 71, 10).unwrap();
    assert_unit(&i, "upper one-sided 99.99%, n=71, k=10");
    let i = proportion::ci_z_normal(Confidence::new_lower(0.9999), 71, 61).unwrap();
    assert_unit(&i, "lower one-sided 99.99%, n=71, k=61");
}
