// C17 violation 3: for the two-sided level 1 - 2^-53 (the largest f64 below 1, accepted by
// Confidence::new_two_sided) the proportion intervals have NaN bounds (Wilson / ci) or infinite bounds (Wald).
//
// Statement: "all bounds stay within [0,1]" (and every other clause: NaN bounds are neither monotone, mirrored,
// narrower nor wider), quantified over all confidence levels.
// Expected: an interval within [0,1] (or an error).  Actual: Ok(TwoSided(NaN, NaN)) and Ok(TwoSided(-inf, inf)).
// Root cause: src/confidence.rs:271 `1. - (1. - confidence) / 2.` rounds to exactly 1.0, so
// src/stats.rs:18 `inverse_cdf(1.0)` is +inf; src/proportion.rs:549-550 then computes inf/inf = NaN
// (Wald: src/proportion.rs:662 span = inf), and Interval::new (src/interval.rs:207, `low > high` is false for NaN)
// accepts the bounds.
use stats_ci::*;

#[test]
fn wilson_nan_bounds_at_largest_two_sided_level() {
    let level = 1.0 - f64::EPSILON / 2.0;
    assert!(level > 0.0 && level < 1.0);
    let c = Confidence::new_two_sided(level);
    for r in [
        proportion::ci(c, 100, 50),
        proportion::ci_wilson(c, 100, 50),
        proportion::Stats::new(100, 50).ci(c),
    ] {
        if let Ok(i) = r {
            assert!(
                i.low_f() >= 0. && i.high_f() <= 1.,
                "Wilson interval at level {level:?}: {i:?} is not within [0,1]"
            );
        }
    }
}

#[test]
fn wald_infinite_bounds_at_largest_two_sided_level() {
    let c = Confidence::new_two_sided(1.0 - f64::EPSILON / 2.0);
    if let Ok(i) = proportion::ci_z_normal(c, 100, 50) {
        assert!(i.low_f() >= 0. && i.high_f() <= 1., "Wald interval: {i:?} is not within [0,1]");
    }
}
