// C08 -- merging partial KahanSum registers: the error constant is NOT independent of the
// number of terms.  It grows like ~0.17*log2(n) (worst case over constant sequences) because
// every `KahanSum += KahanSum` rounds away the accumulated compensation of the larger register
// (src/utils.rs:88, `y = other.sum - acc.compensation` inside kahan_add, with |other.sum| of the
// order of |acc.sum|).  Inside the stated domain (f32, constant sequence, n <= 10^7, balanced
// merge tree) the error reaches 6.09 * u * sum|x|, whereas adding the very same values one at
// a time stays below 1 * u * sum|x| (and the classical Kahan bound is 2u).
//
// Expected behaviour (the statement of C08): |value - exact| <= K * u * sum|x| with a small K
// that does not depend on n nor on how the sequence was split into registers and merged.
// This test takes K = 4 (twice the classical constant 2 of compensated summation; the one-at-a-time
// path of the library stays below 2 on every input tried) at n = 5 589 679.  A reader who accepts
// K >= 7 for n <= 10^7 will not regard this as a violation of the bound itself, only of the claim
// that the constant is independent of n (measured: 1.6 at n~2^4, 2.4 at 2^7, 3.1 at 2^10, 4.0 at
// 2^16, 4.9 at 2^19, 6.1 at 2^22.4 in f32; 7.7 at 2^37 in f64).
//
// Only the public API is used.  The reference is exact: n*x with n < 2^23 and a 24-bit x is an
// integer multiple of ulp(x) below 2^53 ulps, hence exactly representable in f64, and so is its
// difference with any f32 in that range.
use stats_ci::mean::Arithmetic;
use stats_ci::utils::KahanSum;
use stats_ci::StatisticsOps;

/// the README's `reduce(|| Arithmetic::new(), |s1, s2| s1 + s2)` shape, sequentially
fn arith_tree(d: &[f32], leaf: usize) -> Arithmetic<f32> {
    if d.len() <= leaf {
        let mut a = Arithmetic::new();
        a.extend(&d.to_vec()).unwrap();
        return a;
    }
    let (l, r) = d.split_at(d.len() / 2);
    arith_tree(l, leaf) + arith_tree(r, leaf)
}

fn stream(d: &[f32]) -> KahanSum<f32> {
    let mut k = KahanSum::default();
    for &x in d {
        k += x;
    }
    k
}

/// balanced merge tree: split in the middle, leaves of at most `leaf` values added one at a time
fn tree(d: &[f32], leaf: usize) -> KahanSum<f32> {
    if d.len() <= leaf {
        return stream(d);
    }
    let (l, r) = d.split_at(d.len() / 2);
    tree(l, leaf) + tree(r, leaf)
}

/// |computed - exact| / (u * sum|x|) for the constant sequence of n copies of x
fn ratio(x: f32, n: usize, v: f32) -> f64 {
    let exact = n as f64 * x as f64; // exact, see above
    let u = 2f64.powi(-24);
    (v as f64 - exact).abs() / (u * exact)
}

#[test]
fn merged_registers_error_constant_grows_with_n() {
    // (x, n, leaf size); all in f32, n <= 10^7, constant sequences
    let small = (1.5206044_f32, 181_usize, 1_usize);
    let large = (1.5417068_f32, 5_589_679_usize, 2_usize);

    let d_small = vec![small.0; small.1];
    let d_large = vec![large.0; large.1];

    let r_stream_small = ratio(small.0, small.1, stream(&d_small).value());
    let r_tree_small = ratio(small.0, small.1, tree(&d_small, small.2).value());
    let r_stream_large = ratio(large.0, large.1, stream(&d_large).value());
    let tree_large = tree(&d_large, large.2);
    let r_tree_large = ratio(large.0, large.1, tree_large.value());
    println!("n={:>8}: one-at-a-time {:.3} u*sum|x|, balanced merge tree {:.3} u*sum|x|", small.1, r_stream_small, r_tree_small);
    println!("n={:>8}: one-at-a-time {:.3} u*sum|x|, balanced merge tree {:.3} u*sum|x|", large.1, r_stream_large, r_tree_large);
    println!("register after the merges: {:?}", tree_large);
    let a = arith_tree(&d_large, large.2);
    println!(
        "mean::Arithmetic merged with `+` over the same tree: sample_mean()*n is {:.3} u*sum|x| away (two more roundings)",
        ratio(large.0, large.1, a.sample_mean() * large.1 as f32)
    );

    // one at a time: within the classical bound, whatever n
    assert!(r_stream_small <= 2.0 && r_stream_large <= 2.0);
    // merged registers: the same bound up to a factor 2 ... fails: 6.09
    assert!(
        r_tree_large <= 4.0,
        "merging partial registers: error = {r_tree_large:.3} * u * sum|x| for n = {} (one at a time: {r_stream_large:.3})",
        large.1
    );
}
