// C18 violation 2 (requires `--features serde`): with the advertised `serde` feature,
// `Confidence` derives `Deserialize` with no validation, so deserialising yields a
// Confidence whose level is outside (0, 1) (or NaN / infinite), bypassing the range
// check of the constructors and of TryFrom.
//
// Expected behaviour (statement C18): "A Confidence can only be constructed for a level
// strictly between 0 and 1 ... including NaN and infinities": deserialisation of an
// out-of-range level must fail.
//
// Run: cargo test --offline --features serde --test violation_2
#![cfg(feature = "serde")]
use serde::Deserialize;
use stats_ci::Confidence;

#[derive(Debug, Deserialize)]
struct Holder {
    c: Confidence,
}

#[test]
fn deserialize_rejects_out_of_range_levels() {
    let mut escaped = vec![];
    for kind in ["TwoSided", "UpperOneSided", "LowerOneSided"] {
        for lvl in ["0.0", "1.0", "-0.5", "1.5", "95.0", "nan", "inf", "-inf"] {
            let doc = format!("c = {{ {kind} = {lvl} }}");
            if let Ok(h) = toml::from_str::<Holder>(&doc) {
                let l = h.c.level();
                if !(l > 0.0 && l < 1.0) {
                    escaped.push((doc, h.c));
                }
            }
        }
    }
    assert!(
        escaped.is_empty(),
        "deserialisation produced Confidence values outside (0, 1): {escaped:?}"
    );
}

#[test]
fn valid_levels_still_round_trip() {
    // sanity: the positive path works, so the failure above is not a TOML syntax issue
    let h: Holder = toml::from_str("c = { UpperOneSided = 0.9 }").unwrap();
    assert_eq!(h.c, Confidence::new_upper(0.9));
}
