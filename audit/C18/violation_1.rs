// C18 violation 1: the variants of `Confidence` are public tuple variants, so a
// Confidence can be constructed for ANY f64 level with the public API alone,
// bypassing the range check of new / new_two_sided / new_upper / new_lower / try_from.
//
// Expected behaviour (statement C18): "A Confidence can only be constructed for a
// level strictly between 0 and 1", for all f64 levels (0, 1, NaN, +-inf, negatives)
// and all three kinds; and on the values that exist, "two confidences are ordered
// exactly when they are of the same kind" and equality is reflexive equality of
// kind and level.
//
// Each test below fails on the current code.
use stats_ci::Confidence;
use std::cmp::Ordering;

const BAD: [f64; 8] = [
    0.0,
    1.0,
    -0.5,
    1.5,
    95.0,
    f64::NAN,
    f64::INFINITY,
    f64::NEG_INFINITY,
];

/// Every Confidence value obtainable through the public API must carry a level in (0, 1).
#[test]
fn no_confidence_outside_unit_interval() {
    let mut escaped = vec![];
    for x in BAD {
        for c in [
            Confidence::TwoSided(x),
            Confidence::UpperOneSided(x),
            Confidence::LowerOneSided(x),
        ] {
            let l = c.level();
            if !(l > 0.0 && l < 1.0) {
                escaped.push(c);
            }
        }
    }
    assert!(
        escaped.is_empty(),
        "Confidence values with a level outside (0, 1) were constructed: {escaped:?}"
    );
}

/// Same-kind confidences must be ordered, and a confidence must equal itself.
#[test]
fn same_kind_is_ordered_and_equality_reflexive() {
    let c = Confidence::TwoSided(f64::NAN);
    let d = Confidence::new_two_sided(0.95);
    assert!(c.is_two_sided() && d.is_two_sided());
    // same kind => ordered
    assert!(
        c.partial_cmp(&d).is_some(),
        "two two-sided confidences are unordered: {c:?} vs {d:?}"
    );
    // equality = equality of kind and level (same kind, bit-identical level)
    assert_eq!(c.partial_cmp(&c), Some(Ordering::Equal));
    assert!(c == c, "{c:?} is not equal to itself");
}

/// The bogus level flows into the accessors: percent() of a "confidence" is 9500%.
#[test]
fn percent_is_a_percentage() {
    let c = Confidence::UpperOneSided(95.0);
    assert!(
        c.percent() > 0.0 && c.percent() < 100.0,
        "percent() = {} for {c:?}",
        c.percent()
    );
}
