// C05, violation 1 (overflow in the transformed space turns a reported sample mean into NaN).
//
// Expected behaviour (property C05): for strictly positive data (n >= 2, f32/f64, wide dynamic
// range or near-constant) the reported sample means are H = 1/(mean of reciprocals),
// G = exp(mean of logs), and they satisfy  H <= G <= A.
//
// Actual: once the running sum of the transformed values overflows to +inf, the Kahan kernel
// (src/utils.rs:133-140) computes `(t - sum) - y` / `x - c` with infinite operands, the register
// becomes NaN, and `sample_mean()` returns NaN.  Every comparison with NaN is false, so the chain
// H <= G <= A is violated -- by NaN, not by a rounding error -- although the true harmonic mean
// of the data is an ordinary normal float.  (Plain summation would give mean = +inf, H = 0 and
// A = +inf, for which the chain still holds.)
use stats_ci::*;

#[test]
fn harmonic_mean_of_normal_positive_f32_data_is_nan() {
    // nine distinct, strictly positive, *normal* (not subnormal) f32 values
    let data: Vec<f32> = vec![
        1.2e-38, 1.3e-38, 1.4e-38, 1.5e-38, 1.6e-38, 1.7e-38, 1.8e-38, 1.9e-38, 2e-38,
    ];
    assert!(data.iter().all(|x| *x > 0.0 && x.is_normal()));

    // reference in f64: the harmonic mean is about 1.55e-38, a normal f32
    let h_ref = data.len() as f64 / data.iter().map(|x| 1.0 / *x as f64).sum::<f64>();
    assert!((h_ref as f32).is_normal());

    let h = mean::Harmonic::<f32>::from_iter(&data).unwrap().sample_mean();
    let g = mean::Geometric::<f32>::from_iter(&data).unwrap().sample_mean();
    let a = mean::Arithmetic::<f32>::from_iter(&data).unwrap().sample_mean();
    println!("H = {h:?} (reference {h_ref:e}), G = {g:?}, A = {a:?}");

    // 0.1% of slack: far beyond any rounding error, so only a real failure trips these
    assert!(g <= a * 1.001, "G <= A violated: G = {g:?}, A = {a:?}");
    assert!(!h.is_nan(), "Harmonic::sample_mean() is NaN for strictly positive data");
    assert!(h <= g * 1.001, "H <= G violated: H = {h:?}, G = {g:?}");
}

#[test]
fn harmonic_mean_of_constant_normal_f64_data_is_nan() {
    let data = vec![3e-308_f64; 7];
    assert!(data.iter().all(|x| *x > 0.0 && x.is_normal()));
    let h = mean::Harmonic::<f64>::from_iter(&data).unwrap().sample_mean();
    let g = mean::Geometric::<f64>::from_iter(&data).unwrap().sample_mean();
    println!("H = {h:?}, G = {g:?}");
    assert!(h <= g * 1.001, "H <= G violated: H = {h:?}, G = {g:?} (true H = 3e-308)");
}

#[test]
fn geometric_not_below_arithmetic_when_arithmetic_is_nan() {
    // the same mechanism on the arithmetic side of the chain
    let data = vec![1e308_f64; 3];
    let g = mean::Geometric::<f64>::from_iter(&data).unwrap().sample_mean();
    let a = mean::Arithmetic::<f64>::from_iter(&data).unwrap().sample_mean();
    println!("G = {g:?}, A = {a:?}");
    assert!(g <= a * 1.001 || a == f64::INFINITY, "G <= A violated: G = {g:?}, A = {a:?}");
}
