// C05, violation 2 (LITERAL reading only: rounding-level failures of H <= G <= A).
//
// Expected behaviour (property C05 as written, no rounding allowance in the clause): the
// reported sample means satisfy  harmonic <= geometric <= arithmetic  for all strictly positive
// samples, near-constant samples explicitly included.
//
// Actual: for constant / near-constant data the three means coincide mathematically, and the
// floating-point evaluation of exp(mean(ln x)) and 1/mean(1/x) lands on either side of the
// arithmetic mean.  The excess is bounded by about |ln x| * epsilon (1 ulp for the data below,
// up to ~1.7e-13 relative in f64 near 1e+-300 and ~1e-5 in f32 near 1e+-37), i.e. it is
// commensurate with the conditioning of exp/ln.  This is a violation of the sentence as written;
// it disappears if the clause is read "up to rounding error".
use stats_ci::*;

#[test]
fn geometric_exceeds_arithmetic_on_constant_f64_data() {
    let data = [3.0_f64, 3.0];
    let g = mean::Geometric::<f64>::from_iter(&data).unwrap().sample_mean();
    let a = mean::Arithmetic::<f64>::from_iter(&data).unwrap().sample_mean();
    println!("G = {g:?}, A = {a:?}");
    assert!(g <= a, "G <= A violated: G = {g:?} > A = {a:?}"); // G = 3.0000000000000004
}

#[test]
fn harmonic_exceeds_geometric_on_constant_f64_data() {
    let data = [44.0_f64, 44.0];
    let h = mean::Harmonic::<f64>::from_iter(&data).unwrap().sample_mean();
    let g = mean::Geometric::<f64>::from_iter(&data).unwrap().sample_mean();
    println!("H = {h:?}, G = {g:?}");
    assert!(h <= g, "H <= G violated: H = {h:?} > G = {g:?}"); // G = 43.99999999999999
}

#[test]
fn harmonic_exceeds_geometric_on_constant_f32_data() {
    let data = [27.7_f32, 27.7, 27.7];
    let h = mean::Harmonic::<f32>::from_iter(&data).unwrap().sample_mean();
    let g = mean::Geometric::<f32>::from_iter(&data).unwrap().sample_mean();
    println!("H = {h:?}, G = {g:?}");
    assert!(h <= g, "H <= G violated: H = {h:?} > G = {g:?}"); // H = 27.700003, G = 27.699999
}
