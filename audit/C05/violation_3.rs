// C05, violation 3 (range limitation: intermediate overflow in Harmonic::sample_sem).
//
// Expected behaviour (property C05): the reported standard error of the harmonic mean is the
// documented transform  H^2 * se(1/x)  of the arithmetic standard error in reciprocal space.
//
// Actual: src/mean.rs:545 evaluates `harm_mean * harm_mean * recip_std_dev / sqrt(n-1)` left to
// right, so H*H is formed first.  For H > sqrt(F::MAX) (1.8e19 in f32, 1.3e154 in f64) it
// overflows to +inf and the reported standard error is +inf, although H, se(1/x) and the product
// H^2*se(1/x) are all ordinary finite numbers (H * (H * se) evaluates it without overflow) and
// Harmonic::ci_mean on the very same state still works.
use stats_ci::*;

#[test]
fn harmonic_sem_is_infinite_for_moderately_large_f32_data() {
    let data = [2e19_f32, 3e19, 5e19];
    let h = mean::Harmonic::<f32>::from_iter(&data).unwrap();
    // the arithmetic state over the reciprocals, built through the public API
    let recips: Vec<f32> = data.iter().map(|x| 1.0 / x).collect();
    let r = mean::Arithmetic::<f32>::from_iter(&recips).unwrap();
    let hm = h.sample_mean();
    assert_eq!(hm, 1.0 / r.sample_mean());
    let expected = hm * (hm * r.sample_sem()); // H^2 * se(1/x) ~ 8e18, finite
    println!("H = {hm:?}, se(1/x) = {:?}, H^2*se = {expected:?}, reported = {:?}", r.sample_sem(), h.sample_sem());
    assert!(expected.is_finite());
    assert!(
        (h.sample_sem() - expected).abs() <= 1e-5 * expected,
        "sample_sem = {:?}, documented transform H^2*se(1/x) = {expected:?}",
        h.sample_sem()
    );
}

#[test]
fn harmonic_sem_is_infinite_for_large_f64_data() {
    let data = [2e155_f64, 3e155, 5e155];
    let h = mean::Harmonic::<f64>::from_iter(&data).unwrap();
    let recips: Vec<f64> = data.iter().map(|x| 1.0 / x).collect();
    let r = mean::Arithmetic::<f64>::from_iter(&recips).unwrap();
    let hm = h.sample_mean();
    let expected = hm * (hm * r.sample_sem()); // ~ 2.8e155
    println!("H = {hm:?}, H^2*se = {expected:?}, reported = {:?}", h.sample_sem());
    assert!(expected.is_finite());
    assert!((h.sample_sem() - expected).abs() <= 1e-9 * expected, "sample_sem = {:?}", h.sample_sem());
}
