// C03 violation 2 (of the statement as written; the library behaviour is statistically defensible):
// one-sided confidence levels below 1/2 put the single bound on the far side of the sample quantile.
//
// For a one-sided level c < 1/2 the normal quantile z = Phi^-1(c) is negative, so the Wilson "lower"
// bound mean - span lies ABOVE the proportion round(q*n)/n (and the "upper" bound mean + span below
// it).  The rank of the bound is then more than one position away from round(q*n): the clause
// "the ranks ... bracket the rank round(q*n) of the sample quantile to within one position" fails
// for kinds UpperOneSided / LowerOneSided with level < 1/2 (levels in (0,1) are all accepted by
// Confidence::new_upper / new_lower; the quantifier says "all levels/kinds").
//
// Expected by C03: lo <= k (+1 at most) for the lower bound, hi >= k - 1 for the upper bound, k = round(q*n).
// Actual: n = 100, q = 0.5 (k = 50): UpperOneSided(0.1) gives rank 56, LowerOneSided(0.1) gives rank 43.
use stats_ci::*;

#[test]
fn upper_one_sided_below_half_brackets_the_sample_quantile() {
    let data: Vec<u32> = (0..100).collect(); // element == rank
    let k = 50;
    let iv = quantile::ci(Confidence::new_upper(0.1), &data, 0.5).unwrap();
    let lo = *iv.left().unwrap() as usize;
    assert!(iv.right().is_none());
    assert!(lo <= k + 1, "lower-bound rank {lo} is above the sample-quantile rank {k} by more than one");
}

#[test]
fn lower_one_sided_below_half_brackets_the_sample_quantile() {
    let data: Vec<u32> = (0..100).collect();
    let k = 50;
    let iv = quantile::ci(Confidence::new_lower(0.1), &data, 0.5).unwrap();
    let hi = *iv.right().unwrap() as usize;
    assert!(iv.left().is_none());
    assert!(hi + 1 >= k, "upper-bound rank {hi} is below the sample-quantile rank {k} by more than one");
}
