// C03 violation 1: the largest valid two-sided confidence level makes the quantile CI collapse
// onto the minimum of the sample.
//
// `Confidence::new_two_sided(0.9999999999999999)` (= 1 - 2^-53, the largest f64 below 1) is accepted
// by the constructor.  Its normal quantile 1 - (1 - c)/2 rounds to exactly 1.0, so z = +inf, the
// Wilson bounds are NaN, both NaN range checks in quantile::Stats::ci pass, and
// `(NaN * n).floor() as usize` = 0 for both ranks.
//
// Expected (C03): for ANY confidence the interval is made of the order statistics at the Wilson
// ranks, and those ranks bracket the rank round(q*n) of the sample quantile to within one position
// (lo <= k and hi >= k - 1).  For the median of 1..=20 (k = 10, element 11) every other level obeys
// this (e.g. level 0.9999999999999998 gives ranks [1, 18], i.e. the interval [2, 19]).
// Actual: ranks [0, 0], i.e. the interval [1, 1].
use stats_ci::*;

#[test]
fn top_two_sided_level_brackets_the_sample_median() {
    let data: Vec<i32> = (1..=20).collect();
    let n = data.len();
    let q = 0.5;
    let k = (q * n as f64).round() as usize; // 10

    // sanity: the neighbouring level behaves
    let near = Confidence::new_two_sided(0.9999999999999998);
    let iv = quantile::ci_indices(near, n, q).unwrap();
    assert_eq!(iv, Interval::new(1, 18).unwrap());

    let top = Confidence::new_two_sided(0.9999999999999999);
    let idx = quantile::ci_indices(top, n, q).unwrap();
    let (lo, hi): (usize, usize) = idx.into();
    assert!(
        lo <= k && hi + 1 >= k,
        "ranks [{lo}, {hi}] do not bracket the sample-quantile rank {k}"
    );
}

#[test]
fn top_two_sided_level_interval_contains_the_sample_median_element() {
    let data: Vec<i32> = (1..=20).collect();
    let top = Confidence::new_two_sided(0.9999999999999999);
    let iv = quantile::ci(top, &data, 0.5).unwrap();
    // a 99.99999999999999 % interval must at least be as wide as the 99.99999999999998 % one, [2, 19]
    assert!(
        iv.contains(&10) && iv.contains(&11),
        "interval {iv} does not contain the sample median"
    );
}
