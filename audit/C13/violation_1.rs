// C13 violation 1: a one-sided interval multiplied by the scalar 0 stays one-sided.
//
// Every member x of [3, +inf) (resp. (-inf, 3]) satisfies x * 0 == 0, so the true image of
// A * 0 is the single point {0}: bounded on BOTH sides.  The statement requires the result to be
// "unbounded on exactly the side the true image is unbounded", i.e. here on no side: the expected
// result is the degenerate two-sided interval [0, 0] (Interval::new(0, 0)).
// The library returns UpperOneSided(0) = [0, +inf) (resp. LowerOneSided(0) = (-inf, 0]), which is
// sound but claims an unbounded side that the image does not have (e.g. it contains 1 and 1000,
// which are x * 0 for no x).
//
// Root cause: src/interval.rs `impl Mul<F> for Interval<F>` (lines 662-673) only distinguishes
// rhs < 0 (reverse the direction) from rhs >= 0 (keep the kind chosen by `applied`,
// lines 549-565, which always maps UpperOneSided -> UpperOneSided and LowerOneSided ->
// LowerOneSided); the collapsing case rhs == 0 is not handled.
use stats_ci::Interval;

#[test]
fn upper_one_sided_times_zero_i64() {
    let a = Interval::new_upper(3_i64); // [3, +inf)
    let r = a * 0;
    assert!(r.contains(&0)); // soundness holds
    assert_eq!(
        r,
        Interval::new(0, 0).unwrap(),
        "[3,+inf) * 0 must be the point interval [0,0]; got {r:?}, which is unbounded above although x*0 == 0 for every member x"
    );
}

#[test]
fn lower_one_sided_times_zero_i64() {
    let a = Interval::new_lower(3_i64); // (-inf, 3]
    let r = a * 0;
    assert!(r.contains(&0));
    assert_eq!(
        r.low(),
        Some(0),
        "(-inf,3] * 0 must be bounded below by 0; got {r:?}"
    );
    assert_eq!(r.high(), Some(0));
}

#[test]
fn upper_one_sided_times_zero_f64() {
    let a = Interval::new_upper(2.5_f64); // [2.5, +inf), all finite members map to 0.0
    let r = a * 0.0;
    assert!(r.contains(&0.0));
    assert!(
        r.is_two_sided() && r.low() == Some(0.0) && r.high() == Some(0.0),
        "[2.5,+inf) * 0.0 must be [0,0]; got {r:?} which e.g. contains 1.0: {}",
        r.contains(&1.0)
    );
}
