// C01 violation 3: badly scaled (but finite, normal, well-conditioned) data. The sample variance is
// computed from the sum of SQUARES in the sample's own float type; the squares underflow to 0 long
// before the data does (f32: |x| < ~3.7e-23, f64: |x| < ~2.2e-162; precision is already lost for
// |x| < 1.1e-19 resp. 1.5e-154), so s = 0 and the "interval" silently collapses to the single point
// [xbar, xbar]. Symmetrically the squares overflow for |x| > ~1.8e19 (f32) / 1.3e154 (f64) and the
// call fails with InvalidInputData although every input and the exact interval are representable.
//
// Expected behaviour (C01): for any sample of n >= 2 finite values the interval is
// xbar -/+ c*s/sqrt(n) up to rounding commensurate with the float type and the conditioning
// (|mean| relative to spread - which is ~1 here). The interval is scale-equivariant, so the
// expected bounds are simply the scaled bounds of the crate's own doc example
// (1..10 -> [3.3341, 7.6659] at 95 %).
use stats_ci::*;

const LO: f64 = 3.334149410386607; // 5.5 - t_9(0.975) * 3.0276503540974917 / sqrt(10)
const HI: f64 = 7.665850589613393;

#[test]
fn f32_small_magnitudes_collapse_to_a_point() {
    let scale = 1e-24_f32; // e.g. masses in kg, energies in J
    let data: Vec<f32> = (1..=10).map(|i| i as f32 * scale).collect();
    assert!(data.iter().all(|x| x.is_normal()));
    let ci = mean::Arithmetic::<f32>::ci(Confidence::new_two_sided(0.95), &data).unwrap();
    let (lo, hi) = (ci.low_f() as f64 / scale as f64, ci.high_f() as f64 / scale as f64);
    // observed: lo == hi == 5.5 (zero width)
    assert!((lo - LO).abs() < 1e-3 && (hi - HI).abs() < 1e-3, "got [{lo}, {hi}] * 1e-24, expected [{LO}, {HI}] * 1e-24");
}

#[test]
fn f64_small_magnitudes_collapse_to_a_point() {
    let scale = 1e-170_f64;
    let data: Vec<f64> = (1..=10).map(|i| i as f64 * scale).collect();
    assert!(data.iter().all(|x| x.is_normal()));
    let mut stats = mean::Arithmetic::<f64>::new();
    stats.extend(&data).unwrap();
    let ci = stats.ci_mean(Confidence::new_upper(0.975)).unwrap();
    let lo = ci.low_f() / scale;
    assert!((lo - LO).abs() < 1e-6, "got low = {lo} * 1e-170, expected {LO} * 1e-170");
}

#[test]
fn f32_large_magnitudes_are_rejected() {
    let scale = 1e20_f32;
    let data: Vec<f32> = (1..=10).map(|i| i as f32 * scale).collect();
    let ci = mean::Arithmetic::<f32>::ci(Confidence::new_two_sided(0.95), &data);
    // observed: Err(InvalidInputData)
    let ci = ci.expect("finite f32 sample with a representable interval");
    let (lo, hi) = (ci.low_f() as f64 / scale as f64, ci.high_f() as f64 / scale as f64);
    assert!((lo - LO).abs() < 1e-3 && (hi - HI).abs() < 1e-3, "got [{lo}, {hi}] * 1e20");
}
