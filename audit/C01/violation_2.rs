// C01 violation 2 (lower severity, same root cause as violation 1): in the Student-t branch the critical
// value loses accuracy as n grows: relative error ~1e-9 at n ~ 1000, ~5e-7 at n ~ 10 000 and up to
// ~9e-5 for 50 000 < n <= 100 000 - ten or more orders of magnitude above f64 rounding, and (for
// levels around 50 %) worse than simply using the normal quantile. Data below is perfectly
// conditioned (mean exactly 0, all sums exact), so the whole error is in the critical value.
//
// Expected behaviour (C01): bounds = xbar -/+ c*s/sqrt(n) up to rounding error commensurate with f64.
// Reference values (60-digit arithmetic): t_{99999}(0.975) = 1.9599877077718448,
//                                          t_{99999}(0.75)  = 0.6744922035778261.
use stats_ci::*;

#[test]
fn t_critical_value_accuracy_n_100000() {
    let n = 100_000usize;
    let data: Vec<f64> = (0..n).map(|i| if i % 2 == 0 { 1.0 } else { -1.0 }).collect();
    // mean = 0, s^2 = n/(n-1), s/sqrt(n) = 1/sqrt(n-1)
    let se = 1.0 / (n as f64 - 1.0).sqrt();
    for (level, c) in [(0.95, 1.9599877077718448_f64), (0.5, 0.6744922035778261_f64)] {
        let ci = mean::Arithmetic::<f64>::ci(Confidence::new_two_sided(level), &data).unwrap();
        let expected = c * se;
        let rel = (ci.high_f() - expected).abs() / expected;
        // 1e-9 is ~ 4 million ulps of slack; observed: 3.4e-6 (95 %) and 2.1e-5 (50 %)
        assert!(rel < 1e-9, "level {level}: half-width {} expected {expected} (relative error {rel:e})", ci.high_f());
        let rel = (ci.low_f() + expected).abs() / expected;
        assert!(rel < 1e-9, "level {level}: low {} expected {} (relative error {rel:e})", ci.low_f(), -expected);
    }
}
