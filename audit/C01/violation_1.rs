// C01 violation 1: for some (sample size, confidence level) pairs with roughly 13 000 < n <= 100 000 the
// Student-t critical value used by the arithmetic-mean interval is grossly wrong (10x .. 50x too
// small), so the returned interval is NOT xbar -/+ c*s/sqrt(n) with c the t quantile of n-1 dof.
//
// Expected behaviour (property C01): the bounds are xbar -/+ c*s/sqrt(n), c = t_{n-1} quantile at
// (1+L)/2 (two-sided) or L (one-sided), up to floating-point rounding.
// Reference critical values computed with 60-digit arithmetic (regularized incomplete beta series +
// Newton), cross-checked with the Cornish-Fisher expansion around the normal quantile:
//   t_{49518}(0.875) = 1.150362873665528      (library uses 0.0219993...)
//   t_{87817}(0.75)  = 0.674492543912917      (library uses 0.0787278...)
//   t_{56108}(0.9625)= 1.780497424178574      (library uses 0.0458492...)
use stats_ci::*;

fn assert_close(got: f64, expected: f64, half_width: f64, what: &str) {
    // generous: 1% of the half-width (floating-point rounding would be ~1e-16 relative)
    assert!(
        (got - expected).abs() <= 0.01 * half_width.abs(),
        "{what}: got {got}, expected {expected} (half-width {half_width})"
    );
}

#[test]
fn two_sided_75_percent_n_49519_f64_one_shot() {
    // data 0, 1, ..., n-1 : mean = (n-1)/2, s^2 = n(n+1)/12, s/sqrt(n) = sqrt((n+1)/12); all sums exact in f64
    let n = 49_519usize;
    let data: Vec<f64> = (0..n).map(|i| i as f64).collect();
    let mean = (n as f64 - 1.0) / 2.0;
    let se = ((n as f64 + 1.0) / 12.0).sqrt();
    let c = 1.150362873665528; // t quantile, 49518 dof, p = 0.875
    let ci = mean::Arithmetic::<f64>::ci(Confidence::new_two_sided(0.75), &data).unwrap();
    assert_close(ci.low_f(), mean - c * se, c * se, "low");
    assert_close(ci.high_f(), mean + c * se, c * se, "high");
}

#[test]
fn two_sided_75_percent_n_49519_f32_incremental() {
    let n = 49_519usize;
    let mut stats = mean::Arithmetic::<f32>::new();
    for i in 0..n {
        StatisticsOps::append(&mut stats, i as f32).unwrap();
    }
    let mean = (n as f64 - 1.0) / 2.0;
    let se = ((n as f64 + 1.0) / 12.0).sqrt();
    let c = 1.150362873665528;
    let ci = stats.ci_mean(Confidence::new_two_sided(0.75)).unwrap();
    assert_close(ci.low_f() as f64, mean - c * se, c * se, "low");
    assert_close(ci.high_f() as f64, mean + c * se, c * se, "high");
}

#[test]
fn one_sided_75_percent_and_two_sided_50_percent_n_87818() {
    // alternating +1/-1, n even: mean = 0, s^2 = n/(n-1), s/sqrt(n) = 1/sqrt(n-1)
    let n = 87_818usize;
    let data: Vec<f64> = (0..n).map(|i| if i % 2 == 0 { 1.0 } else { -1.0 }).collect();
    let se = 1.0 / (n as f64 - 1.0).sqrt();
    let c = 0.674492543912917; // t quantile, 87817 dof, p = 0.75
    let stats = mean::Arithmetic::<f64>::from_iter(&data).unwrap();

    let upper = stats.ci_mean(Confidence::new_upper(0.75)).unwrap();
    assert_eq!(upper.high_f(), f64::INFINITY);
    assert_close(upper.low_f(), -c * se, c * se, "upper one-sided 75%: low");

    let lower = stats.ci_mean(Confidence::new_lower(0.75)).unwrap();
    assert_eq!(lower.low_f(), f64::NEG_INFINITY);
    assert_close(lower.high_f(), c * se, c * se, "lower one-sided 75%: high");

    let two = mean::Arithmetic::<f64>::ci(Confidence::new_two_sided(0.5), &data).unwrap();
    assert_close(two.low_f(), -c * se, c * se, "two-sided 50%: low");
    assert_close(two.high_f(), c * se, c * se, "two-sided 50%: high");
}

#[test]
fn two_sided_92_5_percent_n_56109() {
    // alternating +1/-1 plus one 0 (n odd): mean = 0, s^2 = (n-1)/(n-1) = 1, s/sqrt(n) = 1/sqrt(n)
    let n = 56_109usize;
    let mut data: Vec<f64> = (0..n - 1).map(|i| if i % 2 == 0 { 1.0 } else { -1.0 }).collect();
    data.push(0.0);
    let se = 1.0 / (n as f64).sqrt();
    let c = 1.780497424178574; // t quantile, 56108 dof, p = 0.9625
    let ci = <mean::Arithmetic<f64> as MeanCI<f64>>::ci(Confidence::new_two_sided(0.925), &data).unwrap();
    assert_close(ci.low_f(), -c * se, c * se, "low");
    assert_close(ci.high_f(), c * se, c * se, "high");
}
