// C09, clause "the empty state is a neutral element of merging".
//
// Expected behaviour: for every state s, `s + empty`, `empty + s` and `s += empty` are the same
// state as s: same sample count and the same answers to every query (and, for the library's own
// `PartialEq`, `s + empty == s`).  No observation is delivered by an empty state, so nothing
// observable may change.
//
// Actual behaviour: merging with an empty state runs a Kahan step with the addend 0
// (src/utils.rs:78-92), which re-splits the register into another (sum, compensation) pair that
// stands for the same real number `sum - compensation`.  `KahanSum::value()` however returns
// `sum + compensation` (src/utils.rs:55-57), so the two pairs read back as different numbers:
// the sample mean moves by 2 ulp of the sum register (3 ulp of the mean here) and the library's
// own `==` reports the merged state as different from the original.
use stats_ci::mean::Arithmetic;
use stats_ci::utils::KahanSum;
use stats_ci::*;

fn data() -> Vec<f64> {
    // 2^-54, 5 * 2^-53, 2  (all exactly representable)
    vec![2f64.powi(-54), 5.0 * 2f64.powi(-53), 2.0]
}

#[test]
fn empty_arithmetic_state_is_neutral_for_add() {
    let s = Arithmetic::<f64>::from_iter(&data()).unwrap();
    let e = Arithmetic::<f64>::new();
    assert_eq!(e.sample_count(), 0);

    let right = s + e;
    let left = e + s;
    let mut assigned = s;
    assigned += e;

    for (name, m) in [("s + e", right), ("e + s", left), ("s += e", assigned)] {
        assert_eq!(m.sample_count(), s.sample_count(), "{name}: count");
        assert_eq!(
            m.sample_mean().to_bits(),
            s.sample_mean().to_bits(),
            "{name}: sample_mean changed from {:e} to {:e} by merging with an empty state",
            s.sample_mean(),
            m.sample_mean()
        );
        assert_eq!(
            m.sample_variance().to_bits(),
            s.sample_variance().to_bits(),
            "{name}: sample_variance"
        );
        assert!(m == s, "{name}: the library's own PartialEq says the state changed");
    }
}

#[test]
fn empty_kahan_register_is_neutral_for_add() {
    let mut k = KahanSum::new(0.0_f64);
    for x in data() {
        k += x;
    }
    let e = KahanSum::<f64>::default();
    assert_eq!((k + e).value().to_bits(), k.value().to_bits(), "k + empty");
    assert_eq!((e + k).value().to_bits(), k.value().to_bits(), "empty + k");
    assert!(k + e == k);
}
