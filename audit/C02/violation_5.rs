// C02 violation 5 (of the STATEMENT AS WRITTEN; arguably a defect of the statement, not of the library).
//
// Statement: "an upper one-sided request returns [lower root, 1] while a lower one-sided request returns
// [0, upper root]", the roots being those of (p - k/n)^2 = z^2 p(1-p)/n with z the normal quantile at L.
// The lower root never exceeds k/n and the upper root is never below it.
// Observed: for one-sided levels L < 1/2 the quantile z is negative and the code uses the *signed* z
// (mean - span / mean + span, src/proportion.rs:549-555): the upper request returns [UPPER root, 1] and the
// lower request returns [0, LOWER root].  (This is the statistically consistent choice - it solves the signed
// score equation (k/n - p)/sqrt(p(1-p)/n) = z_L - but it is not what the statement says.)
use stats_ci::*;

#[test]
fn upper_one_sided_below_half_returns_lower_root() {
    let r = proportion::ci(Confidence::new_upper(0.3), 100, 40).unwrap();
    // roots of the score equation at z = -0.5244: 0.374617753..., 0.425930730...
    assert!(r.low_f() <= 0.4, "finite bound {} is the upper root", r.low_f());
    assert!((r.low_f() - 0.3746177533918903).abs() < 1e-12);
}

#[test]
fn lower_one_sided_below_half_returns_upper_root() {
    let r = proportion::ci(Confidence::new_lower(0.3), 100, 40).unwrap();
    assert!(r.high_f() >= 0.4, "finite bound {} is the lower root", r.high_f());
    assert!((r.high_f() - 0.42593073009647386).abs() < 1e-12);
}
