// C02 violation 3: the Wald rule n*q >= 10 is decided on rounded f64 counts for populations above 2^53.
//
// Expected (statement): ci_z_normal succeeds exactly when n*p >= 10 and n*q >= 10, i.e. (exact counts)
// successes >= 10 and population - successes >= 10; other counts give TooFewSuccesses / TooFewFailures.
// Observed: `n - x >= 10.` is evaluated after `population as f64` / `successes as f64` (src/proportion.rs:639-650),
// which round above 2^53.  With 10 failures the call is rejected ("Too few failures: 10"), with 8 failures it
// is accepted.  (ci_wilson decides its rule on the usize counts and is not affected.)
#![cfg(target_pointer_width = "64")]
use stats_ci::*;

#[test]
fn ten_failures_must_be_accepted() {
    let n: usize = (1usize << 53) + 1; // 9007199254740993 -> 9007199254740992.0 as f64
    let k: usize = n - 10;
    let r = proportion::ci_z_normal(Confidence::new(0.95), n, k);
    assert!(r.is_ok(), "10 failures rejected: {:?}", r);
}

#[test]
fn eight_failures_must_be_rejected() {
    let n: usize = (1usize << 54) + 6; // rounds up to 2^54 + 8 as f64
    let k: usize = n - 8;
    let r = proportion::ci_z_normal(Confidence::new(0.95), n, k);
    assert!(
        matches!(r, Err(error::CIError::TooFewFailures(..))),
        "8 failures accepted: {:?}",
        r
    );
}

#[test]
fn thousand_failures_must_be_accepted() {
    let n: usize = usize::MAX;
    let k: usize = n - 1000;
    let r = proportion::ci_z_normal(Confidence::new(0.95), n, k);
    assert!(r.is_ok(), "1000 failures rejected: {:?}", r);
}
