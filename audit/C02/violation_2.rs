// C02 violation 2: NaN bounds for a valid two-sided confidence level.
//
// Expected (statement): for every 2 <= k <= n-2 and every confidence, the bounds of the default proportion
// interval are the two roots of the score equation and lie in [0,1].
// Observed: for the largest f64 level below 1 (1 - 2^-53, accepted by Confidence::new), Confidence::quantile
// computes 1 - (1-L)/2, which rounds to exactly 1.0; z_value returns +inf and (n_s + inf)/(n + inf) = NaN, so
// ci / ci_wilson / Stats::ci / ci_true / ci_if / ci_wilson_ratio all return Ok(TwoSided(NaN, NaN)).
// (src/confidence.rs:271, src/stats.rs:18, src/proportion.rs:546-553; Interval::new accepts NaN bounds.)
// The exact z for this level is finite (about 8.29) and so are the two roots.
use stats_ci::*;

#[test]
fn two_sided_level_next_below_one() {
    let level = 1.0 - f64::EPSILON / 2.0; // 0.9999999999999999, the largest f64 < 1
    assert!(level > 0.0 && level < 1.0);
    let c = Confidence::new_two_sided(level);
    let r = proportion::ci(c, 100, 40).expect("counts are in the domain");
    let (lo, hi) = (r.low_f(), r.high_f());
    assert!(0.0 <= lo && lo <= hi && hi <= 1.0, "bounds not in [0,1]: {:?}", r);
    // same through the running Stats front-end
    let r = proportion::Stats::new(100, 40).ci(c).expect("counts are in the domain");
    assert!(r.low_f() >= 0.0 && r.high_f() <= 1.0, "bounds not in [0,1]: {:?}", r);
}
