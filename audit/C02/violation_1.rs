// C02 violation 1: the Wald variant rejects counts of its documented domain with an undocumented error.
//
// Expected (statement): ci_z_normal returns k/n -/+ z*sqrt((k/n)(1-k/n)/n) *exactly when* n*p >= 10 and
// n*q >= 10, for every confidence level/kind; the only documented errors are TooFewSuccesses,
// TooFewFailures, InvalidSuccesses (and InvalidConfidenceLevel).
// Observed: for a one-sided confidence below 1/2 whose (negative) z pushes the finite bound across the
// fixed one (k/n - z*sd > 1 for an upper request, k/n + z*sd < 0 for a lower request), the function returns
// Err(IntervalError(InvalidBounds)) although n*p >= 10 and n*q >= 10.  (src/proportion.rs:665-666)
use stats_ci::*;

#[test]
fn wald_upper_one_sided_low_level_in_domain_counts() {
    // n*p = 990 >= 10, n*q = 10 >= 10, level 0.0005 is a valid confidence level in (0,1)
    let r = proportion::ci_z_normal(Confidence::new_upper(5e-4), 1000, 990);
    assert!(r.is_ok(), "in-domain counts rejected: {:?}", r);
}

#[test]
fn wald_lower_one_sided_low_level_in_domain_counts() {
    let r = proportion::ci_z_normal(Confidence::new_lower(5e-4), 1000, 10);
    assert!(r.is_ok(), "in-domain counts rejected: {:?}", r);
}

#[test]
fn wald_upper_one_sided_balanced_counts() {
    // 10 successes and 10 failures
    let r = proportion::ci_z_normal(Confidence::new_upper(1e-6), 20, 10);
    assert!(r.is_ok(), "in-domain counts rejected: {:?}", r);
}
