// C02 violation 4: the Wilson upper bound leaves [0,1] (or the call fails) for populations around 2^50 and above.
//
// Expected (statement): for every n and 2 <= k <= n-2 and every confidence the bounds lie in [0,1]; an upper
// one-sided request returns [root, 1].
// Observed: `mean + span` is formed from separately rounded quotients whose numerators n_s + z^2/2 and
// denominators n + z^2 are rounded to the integer grid of f64 above 2^52 (src/proportion.rs:549-550), and no
// clamp is applied: the upper bound comes out as 1.0000000000000002.  For an upper one-sided request with level
// < 1/2 the same overshoot makes Interval::new(mean - span, 1.) fail with IntervalError(InvalidBounds) although
// the counts are in the domain.  Smallest population found: 1128530102270773 (~2^50) at level 1 - 1e-12.
#![cfg(target_pointer_width = "64")]
use stats_ci::*;

#[test]
fn upper_bound_within_unit_interval() {
    let n: usize = 1usize << 53;
    let r = proportion::ci(Confidence::new(0.999), n, n - 2).unwrap();
    assert!(r.high_f() <= 1.0, "upper bound {:?} > 1", r.high_f());
}

#[test]
fn upper_bound_within_unit_interval_99() {
    let n: usize = 9007199254764749;
    let r = proportion::ci(Confidence::new(0.99), n, n - 2).unwrap();
    assert!(r.high_f() <= 1.0, "upper bound {:?} > 1", r.high_f());
    let n: usize = 18014398509481986;
    let r = proportion::ci(Confidence::new_lower(0.99), n, n - 3).unwrap();
    assert!(r.high_f() <= 1.0, "upper bound {:?} > 1", r.high_f());
}

#[test]
fn upper_one_sided_in_domain_counts_accepted() {
    let n: usize = 18014398509481986;
    let r = proportion::ci(Confidence::new_upper(0.01), n, n - 3);
    assert!(r.is_ok(), "in-domain counts rejected: {:?}", r);
}
