//! C04 violation 2: one constant sample (explicitly inside the quantifier of C04: "one constant
//! sample") is rejected with Err(InvalidInputData) whenever the textbook variance
//! `(sum_sq - mean * sum) / (n - 1)` of the constant sample (src/mean.rs:337-340) rounds to a tiny
//! NEGATIVE number: `sample_std_dev` (src/mean.rs:347-349) is then sqrt(negative) = NaN, the standard
//! error is NaN and `Unpaired::ci_mean` bails out at src/comparison.rs:827-829.
//! It happens for about 1/4 of random (value, n) choices, e.g. 0.1 x 3, 0.1 x 6, 1.1 x 7, 0.001 x 5.
//!
//! Expected (statement C04 with s_a = 0): dof = n_b - 1 and
//!   (mean_a - mean_b) -/+ t_{n_b - 1} * s_b / sqrt(n_b).
//! Here: mean_a - mean_b = 0.1 - 3.5 = -3.4, s_b^2 = 7, n_b = 4, dof = 3.
use stats_ci::comparison::Unpaired;
use stats_ci::{Confidence, Interval};

fn close(got: f64, want: f64) -> bool {
    (got - want).abs() <= 1e-9 * want.abs().max(1.0)
}

#[test]
fn constant_sample_two_sided() {
    let a = [0.1_f64, 0.1, 0.1];
    let b = [1.0_f64, 2.0, 4.0, 7.0];
    let conf = Confidence::new_two_sided(0.95);
    // t_{0.975, 3} = 3.182446305284263, se = sqrt(7/4)
    match Unpaired::<f64>::ci(conf, &a, &b) {
        Ok(Interval::TwoSided(lo, hi)) => {
            assert!(close(lo, -7.609980742298518) && close(hi, 0.8099807422985177), "got ({lo}, {hi})");
        }
        other => panic!("expected TwoSided(-7.609980742298518, 0.8099807422985177); got {other:?}"),
    }
}

#[test]
fn constant_sample_exchanged_and_one_sided() {
    let a = [0.1_f64, 0.1, 0.1];
    let b = [1.0_f64, 2.0, 4.0, 7.0];
    // exchanged samples: mirrored interval
    match Unpaired::<f64>::ci(Confidence::new_two_sided(0.95), &b, &a) {
        Ok(Interval::TwoSided(lo, hi)) => {
            assert!(close(lo, -0.8099807422985177) && close(hi, 7.609980742298518), "got ({lo}, {hi})");
        }
        other => panic!("expected TwoSided(-0.8099807422985177, 7.609980742298518); got {other:?}"),
    }
    // t_{0.95, 3} = 2.353363434801825
    match Unpaired::<f64>::ci(Confidence::new_upper(0.95), &a, &b) {
        Ok(Interval::UpperOneSided(lo)) => assert!(close(lo, -6.513207196519195), "got {lo}"),
        other => panic!("expected UpperOneSided(-6.513207196519195); got {other:?}"),
    }
    match Unpaired::<f64>::ci(Confidence::new_lower(0.95), &a, &b) {
        Ok(Interval::LowerOneSided(hi)) => assert!(close(hi, -0.28679280348080427), "got {hi}"),
        other => panic!("expected LowerOneSided(-0.28679280348080427); got {other:?}"),
    }
}

#[test]
fn constant_sample_other_values() {
    let b = [1.0_f64, 2.0, 4.0, 7.0];
    let conf = Confidence::new_two_sided(0.95);
    for (v, n) in [(0.1_f64, 6_usize), (1.1, 7), (0.001, 5), (0.001, 9)] {
        let a = vec![v; n];
        // a constant sample does not contribute: the half width is t_{0.975,3} * sqrt(7/4)
        match Unpaired::<f64>::ci(conf, &a, &b) {
            Ok(Interval::TwoSided(lo, hi)) => {
                assert!(close(lo, v - 3.5 - 4.209980742298518) && close(hi, v - 3.5 + 4.209980742298518));
            }
            other => panic!("constant sample {v} x {n}: expected an interval, got {other:?}"),
        }
    }
}
