//! C04 violation 3 (secondary; numerical accuracy of the quantile the crate obtains from
//! statrs 0.18 in src/stats.rs:33-36, shared with `mean::Arithmetic::ci_mean`):
//! for effective degrees of freedom close to 1 (one sample of size 2 dominating the variance)
//! and confidence levels beyond about 1 - 1e-7, the factor `c` is NOT the Student-t quantile:
//! it saturates around 9.2e7 whatever the level.
//!
//! Set-up with exact arithmetic: a = [-1, 1] (mean 0, s_a^2 = 2, s_a^2/n_a = 1), b = five zeros
//! (s_b = 0 exactly).  Then the standard error is exactly 1, the documented effective dof is exactly
//! 1*1 / (1*1/3) - 2 = 1, and the Student-t distribution with 1 dof is the Cauchy distribution, whose
//! quantile is known in closed form: c(p) = tan(pi (p - 1/2)) = 1 / tan(pi (1 - p)).
//! Expected lower bound of the upper one-sided interval: -c(p).
use stats_ci::comparison::Unpaired;
use stats_ci::{Confidence, Interval};

#[test]
fn cauchy_quantile_at_extreme_levels() {
    let a = [-1.0_f64, 1.0];
    let b = [0.0_f64; 5];
    for q in [1e-6_f64, 1e-8, 1e-9, 1e-10, 1e-12] {
        let p = 1.0 - q;
        let q_exact = 1.0 - p; // exact (Sterbenz)
        let c = 1.0 / (std::f64::consts::PI * q_exact).tan();
        match Unpaired::<f64>::ci(Confidence::new_upper(p), &a, &b) {
            Ok(Interval::UpperOneSided(lo)) => {
                let rel = ((-lo) - c).abs() / c;
                // q = 1e-6: rel error 1e-14 (passes); 1e-8: 9 %; 1e-9: 79 %; 1e-12: 99.97 %
                assert!(rel < 1e-6, "level 1-{q:e}: library c = {:e}, Student-t (Cauchy) quantile = {c:e}", -lo);
            }
            other => panic!("unexpected {other:?}"),
        }
    }
}
