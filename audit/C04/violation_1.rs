//! C04 violation 1: `Unpaired::ci_mean` evaluates the effective degrees of freedom in the sample
//! type `T` through the squares `(s_a^2/n_a + s_b^2/n_b)^2`, `(s_a^2/n_a)^2`, `(s_b^2/n_b)^2`
//! (src/comparison.rs:819-822).  These leave the range of `T` although the samples, their means,
//! their standard deviations, the standard error and the interval of the statement are all
//! comfortably representable (f32: standard deviations >= ~5e9 or <= ~3e-10; f64: >= ~1e77 or
//! <= ~1e-78).  Depending on which of the squares overflow / underflow, the library
//!   (a) silently returns an interval built with the NORMAL quantile (dof = +inf passes the
//!       `effective_dof > 0` guard at src/comparison.rs:827 and src/stats.rs:46 switches to z), or
//!       with a garbage dof (subnormal squares), or
//!   (b) returns Err(InvalidInputData) (dof = NaN).
//!
//! Expected behaviour (statement C04): (mean_a - mean_b) -/+ c * sqrt(sa^2/na + sb^2/nb) with c the
//! Student-t quantile at dof = (sa^2/na + sb^2/nb)^2 / ((sa^2/na)^2/(na+1) + (sb^2/nb)^2/(nb+1)) - 2,
//! "for all pairs of finite samples ... x f32/f64".  The formula is homogeneous: scaling both samples
//! by k scales the interval by k and leaves the dof unchanged.
//!
//! Reference values below were computed independently (two-pass mean/variance in f64, own
//! incomplete-beta based Student-t quantile, checked against closed forms for nu = 1, 2, 4).
use stats_ci::comparison::Unpaired;
use stats_ci::mean::Arithmetic;
use stats_ci::{Confidence, Interval};

fn assert_close(got: f64, want: f64, rel: f64, what: &str) {
    assert!(
        (got - want).abs() <= rel * want.abs(),
        "{what}: library returned {got:e}, statement requires {want:e}"
    );
}

/// f32, durations in nanoseconds (12 s .. 33 s): library silently uses the normal quantile
/// (1.96) instead of t at dof = 5.165 (2.546): interval is 23 % too narrow.
#[test]
fn f32_overflow_silently_uses_normal_quantile() {
    let conf = Confidence::new_two_sided(0.95);
    let a = [1.2e10_f32, 1.9e10, 2.4e10, 1.7e10];
    let b = [2.0e10_f32, 2.6e10, 3.3e10];
    // the per-sample intervals are fine, so the states do represent the samples
    assert!(Arithmetic::<f32>::ci(conf, &a).is_ok());
    assert!(Arithmetic::<f32>::ci(conf, &b).is_ok());
    let ci = Unpaired::<f32>::ci(conf, &a, &b).expect("interval expected");
    // reference: (-19798373657.9, 3131708015.2), dof = 5.16525421
    assert_close(ci.low_f() as f64, -19798373657.896675, 1e-4, "low");
    assert_close(ci.high_f() as f64, 3131708015.230011, 1e-4, "high");
}

/// Same, seen as a failure of scale invariance: the data of the unit case times 5e9.
#[test]
fn f32_overflow_breaks_scale_invariance() {
    let conf = Confidence::new_two_sided(0.95);
    let unit = Unpaired::<f32>::ci(conf, &[0.0_f32, 1.0, 2.0], &[0.0_f32, 1.5, 2.5]).unwrap();
    // unit case is right: reference (-2.6425866115862435, 1.9759199449195772), dof = 5.6118811881
    assert_close(unit.low_f() as f64, -2.6425866115862435, 1e-6, "unit low");
    assert_close(unit.high_f() as f64, 1.9759199449195772, 1e-6, "unit high");
    let k = 5e9_f32;
    let big = Unpaired::<f32>::ci(conf, &[0.0_f32, k, 2.0 * k], &[0.0_f32, 1.5 * k, 2.5 * k]).unwrap();
    assert_close(big.low_f() as f64, -13212932916.434696, 1e-4, "scaled low");
    assert_close(big.high_f() as f64, 9879599583.10136, 1e-4, "scaled high");
}

/// f32, tiny scale (1e-11): squares are subnormal / zero, dof is garbage, interval 19 % too narrow.
#[test]
fn f32_underflow_silently_wrong() {
    let conf = Confidence::new_two_sided(0.95);
    let k = 1e-11_f32;
    let ci = Unpaired::<f32>::ci(conf, &[0.0_f32, k, 2.0 * k], &[0.0_f32, 1.5 * k, 2.5 * k]).unwrap();
    assert_close(ci.low_f() as f64, -2.6425866249974308e-11, 1e-4, "low");
    assert_close(ci.high_f() as f64, 1.9759199609946325e-11, 1e-4, "high");
}

/// f64 at scale 1e-80: dof computed from subnormal squares, bounds off by 3e-4 relative
/// (all inputs and outputs are normal f64 numbers).
#[test]
fn f64_underflow_silently_wrong() {
    let conf = Confidence::new_two_sided(0.95);
    let k = 1e-80_f64;
    let ci = Unpaired::<f64>::ci(conf, &[0.0, k, 2.0 * k], &[0.0, 1.5 * k, 2.5 * k]).unwrap();
    assert_close(ci.low_f(), -2.6425866115862416e-80, 1e-9, "low");
    assert_close(ci.high_f(), 1.975919944919575e-80, 1e-9, "high");
}

/// Finite samples of sizes >= 2 with a perfectly representable interval are rejected.
#[test]
fn representable_interval_rejected_with_invalid_input_data() {
    let conf = Confidence::new_two_sided(0.95);
    // f32: bytes transferred
    let a = [2.0e10_f32, 3.5e10, 5.1e10];
    let b = [1.0e10_f32, 4.2e10, 6.3e10, 2.2e10];
    assert!(Arithmetic::<f32>::ci(conf, &a).is_ok());
    assert!(Arithmetic::<f32>::ci(conf, &b).is_ok());
    match Unpaired::<f32>::ci(conf, &a, &b) {
        Ok(Interval::TwoSided(lo, hi)) => {
            assert_close(lo as f64, -33825587318.507004, 1e-4, "low");
            assert_close(hi as f64, 35992255435.84033, 1e-4, "high");
        }
        other => panic!("f32: expected TwoSided(-3.38256e10, 3.59923e10), dof 6.8113; got {other:?}"),
    }
    // f64, large and small scales
    for (k, lo, hi) in [
        (1e78_f64, -2.6425866115862415e78, 1.9759199449195753e78),
        (1e-82_f64, -2.6425866115862416e-82, 1.9759199449195752e-82),
    ] {
        match Unpaired::<f64>::ci(conf, &[0.0, k, 2.0 * k], &[0.0, 1.5 * k, 2.5 * k]) {
            Ok(Interval::TwoSided(l, h)) => {
                assert_close(l, lo, 1e-9, "low");
                assert_close(h, hi, 1e-9, "high");
            }
            other => panic!("f64 scale {k:e}: expected TwoSided({lo:e}, {hi:e}); got {other:?}"),
        }
    }
}
