// C10 violation 3: nesting in the level fails in the far tails because t_value (src/stats.rs:33-36)
// forwards to statrs' StudentsT::inverse_cdf, whose result is neither accurate nor monotone there
// (Newton iteration of inv_beta_reg stops early / 1 - y is quantised to multiples of 2^-53):
//   * df = 1 (n = 2; also Paired with 2 pairs, Unpaired 2+2): for two-sided levels above ~1 - 3e-8
//     (one-sided above ~1 - 1.5e-8) the half-width jumps up and down by factors up to 40;
//   * every df: for two-sided levels below ~3e-7 (n <= 30) ... 1e-5 (n = 100_000) the half-width is
//     quantised (t = sqrt(df * m * 2^-53), m = 0, 1, 2, ...) and is not monotone: factors 2 - 5.
// These are not rounding-level effects (the interval shrinks by a factor > 2 when the level is raised).
// All levels are admissible (inside (0, 1), accepted by Confidence::new_*), but they are exotic:
// on a conventional grid (1e-4 ... 1 - 1e-7) no failure of this kind exists.
//
// Expected (C10): CI(L1) is included in CI(L2) whenever L1 < L2.
use stats_ci::*;

fn check(st: &mean::Arithmetic<f64>, l1: f64, l2: f64) {
    assert!(l1 < l2);
    let a = st.ci_mean(Confidence::new_two_sided(l1)).unwrap();
    let b = st.ci_mean(Confidence::new_two_sided(l2)).unwrap();
    assert!(
        b.includes(&a),
        "n = {}: CI({}) = {:?} is not included in CI({}) = {:?}",
        st.sample_count(), l1, a, l2, b
    );
}

#[test]
fn two_samples_levels_close_to_one() {
    let data = [-1., 1.5];
    let st = mean::Arithmetic::<f64>::from_iter(&data).unwrap();
    // library: +-1.887e8 at 0.99999999, +-7.86e7 at 0.999999995 (exact: +-7.96e7 and +-1.59e8)
    check(&st, 0.99999999, 0.999999995);
}

#[test]
fn two_samples_one_sided_levels_close_to_one() {
    let data = [-1., 1.5];
    let st = mean::Arithmetic::<f64>::from_iter(&data).unwrap();
    let a = st.ci_mean(Confidence::new_upper(0.999999995)).unwrap();
    let b = st.ci_mean(Confidence::new_upper(0.999999998)).unwrap();
    assert!(b.includes(&a), "CI(0.999999995) = {:?} not included in CI(0.999999998) = {:?}", a, b);
}

#[test]
fn many_samples_levels_close_to_zero() {
    let data: Vec<f64> = (0..100_000).map(|i| if i % 2 == 0 { -1. } else { 1.5 }).collect();
    let st = mean::Arithmetic::<f64>::from_iter(&data).unwrap();
    check(&st, 9.772372209558111e-6, 1.0232929922807536e-5);
    let data: Vec<f64> = (0..20).map(|i| if i % 2 == 0 { -1. } else { 1.5 }).collect();
    let st = mean::Arithmetic::<f64>::from_iter(&data).unwrap();
    check(&st, 2e-8, 5e-8);
}
