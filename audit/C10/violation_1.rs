// C10 violation 1: mean::Harmonic::ci_mean maps the reciprocal-space interval through x -> 1/x
// without checking that the reciprocal-space bound is positive (src/mean.rs:561-569).
// As soon as  mean(1/x) - t * sem(1/x) <= 0  (small or spread-out strictly positive samples at
// perfectly ordinary levels) the upper bound of the harmonic interval becomes NEGATIVE:
//   * lower one-sided intervals at level >= 1/2 do not contain the sample harmonic mean,
//   * raising the level SHRINKS the lower one-sided interval,
//   * the two-sided interval at level 2L-1 is an Err (InvalidBounds), so the one-sided bound at L
//     has no two-sided counterpart to coincide with.
//
// Expected (C10): for strictly positive data (the admissible inputs of Harmonic)
//   CI(L1) included in CI(L2) for L1 < L2, every one-sided interval at level >= 1/2 and every
//   two-sided interval contains Harmonic::sample_mean(), and the finite bound of the one-sided
//   interval at L equals the corresponding bound of the two-sided interval at 2L-1.
use stats_ci::*;

fn harmonic(data: &[f64]) -> mean::Harmonic<f64> {
    let mut st = mean::Harmonic::new();
    for x in data {
        st.append(*x).unwrap();
    }
    st
}

#[test]
fn lower_one_sided_contains_the_harmonic_mean() {
    for data in [
        vec![3., 2., 3.],
        vec![0.1, 5., 7., 9., 3., 8., 6., 4., 10., 2.],
    ] {
        let st = harmonic(&data);
        let h = st.sample_mean();
        for level in [0.5, 0.9, 0.95, 0.975, 0.99, 0.995] {
            let ci = st.ci_mean(Confidence::new_lower(level)).unwrap();
            assert!(ci.is_lower());
            assert!(
                ci.contains(&h),
                "data {:?}: lower one-sided CI at level {} is {:?}, which does not contain the harmonic mean {}",
                data, level, ci, h
            );
        }
    }
}

#[test]
fn raising_the_level_never_shrinks_the_interval() {
    let st = harmonic(&[3., 2., 3.]);
    let levels = [0.5, 0.8, 0.9, 0.95, 0.975, 0.99, 0.995, 0.999];
    for (i, l1) in levels.iter().enumerate() {
        for l2 in &levels[i + 1..] {
            let a = st.ci_mean(Confidence::new_lower(*l1)).unwrap();
            let b = st.ci_mean(Confidence::new_lower(*l2)).unwrap();
            assert!(
                b.includes(&a),
                "lower one-sided: CI({}) = {:?} is not included in CI({}) = {:?}",
                l1, a, l2, b
            );
        }
    }
}

#[test]
fn one_sided_bound_coincides_with_two_sided_bound() {
    let st = harmonic(&[0.1, 5., 7., 9., 3., 8., 6., 4., 10., 2.]);
    let one = st.ci_mean(Confidence::new_lower(0.975)).unwrap();
    let two = st.ci_mean(Confidence::new_two_sided(0.95));
    match two {
        Ok(two) => {
            assert!(two.is_two_sided());
            assert_eq!(one.high_f(), two.high_f());
            assert!(two.contains(&st.sample_mean()));
        }
        Err(e) => panic!(
            "two-sided 0.95 interval is Err({e}) although the one-sided interval at 0.975 is {:?}",
            one
        ),
    }
}
