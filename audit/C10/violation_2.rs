// C10 violation 2: Confidence::quantile() (src/confidence.rs:269-276) computes 1 - (1 - c)/2 in f64.
// For the admissible two-sided level c = 0.9999999999999999 (= 1 - 2^-53, the largest f64 below 1,
// accepted by Confidence::new_two_sided) this rounds to exactly 1.0, so z_value / t_value
// (src/stats.rs:14-36) return +infinity and every producer computes with an infinite critical value:
//   * proportion::ci / ci_wilson / ci_wilson_ratio / Stats::ci / ci_true / ci_if: Ok(TwoSided(NaN, NaN))
//     for EVERY (n, k)   (src/proportion.rs:546-553: (n_s + inf)/(n + inf) = NaN),
//   * quantile::ci_indices / Stats::ci / ci / ci_sorted_unchecked / ci_max_size: Ok(TwoSided(0, 0))
//     for EVERY (n, q)   (src/quantile.rs:93-106: NaN passes the range checks, floor(NaN) as usize = 0),
//   * mean::Arithmetic (and Paired) on constant data: Ok(TwoSided(NaN, NaN))   (inf * 0),
//   * mean::Harmonic: Ok(TwoSided(0.0, -0.0)).
// None of these contains the point estimate, and none includes the interval of a lower level.
//
// Expected (C10): a two-sided interval contains the point estimate and includes CI(L1) for L1 < L2.
use stats_ci::*;

const TOP: f64 = 0.9999999999999999;

#[test]
fn proportion_two_sided_contains_k_over_n_and_is_nested() {
    let c_top = Confidence::new_two_sided(TOP);
    let hi = proportion::ci(c_top, 100, 50).unwrap();
    let lo = proportion::ci(Confidence::new_two_sided(0.95), 100, 50).unwrap();
    assert!(hi.is_two_sided());
    assert!(hi.contains(&0.5), "CI({TOP}) = {:?} does not contain k/n = 0.5", hi);
    assert!(hi.includes(&lo), "CI(0.95) = {:?} is not included in CI({TOP}) = {:?}", lo, hi);
}

#[test]
fn quantile_two_sided_contains_the_rank_and_is_nested() {
    let c_top = Confidence::new_two_sided(TOP);
    let hi = quantile::ci_indices(c_top, 100, 0.5).unwrap();
    let lo = quantile::ci_indices(Confidence::new_two_sided(0.95), 100, 0.5).unwrap();
    let rank = quantile::Stats::new(100).index(0.5).unwrap(); // 50
    assert!(
        hi.low_u() <= rank + 1 && hi.high_u() + 1 >= rank,
        "CI({TOP}) = {:?} is not within one position of the sample-quantile rank {}",
        hi, rank
    );
    assert!(hi.includes(&lo), "CI(0.95) = {:?} is not included in CI({TOP}) = {:?}", lo, hi);
}

#[test]
fn arithmetic_two_sided_contains_the_mean_of_constant_data() {
    let data = [1., 1., 1.];
    let st = mean::Arithmetic::<f64>::from_iter(&data).unwrap();
    let lo = st.ci_mean(Confidence::new_two_sided(0.95)).unwrap(); // [1, 1]
    let hi = st.ci_mean(Confidence::new_two_sided(TOP)).unwrap();
    assert!(hi.contains(&st.sample_mean()), "CI({TOP}) = {:?} does not contain the mean 1", hi);
    assert!(hi.includes(&lo));
}

#[test]
fn harmonic_two_sided_contains_the_mean() {
    let data = [1., 2., 3.];
    let st = mean::Harmonic::<f64>::from_iter(&data).unwrap();
    // (at this level the reciprocal-space interval is [-inf, +inf])
    let hi = st.ci_mean(Confidence::new_two_sided(TOP)).unwrap();
    assert!(
        hi.contains(&st.sample_mean()),
        "CI({TOP}) = {:?} does not contain the harmonic mean {}",
        hi,
        st.sample_mean()
    );
}
