// C16, clause "reordering the observations changes the bounds by at most a few units of
// rounding error" (quantifier: all samples x all permutations x all confidences).
//
// Expected behaviour: a permutation of the same observations yields the same interval up to a
// few ulps (here: a generous 64 ulps of the bound, i.e. 64 * eps * |bound|), and in particular
// never turns an interval into an error.
//
// Actual behaviour: for samples whose spread is small relative to their magnitude the bounds
// move by thousands (f32) / hundreds of millions (f64) of ulps, the width changes by 15-41 %,
// and some permutations return Err(InvalidInputData) while others return Ok.
//
// Root cause: the Kahan register for sum(x^2) is order dependent in its last bit (ties / inexact
// `x - c` in src/utils.rs:133-140) and src/mean.rs:339 computes the variance as
// `sum_sq - mean * sum`, a catastrophic cancellation that amplifies that one ulp by
// (mean/sigma)^2.
use stats_ci::*;

fn ulps32(a: f32, b: f32) -> u64 {
    let f = |x: f32| { let b = x.to_bits() as i32; if b < 0 { i32::MIN - b } else { b } };
    (f(a) as i64 - f(b) as i64).unsigned_abs()
}
fn ulps64(a: f64, b: f64) -> u64 {
    let f = |x: f64| { let b = x.to_bits() as i64; if b < 0 { i64::MIN - b } else { b } };
    (f(a) as i128 - f(b) as i128).unsigned_abs() as u64
}
const FEW: u64 = 64;

#[test]
fn arithmetic_f32_three_observations() {
    let c = Confidence::new_two_sided(0.95);
    let p1: [f32; 3] = [1023.25, 1024.5, 1023.75];
    let p2: [f32; 3] = [1024.5, 1023.25, 1023.75]; // same multiset
    let a = mean::Arithmetic::<f32>::ci(c, &p1).unwrap();
    let b = mean::Arithmetic::<f32>::ci(c, &p2).unwrap();
    // library: a = [1022.3121, 1025.3545], b = [1022.0768, 1025.5898]  (exact: [1022.2704, 1025.3963])
    let d = ulps32(a.low_f(), b.low_f()).max(ulps32(a.high_f(), b.high_f()));
    assert!(d <= FEW, "reordering moved the bounds by {} ulps: {:?} vs {:?}", d, a, b);
}

#[test]
fn arithmetic_f64_five_observations() {
    let c = Confidence::new_two_sided(0.95);
    let p1 = [94906264.0f64, 94906265.0, 94906263.0, 94906267.0, 94906263.0];
    let p2 = [94906263.0f64, 94906264.0, 94906263.0, 94906265.0, 94906267.0];
    let a = mean::Arithmetic::<f64>::ci(c, &p1).unwrap();
    let b = mean::Arithmetic::<f64>::ci(c, &p2).unwrap();
    // library: a = [94906262.644, 94906266.156], b = [94906261.917, 94906266.883]
    let d = ulps64(a.low_f(), b.low_f()).max(ulps64(a.high_f(), b.high_f()));
    assert!(d <= FEW, "reordering moved the bounds by {} ulps: {:?} vs {:?}", d, a, b);
}

#[test]
fn arithmetic_f64_three_decimal_data() {
    // |mean|/sigma ~ 1e6 only: still millions of ulps
    let c = Confidence::new_two_sided(0.95);
    let p1 = [1048575.802f64, 1048577.641, 1048576.526];
    let p2 = [1048577.641f64, 1048575.802, 1048576.526];
    let a = mean::Arithmetic::<f64>::ci(c, &p1).unwrap();
    let b = mean::Arithmetic::<f64>::ci(c, &p2).unwrap();
    let d = ulps64(a.low_f(), b.low_f()).max(ulps64(a.high_f(), b.high_f()));
    assert!(d <= FEW, "reordering moved the bounds by {} ulps: {:?} vs {:?}", d, a, b);
}

#[test]
fn reordering_turns_interval_into_error() {
    let c = Confidence::new_two_sided(0.95);
    let p1: [f32; 7] = [4095.0, 4095.0, 4095.0, 4097.0, 4096.0, 4096.0, 4095.0];
    let p2: [f32; 7] = [4096.0, 4095.0, 4096.0, 4097.0, 4095.0, 4095.0, 4095.0];
    let a = mean::Arithmetic::<f32>::ci(c, &p1);
    let b = mean::Arithmetic::<f32>::ci(c, &p2);
    // library: a = Ok([4095.5715, 4095.5715]), b = Err(InvalidInputData)
    assert_eq!(a.is_ok(), b.is_ok(), "{:?} vs {:?}", a, b);

    let p1 = [94906267.0f64, 94906266.0, 94906267.0, 94906265.0];
    let p2 = [94906267.0f64, 94906265.0, 94906266.0, 94906267.0];
    let a = mean::Arithmetic::<f64>::ci(c, &p1);
    let b = mean::Arithmetic::<f64>::ci(c, &p2);
    assert_eq!(a.is_ok(), b.is_ok(), "{:?} vs {:?}", a, b);
}

#[test]
fn paired_inherits_it() {
    let c = Confidence::new_upper(0.9);
    let a1: [f32; 3] = [1023.25, 1024.5, 1023.75];
    let a2: [f32; 3] = [1024.5, 1023.25, 1023.75];
    // paired: the same pairs in another order
    let b1: [f32; 3] = [0.0, 0.0, 0.0];
    let x = comparison::Paired::<f32>::ci(c, &a1, &b1).unwrap();
    let y = comparison::Paired::<f32>::ci(c, &a2, &b1).unwrap();
    let d = ulps32(x.low_f(), y.low_f());
    assert!(d <= FEW, "paired: reordering moved the bound by {} ulps: {:?} vs {:?}", d, x, y);
}

#[test]
fn unpaired_inherits_it() {
    let c = Confidence::new_upper(0.9);
    let a1: [f32; 3] = [1023.25, 1024.5, 1023.75];
    let a2: [f32; 3] = [1024.5, 1023.25, 1023.75];
    // unpaired: first sample reordered
    let other: [f32; 4] = [1020.0, 1021.0, 1022.0, 1023.0];
    let x = comparison::Unpaired::<f32>::ci(c, &a1, &other).unwrap();
    let y = comparison::Unpaired::<f32>::ci(c, &a2, &other).unwrap();
    let d = ulps32(x.low_f(), y.low_f());
    assert!(d <= FEW, "unpaired: reordering moved the bound by {} ulps: {:?} vs {:?}", d, x, y);
}
