// C16, clause "multiplying all observations by a power of two scales every bound of the
// arithmetic-mean, paired and unpaired intervals by exactly that factor" (quantifier: all
// exponents that avoid overflow/underflow).
//
// NOTE (scope): in every case below the observations AND the resulting bounds are many orders of
// magnitude away from the overflow / underflow thresholds of the float type; what overflows or
// underflows is an intermediate of the implementation (x^2 in src/mean.rs:358, and the FOURTH
// power of the standard deviation in the Welch degrees of freedom, src/comparison.rs:820-822).
// If "exponents that avoid overflow/underflow" is read as "no intermediate of the implementation
// over/underflows", these inputs are outside the quantifier and this file is not a violation.
//
// Expected behaviour: ci(2^k * data) == 2^k * ci(data), bit for bit.
use stats_ci::*;

const A: [f32; 6] = [1.2, 1.5, 1.1, 1.9, 1.4, 1.6];
const B: [f32; 5] = [1.0, 1.3, 1.25, 1.7, 1.1];

fn scaled32(v: &[f32], k: i32) -> Vec<f32> {
    v.iter().map(|x| x * 2f32.powi(k)).collect()
}

#[test]
fn unpaired_f32_small_scale_silently_wrong() {
    // data ~ 7e-11 (f32::MIN_POSITIVE = 1.2e-38): (s^2/n)^2 ~ 1e-44 is subnormal / 0 in f32,
    // the effective dof degrades and the interval is silently narrower than it should be.
    let c = Confidence::new_two_sided(0.95);
    let base = comparison::Unpaired::<f32>::ci(c, &A.to_vec(), &B.to_vec()).unwrap();
    let k = -34;
    let s = 2f32.powi(k);
    let sc = comparison::Unpaired::<f32>::ci(c, &scaled32(&A, k), &scaled32(&B, k)).unwrap();
    // library: base = [-0.19033328, 0.5503332]; sc / s = [-0.14932884, 0.5093287]
    assert_eq!(sc, base * s, "rescaled: [{}, {}]", sc.low_f() / s, sc.high_f() / s);
}

#[test]
fn unpaired_f32_large_scale_errors() {
    // data ~ 1.3e12 (f32::MAX = 3.4e38): (s^2/n)^2 overflows -> inf/inf = NaN dof -> Err
    let c = Confidence::new_two_sided(0.95);
    let base = comparison::Unpaired::<f32>::ci(c, &A.to_vec(), &B.to_vec()).unwrap();
    let k = 40;
    let s = 2f32.powi(k);
    let sc = comparison::Unpaired::<f32>::ci(c, &scaled32(&A, k), &scaled32(&B, k));
    assert_eq!(sc.ok(), Some(base * s));
}

#[test]
fn unpaired_f64() {
    let c = Confidence::new_two_sided(0.95);
    let a: Vec<f64> = A.iter().map(|v| *v as f64).collect();
    let b: Vec<f64> = B.iter().map(|v| *v as f64).collect();
    let base = comparison::Unpaired::<f64>::ci(c, &a, &b).unwrap();
    for k in [-264i32, 260] {
        // data ~ 4e-80 resp. 2e78 (f64 range 2.2e-308 .. 1.8e308)
        let s = 2f64.powi(k);
        let sa: Vec<f64> = a.iter().map(|v| v * s).collect();
        let sb: Vec<f64> = b.iter().map(|v| v * s).collect();
        let sc = comparison::Unpaired::<f64>::ci(c, &sa, &sb);
        assert_eq!(sc.ok(), Some(base * s), "k = {}", k);
    }
}

#[test]
fn arithmetic_f32_degenerate_interval() {
    // data ~ 2e-23: every x^2 underflows to 0 in f32 -> variance 0 -> zero-width interval
    let c = Confidence::new_two_sided(0.95);
    let base = mean::Arithmetic::<f32>::ci(c, &A.to_vec()).unwrap();
    let k = -76;
    let s = 2f32.powi(k);
    let sc = mean::Arithmetic::<f32>::ci(c, &scaled32(&A, k)).unwrap();
    // library: base = [1.1476598, 1.7523401]; sc / s = [1.4499999, 1.4499999]
    assert_eq!(sc, base * s, "rescaled: [{}, {}]", sc.low_f() / s, sc.high_f() / s);
}

#[test]
fn arithmetic_f32_large_scale_errors() {
    // data ~ 1.3e19: x^2 overflows f32 -> Err(InvalidInputData)
    let c = Confidence::new_two_sided(0.95);
    let base = mean::Arithmetic::<f32>::ci(c, &A.to_vec()).unwrap();
    let k = 63;
    let sc = mean::Arithmetic::<f32>::ci(c, &scaled32(&A, k));
    assert_eq!(sc.ok(), Some(base * 2f32.powi(k)));
}
