// C16, clause "(multiplying by a power of two) leaves geometric/harmonic intervals scaled up to
// rounding".
//
// NOTE (scope): "up to rounding" is not quantified in the statement. The deviations below are
// rounding errors of ln(x) and of sum(ln(x)^2) amplified by the cancellation in
// src/mean.rs:339 (`sum_sq - mean * sum`) once the scale factor moves the logarithms away from 0
// (|k ln 2| >> spread of ln x). They are 4e4 * eps relative for f32, and for f64 they turn an
// interval into Err(InvalidInputData) / a zero-width interval. If the clause is meant with a
// tolerance that grows like (k ln2 / sigma_log)^2 * eps, this file is not a violation.
//
// Expected behaviour: Geometric::ci(2^k * data) ~= 2^k * Geometric::ci(data) up to a few (here:
// 8000) eps relative, and never an error when the unscaled call succeeds.
use stats_ci::*;

#[test]
fn geometric_f32_scale_2_pow_40() {
    let c = Confidence::new_two_sided(0.95);
    let a: Vec<f32> = vec![1.01, 1.02, 0.99, 1.005, 0.995];
    let base = mean::Geometric::<f32>::ci(c, &a).unwrap();
    let s = 2f32.powi(40); // data ~ 1.1e12, far from f32::MAX
    let sa: Vec<f32> = a.iter().map(|v| v * s).collect();
    let sc = mean::Geometric::<f32>::ci(c, &sa).unwrap();
    // library: base = [0.98924047, 1.0188646]; sc / s = [0.9846524, 1.023611]
    let rel = ((sc.low_f() / s - base.low_f()) / base.low_f())
        .abs()
        .max(((sc.high_f() / s - base.high_f()) / base.high_f()).abs());
    assert!(rel <= 8000.0 * f32::EPSILON, "relative deviation {} = {} eps", rel, rel / f32::EPSILON);
}

#[test]
fn geometric_f64_scale_2_pow_300() {
    let c = Confidence::new_two_sided(0.95);
    let a: Vec<f64> = vec![1.000001, 1.000002, 0.999999, 1.0000005, 0.9999995];
    let base = mean::Geometric::<f64>::ci(c, &a).unwrap();
    // library: base = [0.9999989177845552, 1.0000018822165018]
    let s = 2f64.powi(300); // data ~ 2e90
    let sa: Vec<f64> = a.iter().map(|v| v * s).collect();
    let sc = mean::Geometric::<f64>::ci(c, &sa);
    // library: Err(InvalidInputData)
    let sc = sc.expect("scaling by 2^300 must not turn the interval into an error");
    let rel = ((sc.low_f() / s - base.low_f()) / base.low_f()).abs();
    assert!(rel <= 8000.0 * f64::EPSILON);
}

#[test]
fn geometric_f64_scale_2_pow_1000_zero_width() {
    let c = Confidence::new_two_sided(0.95);
    let a: Vec<f64> = vec![1.000001, 1.000002, 0.999999, 1.0000005, 0.9999995];
    let base = mean::Geometric::<f64>::ci(c, &a).unwrap();
    let s = 2f64.powi(1000); // data ~ 1e301 < f64::MAX
    let sa: Vec<f64> = a.iter().map(|v| v * s).collect();
    let sc = mean::Geometric::<f64>::ci(c, &sa).unwrap();
    // library: sc / s = [1.0000003999994194, 1.0000003999994194] (zero width)
    let w0 = base.high_f() - base.low_f();
    let w1 = (sc.high_f() - sc.low_f()) / s;
    assert!((w1 / w0 - 1.0).abs() < 0.01, "width {} vs {}", w1, w0);
}
