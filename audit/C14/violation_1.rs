// C14 violation 1: is_degenerate() and width() disagree on the single-point
// float intervals [+inf, +inf] and [-inf, -inf].
//
// The property says "The kind predicates, is_degenerate and width are mutually
// consistent" for all pairs of bounds over floats *including infinities*,
// through every fallible constructor / conversion path.
//
// Expected: for every well-formed two-sided interval,
//     is_degenerate()  <=>  width() == Some(0)
// (a single-point interval has width zero; a width is never NaN).
// Actual: Interval::new(inf, inf) is accepted (inf <= inf), is_degenerate()
// is true, but width() returns Some(NaN) because src/interval.rs:934 computes
// `high - low` = inf - inf.
use stats_ci::Interval;

macro_rules! check {
    ($iv:expr, $path:expr) => {{
        let iv = $iv;
        assert!(iv.is_two_sided());
        assert!(iv.low().unwrap() <= iv.high().unwrap()); // well-formed
        assert!(iv.is_degenerate(), "{}: {:?} is a single point", $path, iv);
        let w = iv.width().expect("two-sided intervals have a width");
        // is_degenerate() <=> width == 0
        assert_eq!(
            iv.is_degenerate(),
            w == 0.0,
            "{}: {:?}: is_degenerate() = {} but width() = Some({:?})",
            $path,
            iv,
            iv.is_degenerate(),
            w
        );
    }};
}

#[test]
fn degenerate_interval_at_infinity_has_zero_width_f64() {
    for x in [f64::INFINITY, f64::NEG_INFINITY] {
        check!(Interval::new(x, x).unwrap(), "new");
        check!(Interval::try_from((x, x)).unwrap(), "try_from((T,T))");
        check!(
            Interval::<f64>::try_from((Some(x), Some(x))).unwrap(),
            "try_from((Option,Option))"
        );
        check!(Interval::try_from(x..=x).unwrap(), "try_from(RangeInclusive)");
    }
}

#[test]
fn degenerate_interval_at_infinity_has_zero_width_f32() {
    for x in [f32::INFINITY, f32::NEG_INFINITY] {
        check!(Interval::new(x, x).unwrap(), "new");
        check!(Interval::try_from((x, x)).unwrap(), "try_from((T,T))");
    }
}

// control (passes): every finite degenerate interval is consistent
#[test]
fn control_finite_degenerate_intervals_are_consistent() {
    for x in [0.0, -0.0, 1.0, f64::MAX, f64::MIN, f64::MIN_POSITIVE, 5e-324] {
        check!(Interval::new(x, x).unwrap(), "new");
    }
}
