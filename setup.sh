#!/bin/bash
# Offline setup: build the fact extractor and warm the dependency builds of every feature config.
set -e
cd "$(dirname "$0")"
export CARGO_NET_OFFLINE=true
(cd driver && cargo +nightly build --release --offline 2>&1 | tail -2)
python3 - <<'PY'
import sys
sys.path.insert(0, '.')
from sa import core
for cfg in core.CONFIGS:
    try:
        core.get_facts(cfg)
        print('facts ok', cfg)
    except core.FactsUnavailable as e:
        print('facts unavailable for', cfg, '(reported by C20)')
PY
