#!/bin/bash
# usage: try_refactor.sh <abs diff>...  -- for each behaviour-preserving diff: apply to /repo, run every quick check
# (in parallel), undo.  Any VIOLATION is a false alarm of the checker (or the diff is not behaviour-preserving).
props="C01 C02 C03 C04 C05 C06 C07 C08 C09 C10 C11 C13 C14 C15 C16 C17 C18 C19 C20"
out=/tmp/refac-results; mkdir -p $out
for patch in "$@"; do
  tag=$(basename $(dirname $patch))-$(basename $patch .diff)
  ( cd /repo && git apply $patch ) || { echo "$tag: patch does not apply"; continue; }
  cd /verif
  ./check C01 --tier quick > $out/$tag.C01.log 2>&1   # warms the fact cache once
  echo $props | tr ' ' '\n' | grep -v C01 | xargs -P 9 -I{} sh -c "VERIF_BUDGET_S=400 ./check {} --tier quick > $out/$tag.{}.log 2>&1"
  git -C /repo checkout -- . && git -C /repo clean -fdq -- src
  hits=$(grep -l "^VIOLATION" $out/$tag.*.log | sed -e "s/.*\.\(C[0-9]*\)\.log/\1/" | tr '\n' ' ')
  echo "$tag ALARMS: $hits"
done
