#!/bin/bash
# usage: [SEED_PREFIX=seed3] confirm_seed.sh <id>   (scratch worktree /tmp/<prefix>-<id>, outputs in /tmp/<prefix>-out/<id>)
id=$1; PFX=${SEED_PREFIX:-seed}; WT=/tmp/$PFX-$id; OUT=/tmp/$PFX-out/$id
cd $WT || exit 2
export CARGO_TARGET_DIR=$WT/target
# make sure the worktree has exactly the patch applied
git checkout -q -- src Cargo.toml 2>/dev/null; git apply $OUT/patch.diff || { echo "PATCH DOES NOT APPLY"; exit 2; }
rm -f tests/seed_demo.rs
s=$(cargo test --offline --lib --tests 2>&1 | grep -E "^test result" | awk '{p+=$4; f+=$6} END {print p" passed "f" failed"}')
cp $OUT/seed_demo.rs tests/seed_demo.rs
d1=$(cargo test --offline --test seed_demo 2>&1 | grep -E "^test result" | tail -1)
git apply -R $OUT/patch.diff
d2=$(cargo test --offline --test seed_demo 2>&1 | grep -E "^test result" | tail -1)
git apply $OUT/patch.diff
echo "$id suite_with_change: $s | demo_with_change: $d1 | demo_without: $d2"
