#!/bin/bash
# usage: confirm_seed.sh <id>   (scratch worktree /tmp/seed-<id> with the change applied, outputs in /tmp/seed-out/<id>)
id=$1; WT=/tmp/seed-$id; OUT=/tmp/seed-out/$id
cd $WT || exit 2
export CARGO_TARGET_DIR=$WT/target
# make sure the worktree has exactly the patch applied
git checkout -q -- src Cargo.toml 2>/dev/null; git apply $OUT/patch.diff || { echo "PATCH DOES NOT APPLY"; exit 2; }
cp $OUT/seed_demo.rs tests/seed_demo.rs
mv tests/seed_demo.rs /tmp/seed_demo_$id.rs
s=$(cargo test --offline --lib --tests 2>&1 | grep -E "^test result" | awk '{p+=$4; f+=$6} END {print p" passed "f" failed"}')
mv /tmp/seed_demo_$id.rs tests/seed_demo.rs
d1=$(cargo test --offline --test seed_demo 2>&1 | grep -E "^test result" | tail -1)
git stash push -q -- src Cargo.toml
d2=$(cargo test --offline --test seed_demo 2>&1 | grep -E "^test result" | tail -1)
git stash pop -q
echo "$id suite_with_change: $s | demo_with_change: $d1 | demo_without: $d2"
