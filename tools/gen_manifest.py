#!/usr/bin/env python3
"""Regenerates /verif/MANIFEST.json from the table below (kept next to the rules)."""
import json, os
V = os.path.dirname(os.path.dirname(os.path.abspath(__file__)))
props = [json.loads(l) for l in open(os.path.join(V, 'properties.jsonl'))]

CLAIMED = {
 'C01': dict(tech='MIR path summaries + rational-function normal form + loop base/step refinement',
   text='Proof by formula identity on the type-checked program: the MIR-derived summaries of Arithmetic::ci_mean / ci (inherent, StatisticsOps and MeanCI forms) are pruned on the domain by sign certificates and their bounds are shown equal, as rational functions with sqrt and quantile atoms, to mean -/+ c*s/sqrt(n) with the t(n-1) / normal quantile at q; the data loop is proved a fold of append by base/step refinement to (S1,S2,n). Covers all samples, sizes, levels and kinds at once in real-number semantics.',
   note='floats treated as reals (rounding magnitude and conditioning undecided); statrs inverse_cdf trusted to be the quantile function; usize overflow asserts assumed; n >= 2, level in (0,1)', ref='4/C01'),
 'C07': dict(tech='exhaustive decision tables over variant tuples x weak orders (parametricity)',
   text='Exhaustive proof over the finite abstract domain: contains/intersects/includes/is_included_in and the RangeBounds view are compared with the set semantics on every kind combination and every weak order of the bounds (and probe); by parametricity of safe generic code this covers every totally ordered element type and value.',
   note='total orders only (NaN outside the quantifier); model table for comparison operators on references', ref='4/C07'),
 'C13': dict(tech='decision tables over kinds x orderings x sign of the scalar (ordered-field axioms)',
   text='Exhaustive table proof: for each scalar operator the result is the image set (kind, which input bound each output bound is the image of, well-formedness) on every kind, ordering of the bounds and sign class of the scalar, using only monotonicity axioms of an ordered field; interval-interval + / - and relative_to are compared per kind pair with the expected bound expressions or the documented panic.',
   note='A*0 for one-sided A outside the quantifier; relative_to bound placement relies on the cited monotonicity of (x-r)/r', ref='4/C13'),
 'C14': dict(tech='decision tables + who-may-construct inventory + summary composition',
   text='Exhaustive tables for the four fallible constructors/conversions (Ok exactly for ordered bounds, documented errors otherwise), every accessor, projection and tuple/option/range conversion on every kind, round trips by composing summaries, kind predicates / is_degenerate / width, Clone identity and the Hash write sequence; plus a who-may-construct rule: the two-sided variant is only built by the checked constructor, clones, arithmetic, or a function proven (over all weak orders of well-formed operands) to keep low <= high.',
   note='ordered element types; == decided by its own table (D6); overridden provided trait methods and inherent methods shadowing a decided trait method are decided or reported', ref='4/C14'),
 'C15': dict(tech='decision table of partial_cmp + order axioms on the complete 6-chain table',
   text='Exhaustive: the partial_cmp/eq decision tables equal the table fixed by the statement on every kind pair and weak order; the axioms (Equal iff ==, Less iff separated, antisymmetry, transitivity, incomparability) are then checked on all pairs/triples of the 33 abstract intervals of a 6-point chain, which realises every relative position of up to six bounds.',
   note='total orders only', ref='4/C15'),
 'C18': dict(tech='IEEE partition of the level at the compared constants + variant tables',
   text='Exhaustive over the cells NaN | -inf | (-inf,0) | {0} | (0,1) | {1} | (1,inf) | +inf (refined at every constant the code compares with): constructors return the right variant exactly on (0,1) and panic elsewhere, TryFrom returns InvalidConfidenceLevel there; tables for level/percent/kind/is_*/flipped/partial_cmp/eq over the three public variants.',
   note='public enum variants can be built directly (outside the quantifier)', ref='4/C18'),
 'C19': dict(tech='boolean tables over opaque element relations + format_args templates joined with MIR argument order',
   text='Exhaustive: each approx impl, as a boolean function of the element relation on corresponding bounds (all truth assignments x 9 kind pairs), is the bound-wise conjunction with the tolerances passed through and false for mixed kinds; the three Display templates are exactly the canonical strings with plain Display placeholders bound to (low, high) in order.',
   note='reflexivity/symmetry inherited from the approx contract on floats; inherent methods named like an approx method (they win method-call syntax) are decided by the same table', ref='4/C19'),
 'C02': dict(tech='integer zone tables + rational-function normal form + counting-fold refinement + exactness (E9) of domain guards + sign certificates',
   text='Proof on the type-checked program: (i) the domain checks of ci_wilson / ci_z_normal are compared with the documented regions on every cell of the arrangement of their integer guards (finite abstract domain, complete); (ii) on the accepted region the Ok bounds are shown equal, as rational functions with sqrt and quantile atoms, to the Wilson centre -/+ span (independently: both vanish in the score polynomial) resp. the Wald formula, with the kind table; (iii) every front-end (ci, Stats::ci, ci_true, ci_if, FromIterator, extend, extend_if, add_success/failure) is a counting fold with the predicate polarity in the step obligation, and the ratio form passes round(r*n); (iv) is_significant equals its documented thresholds on every zone cell.',
   note='floats as reals for the formula; bounds within [0,1] decided over the reals by sign certificates; domain guards additionally required to be computed exactly (E9; arithmetic on converted counts is reported as inexact above 2^53, repaired: d3c7d88) and integer operations on the accepted path to be overflow-free on the domain; n >= 1 (n = 0 under C11); level in (0,1)', ref='4/C02'),
 'C03': dict(tech='modular MIR summaries (callee contracts as stubs) + region-wise sign-certificate pruning + data-flow events',
   text='Per region of the documented domain every feasible path of Stats::ci / Stats::index / ci_sorted_unchecked has the documented outcome (guards, Wilson request for round(q*n), rank = min(floor(p*n), n-1) with the cap present, kind table, errors propagated unchanged, no panic for q outside (0,1)); ci / ci_max_size hand on exactly sort_by(collect(copied(data)), ascending comparator) (comparator decided on the three orderings), so the result depends on the data only through its sorted arrangement; ci_indices is Stats::new(n).ci; the running Stats has the empty default and + / += add the populations.',
   note='contracts used as stubs: ci_wilson (C02), slice::sort_by; "ranks bracket round(q*n) within one position" decided by composition of the rank map with the sign certificate that the Wilson bounds contain k/n (z >= 0)', ref='4/C03'),
 'C04': dict(tech='loop base/step refinement (fold and lock-step), stream algebra for length mismatch, formula identity',
   text='Paired: append_pair / extend_tuple / extend feed exactly a - b once per pair (base/step obligations on the havocked loop state), the lock-step loop reports DifferentSampleSizes(len a, len b) through the counter/remaining-count algebra and appends nothing after a mismatch, ci_mean is the C01 formula of the differences. Unpaired: every feeder routes each sample into its own component; ci_mean equals (ma - mb) -/+ c*sqrt(va/na + vb/nb) with the documented effective dof as a rational-function identity; exchange symmetry by substitution.',
   note='floats as reals; n >= 2 per sample; variances >= 0 and not both 0', ref='4/C04'),
 'C05': dict(tech='region-wise path summaries with the wrapped Arithmetic::ci_mean as a proved stub + sibling normal-form identities',
   text='append rejects x <= 0 with NonPositiveValue(x) and provably writes nothing on that path, otherwise accumulates ln x resp. 1/x; Geometric::ci_mean is exp of the wrapped bounds with the kind kept; Harmonic::ci_mean asks the wrapped state for the flipped confidence and returns (1/high, 1/low) with the kind of the request; sample_mean and sample_sem are the documented transforms of the wrapped state\'s own statistics.',
   note='AM-GM ordering of the three means not decided (can fail by an ulp); harmonic interval decided on the statement\'s positivity proviso, and outside it no interval may be returned (repaired: bdf2998); statistics additionally bounded in scaling degree (no spurious overflow of an intermediate)', ref='4/C05'),
 'C06': dict(tech='structural normal-form check of every critical-value use site',
   text='Necessary structural conditions only: every critical value reaching a bound of a mean / comparison / proportion interval is inverse_cdf of StudentsT(0,1,nu) with nu the term n-1 or the documented effective dof (Normal(0,1) above the constant threshold and for proportions) at q = (1+L)/2 | L, and it enters the bounds only as centre -/+ c*se (affine, opposite signs, no abs/clamp).',
   note='NOT decided: that statrs inverse_cdf inverts its CDF to the stated accuracy (numerical property of an external algorithm) - trusted contract; a dynamic audit (DESIGN 26) shows that statrs 0.18 violates it for isolated (dof, level) pairs between dof 13 612 and 99 999', ref='4/C06'),
 'C08': dict(tech='first-order rounding-error algebra on the kernel summary + composition and who-may-construct rules',
   text='Structural clauses: the += step is a compensated recurrence in the sense that, with every float operation annotated by an error symbol and the recovery subtractions exact, the accumulation\'s own rounding error cancels in the conserved quantity s -/+ c (Kahan and Neumaier satisfy it; naive, sign-flipped or dropped compensation do not); the merge feeds the sum of the smaller register and (with the sign of the conserved quantity) its compensation through the same kernel into the larger one - conservation of s -/+ c over the reals with c live, and the magnitude guard that makes the error recovery of the kernel exact (Dekker), are both decided; value() is sum + k*compensation; registers are created only inside the register\'s own impls (no re-seeding).',
   note='NOT decided: the constant of the O(u*sum|x|) bound and long-stream behaviour (runtime quantities); Dekker/Kahan exactness lemma assumed', ref='4/C08'),
 'C09': dict(tech='monoid-homomorphism identities by normal form + type-level facts from trait selection',
   text='For all eight state types: the empty state is the neutral element, Add / add / AddAssign add every statistic component-wise from the same statistic of both operands (field coverage) without branching on the operands, every state type is Freeze + Send + Sync and every query takes &self, the one lazy static is a constant. With the fold obligations of C01/C02/C04/C05 any history delivering a multiset yields the batch statistics.',
   note='floats as reals (size of rounding differences between merge orders not decided)', ref='4/C09'),
 'C10': dict(tech='kind tables + substitution L -> 2L-1 on the code terms + sign certificates',
   text='For all eight producers: the kind of the result matches the confidence; the finite bound of the one-sided interval at L is identical (normal form) to the corresponding bound of the two-sided interval at 2L-1; for the centre -/+ c*se producers the interval contains the point estimate (two-sided, or one-sided at L >= 1/2) by sign certificates with c >= 0 at q >= 1/2.',
   note='monotonicity of the external quantile functions in the level is a contract (C06); Wilson nesting in z and containment of k/n decided by sign certificates; quantile-rank containment decided under C03', ref='4/C10'),
 'C11': dict(tech='IEEE class/range abstract interpretation of every path condition of every entry point',
   text='For each of the 54 entry points, in dev-profile MIR with nothing assumed about inputs: every panic edge (overflow/bounds asserts, unwrap, panic!/assert!, external preconditions) is proved unreachable by the class/range domain or is in the documented table; every float bound of every Ok interval has an abstract value excluding NaN; the state-based producers return TooFewSamples for n < 2 and InvalidInputData for non-finite statistics.',
   note='levels in [0.001, 0.9999]; statrs inverse_cdf finite on (0,1); quantile arguments by IEEE class incl. NaN (repaired: dc81ae8); two-sided results only through the checked constructor or a function proven to keep low <= high (who-may-construct rule, decided here too); panics inside generic element operators not visible', ref='4/C11'),
 'C16': dict(tech='substitution identities (scaling, shift, negation) on the code terms by normal form',
   text='For the arithmetic, paired and unpaired producers, on both distribution branches and all kinds: b(t*x) = t*b(x), b(x+a) = b(x)+a (difference invariant for unpaired), b(-x) = -(opposite bound of the mirrored kind), as identities of rational functions with sqrt atoms; exact scaling by powers of two follows by the stated IEEE meta-theorem.',
   note='size of rounding differences for shift / reorder not decided; geometric / harmonic by composition with C05', ref='4/C16'),
 'C17': dict(tech='substitution k -> n-k on the Wilson / Wald summaries + score-root identity + sign certificates (nf.decide_sign_sqrt) + exactness of domain guards',
   text='The interval for n-k successes is the mirror image 1 - (interval for k) with upper and lower exchanged including the far ends (normal-form identity on the code terms); both Wilson bounds are roots of the score polynomial, the premise of the cited theorems.',
   note='the analytic clauses (bounds in [0,1], midpoint, outward movement with z, narrower on (t n, t k), monotone in k through its implicit-function premises) are decided over the reals by sign certificates on the code terms; cited: d/dk >= 0 on real k implies monotone integer steps; accepted domain mirror-symmetric in floating point by exactness of the guards (E9); integer operations behind an Ok result must be overflow-free on the domain', ref='4/C17'),
 'C20': dict(tech='compiler as checker over the feature matrix + derive-closure over the item graph',
   text='Each advertised feature set must type-check through the fact extractor (rustc is the decision procedure); under serde every type reachable through the fields of the public state types must have both derived serde impls and no data-dropping field attribute, which makes a round trip the field-wise identity.',
   note='losslessness of a concrete serialisation format on floats is a property of the serialiser', ref='4/C20'),
}

# sqrt-domain (DESIGN 30): the IEEE-sign rule on radicands is part of these four checks
_SQRT = ' In addition (sqrt-domain rule, sa/sqrtdom.py) every square root met on any path of these producers has a radicand that is non-negative as a floating-point value by its shape or by a guard of the same path - an unguarded cancelling difference under a root (the one-pass variance on a constant sample) is reported; the genuine defect found this way was repaired in /repo (4307b4e).'
for _k in ('C01', 'C02', 'C04', 'C05'):
    CLAIMED[_k]['tech'] += ' + IEEE sign rule on square-root radicands'
    CLAIMED[_k]['text'] += _SQRT

# round 11 (DESIGN 31)
CLAIMED['C01']['text'] += ' The identity is claimed only where the quotients of the code are defined (div-domain: every denominator on the accepted paths has a strict sign certificate), and the growth-order rule compares with the form S2 - mean*S1 (squaring the sum is reported).'
CLAIMED['C04']['text'] += ' The identity is claimed only where the quotients of the code are defined (div-domain: every denominator on the accepted paths, the Welch ratio included, has a strict sign certificate on both variance regions); growth orders as in C01.'
CLAIMED['C02']['text'] += ' Denominators of the accepted path whose certificate attains zero on the box are reported (div-domain, lenient); and for a rare event (k fixed, n -> infinity) no bound may be the difference of two intermediates whose leading terms cancel (cancellation: leading-order analysis of the code term, sa/asym.py).'
CLAIMED['C02']['tech'] += ' + leading-order (asymptotic) cancellation analysis'
CLAIMED['C03']['text'] += ' The contract of the stubbed callee ci_wilson is not taken on trust: the C02 obligations on ci_wilson (domain table, signed formula, unit interval, exact guards, radicand, integer arithmetic) are re-established on the same facts and reported under C03 (wilson-contract).'
CLAIMED['C10']['text'] += ' For the geometric / harmonic wrappers the region tables of C05 (an interval exactly on the positivity proviso, for every kind alike) are re-established and reported under C10 (wrapper-regions).'
CLAIMED['C16']['text'] += ' Exact scaling is claimed on the range where the form mean -/+ c*sqrt((S2 - mean*S1)/(n-1))/sqrt(n) stays finite: no intermediate of the code may grow faster in (data scale, sample size) than that form (scale-range).'

checks = []
for p in props:
    pid = p['id']
    if pid not in CLAIMED:
        continue
    c = CLAIMED[pid]
    checks.append({
        'property_id': pid,
        'quick_cmd': './check %s --tier quick' % pid,
        'thorough_cmd': './check %s --tier thorough' % pid,
        'evidence_file': '/verif/evidence/%s.json' % pid,
        'replay_cmd_template': './check %s --replay {path}' % pid,
        'engine': 'sa',
        'technique': 'static analysis: ' + c['tech'],
        'level_claimed': {'category': 'proof', 'text': c['text'], 'design_ref': 'DESIGN.md §' + c['ref']},
        'level_note': c['note'] + '; trusted base: rustc MIR + trait resolution, the driver serialisation, the external-callee model table (sa/models.py), the parametricity and fold-induction meta-arguments',
    })
NA = {
 'C12': 'a number computed from the binomial distribution over grids of n, p and levels: no clause is visible in the shape of the code beyond "the formula is Wilson\'s" (C02/C17) and "ranks are floor-of-Wilson" (C03); computing coverage is evaluation, not static analysis',
}
na = []
for p in props:
    if p['id'] in CLAIMED:
        continue
    na.append({'property_id': p['id'], 'reason': NA.get(p['id'], 'rule not built yet (in progress, DESIGN.md section 4)')})
m = {
 'version': 1,
 'setup_cmd': 'cd /verif && ./setup.sh',
 'hooks': {'guard': 'stats_ci_verif', 'enable': 'none needed: the analysis reads the compiler IR (MIR) of the unmodified sources; no hook commits exist',
           'baseline_off_cmd': 'cd /repo && cargo test --workspace --no-fail-fast --offline', 'source_commits': [], 'add_only': True},
 'engines': [
   {'name': 'sci-facts', 'path': 'driver/', 'serves_properties': sorted(CLAIMED), 'kind_free_text': 'rustc_private driver: MIR, resolved instances, items, format templates as JSON'},
   {'name': 'sa', 'path': 'sa/', 'serves_properties': sorted(CLAIMED), 'kind_free_text': 'path-sensitive MIR summaries, decision tables, normal forms, loop base/step refinement (Python stdlib)'},
 ],
 'checks': checks,
 'not_applicable': na,
 'notes': 'All checks are static: facts are re-extracted from /repo\'s working tree by the rustc driver on every run (cached by tree hash); no code of stats-ci is executed.',
}
json.dump(m, open(os.path.join(V, 'MANIFEST.json'), 'w'), indent=1)
print('claimed', len(checks), 'n/a', len(na))
