#!/usr/bin/env python3
"""Regenerates /verif/MANIFEST.json from the table below (kept next to the rules)."""
import json, os
V = os.path.dirname(os.path.dirname(os.path.abspath(__file__)))
props = [json.loads(l) for l in open(os.path.join(V, 'properties.jsonl'))]

CLAIMED = {
 'C01': dict(tech='MIR path summaries + rational-function normal form + loop base/step refinement',
   text='Proof by formula identity on the type-checked program: the MIR-derived summaries of Arithmetic::ci_mean / ci (inherent, StatisticsOps and MeanCI forms) are pruned on the domain by sign certificates and their bounds are shown equal, as rational functions with sqrt and quantile atoms, to mean -/+ c*s/sqrt(n) with the t(n-1) / normal quantile at q; the data loop is proved a fold of append by base/step refinement to (S1,S2,n). Covers all samples, sizes, levels and kinds at once in real-number semantics.',
   note='floats treated as reals (rounding magnitude and conditioning undecided); statrs inverse_cdf trusted to be the quantile function; usize overflow asserts assumed; n >= 2, level in (0,1)', ref='4/C01'),
 'C07': dict(tech='exhaustive decision tables over variant tuples x weak orders (parametricity)',
   text='Exhaustive proof over the finite abstract domain: contains/intersects/includes/is_included_in and the RangeBounds view are compared with the set semantics on every kind combination and every weak order of the bounds (and probe); by parametricity of safe generic code this covers every totally ordered element type and value.',
   note='total orders only (NaN outside the quantifier); model table for comparison operators on references', ref='4/C07'),
 'C13': dict(tech='decision tables over kinds x orderings x sign of the scalar (ordered-field axioms)',
   text='Exhaustive table proof: for each scalar operator the result is the image set (kind, which input bound each output bound is the image of, well-formedness) on every kind, ordering of the bounds and sign class of the scalar, using only monotonicity axioms of an ordered field; interval-interval + / - and relative_to are compared per kind pair with the expected bound expressions or the documented panic.',
   note='A*0 for one-sided A outside the quantifier; relative_to bound placement relies on the cited monotonicity of (x-r)/r', ref='4/C13'),
 'C14': dict(tech='decision tables + who-may-construct inventory + summary composition',
   text='Exhaustive tables for the four fallible constructors/conversions (Ok exactly for ordered bounds, documented errors otherwise), every accessor, projection and tuple/option/range conversion on every kind, round trips by composing summaries, kind predicates / is_degenerate / width, Clone identity and the Hash write sequence; plus an inventory rule that the two-sided variant is only built by the checked constructor, clones and arithmetic.',
   note='ordered element types; derived PartialEq decided under C15', ref='4/C14'),
 'C15': dict(tech='decision table of partial_cmp + order axioms on the complete 6-chain table',
   text='Exhaustive: the partial_cmp/eq decision tables equal the table fixed by the statement on every kind pair and weak order; the axioms (Equal iff ==, Less iff separated, antisymmetry, transitivity, incomparability) are then checked on all pairs/triples of the 33 abstract intervals of a 6-point chain, which realises every relative position of up to six bounds.',
   note='total orders only', ref='4/C15'),
 'C18': dict(tech='IEEE partition of the level at the compared constants + variant tables',
   text='Exhaustive over the cells NaN | -inf | (-inf,0) | {0} | (0,1) | {1} | (1,inf) | +inf (refined at every constant the code compares with): constructors return the right variant exactly on (0,1) and panic elsewhere, TryFrom returns InvalidConfidenceLevel there; tables for level/percent/kind/is_*/flipped/partial_cmp/eq over the three public variants.',
   note='public enum variants can be built directly (outside the quantifier)', ref='4/C18'),
 'C19': dict(tech='boolean tables over opaque element relations + format_args templates joined with MIR argument order',
   text='Exhaustive: each approx impl, as a boolean function of the element relation on corresponding bounds (all truth assignments x 9 kind pairs), is the bound-wise conjunction with the tolerances passed through and false for mixed kinds; the three Display templates are exactly the canonical strings with plain Display placeholders bound to (low, high) in order.',
   note='reflexivity/symmetry inherited from the approx contract on floats', ref='4/C19'),
 'C20': dict(tech='compiler as checker over the feature matrix + derive-closure over the item graph',
   text='Each advertised feature set must type-check through the fact extractor (rustc is the decision procedure); under serde every type reachable through the fields of the public state types must have both derived serde impls and no data-dropping field attribute, which makes a round trip the field-wise identity.',
   note='losslessness of a concrete serialisation format on floats is a property of the serialiser', ref='4/C20'),
}

checks = []
for p in props:
    pid = p['id']
    if pid not in CLAIMED:
        continue
    c = CLAIMED[pid]
    checks.append({
        'property_id': pid,
        'quick_cmd': './check %s --tier quick' % pid,
        'thorough_cmd': './check %s --tier thorough' % pid,
        'evidence_file': '/verif/evidence/%s.json' % pid,
        'replay_cmd_template': './check %s --replay {path}' % pid,
        'engine': 'sa',
        'technique': 'static analysis: ' + c['tech'],
        'level_claimed': {'category': 'proof', 'text': c['text'], 'design_ref': 'DESIGN.md §' + c['ref']},
        'level_note': c['note'] + '; trusted base: rustc MIR + trait resolution, the driver serialisation, the external-callee model table (sa/models.py), the parametricity and fold-induction meta-arguments',
    })
NA = {
 'C12': 'a number computed from the binomial distribution over grids of n, p and levels: no clause is visible in the shape of the code beyond "the formula is Wilson\'s" (C02/C17) and "ranks are floor-of-Wilson" (C03); computing coverage is evaluation, not static analysis',
}
na = []
for p in props:
    if p['id'] in CLAIMED:
        continue
    na.append({'property_id': p['id'], 'reason': NA.get(p['id'], 'rule not built yet (in progress, DESIGN.md section 4)')})
m = {
 'version': 1,
 'setup_cmd': 'cd /verif && ./setup.sh',
 'hooks': {'guard': 'stats_ci_verif', 'enable': 'none needed: the analysis reads the compiler IR (MIR) of the unmodified sources; no hook commits exist',
           'baseline_off_cmd': 'cd /repo && cargo test --workspace --no-fail-fast --offline', 'source_commits': [], 'add_only': True},
 'engines': [
   {'name': 'sci-facts', 'path': 'driver/', 'serves_properties': sorted(CLAIMED), 'kind_free_text': 'rustc_private driver: MIR, resolved instances, items, format templates as JSON'},
   {'name': 'sa', 'path': 'sa/', 'serves_properties': sorted(CLAIMED), 'kind_free_text': 'path-sensitive MIR summaries, decision tables, normal forms, loop base/step refinement (Python stdlib)'},
 ],
 'checks': checks,
 'not_applicable': na,
 'notes': 'All checks are static: facts are re-extracted from /repo\'s working tree by the rustc driver on every run (cached by tree hash); no code of stats-ci is executed.',
}
json.dump(m, open(os.path.join(V, 'MANIFEST.json'), 'w'), indent=1)
print('claimed', len(checks), 'n/a', len(na))
