import sys
sys.path.insert(0,'/verif')
from sa.scratch import Scratch
from sa import core, terms as T
from sa.symex import Summarizer
SRC = open('/verif/tools/modeltest/zz_models.rs').read()
sc=Scratch()
open(sc.dir+'/src/zz_models.rs','w').write(SRC)
lib=open(sc.dir+'/src/lib.rs').read()
open(sc.dir+'/src/lib.rs','w').write(lib+'\npub mod zz_models;\n')
try:
    facts=core.get_facts('default', repo=sc.dir)
    for f in facts.raw['fns']:
        if f['path'].startswith('zz_models::') and f['kind']=='Fn':
            sx=Summarizer(facts)
            try:
                paths=sx.summarize(f['id'])
            except Exception as e:
                print(f['path'],'EXC',repr(e)[:300]); continue
            print('==',f['path'])
            for p in paths:
                g=[('' if pol else '!')+T.show(a) for a,pol in p.guard]
                print('   ',g,'->',T.show(p.ret) if p.is_ret() else ('PANIC' if p.is_panic() else p.outcome), [u[0] for u in p.unknowns])
except core.FactsUnavailable as e:
    print(e.log[-3000:])
finally:
    sc.cleanup()
