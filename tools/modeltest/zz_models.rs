#![allow(dead_code)]
use core::cmp::Ordering;
pub fn t_filter(x: Option<usize>) -> Option<usize> { x.filter(|v| *v > 3) }
pub fn t_or(x: Option<usize>, y: Option<usize>) -> Option<usize> { x.or(y) }
pub fn t_or_else(x: Option<usize>) -> Option<usize> { x.or_else(|| Some(7)) }
pub fn t_map_or_else(x: Option<usize>) -> usize { x.map_or_else(|| 1, |v| v + 2) }
pub fn t_is_some_and(x: Option<usize>) -> bool { x.is_some_and(|v| v > 3) }
pub fn t_unwrap_or_default(x: Option<usize>) -> usize { x.unwrap_or_default() }
pub fn t_res_unwrap_or(x: Result<usize, bool>) -> usize { x.unwrap_or(9) }
pub fn t_res_unwrap_or_else(x: Result<usize, usize>) -> usize { x.unwrap_or_else(|e| e + 1) }
pub fn t_res_map_or(x: Result<usize, bool>) -> usize { x.map_or(5, |v| v * 2) }
pub fn t_res_err(x: Result<usize, bool>) -> Option<bool> { x.err() }
pub fn t_then_some(b: bool, v: usize) -> Option<usize> { b.then_some(v) }
pub fn t_then(b: bool, v: usize) -> Option<usize> { b.then(|| v + 1) }
pub fn t_is_lt(a: f64, b: f64) -> bool { a.partial_cmp(&b).map_or(false, Ordering::is_lt) }
pub fn t_is_ge(a: f64, b: f64) -> bool { matches!(a.partial_cmp(&b), Some(o) if o.is_ge()) }
pub fn t_reverse(a: usize, b: usize) -> Ordering { a.cmp(&b).reverse() }
pub fn t_clamp(a: usize) -> usize { a.clamp(2, 10) }
pub fn t_swap(mut a: usize, mut b: usize) -> (usize, usize) { core::mem::swap(&mut a, &mut b); (a, b) }
pub fn t_replace(mut a: usize) -> (usize, usize) { let o = core::mem::replace(&mut a, 3); (o, a) }
pub fn t_fnitem(x: Option<f64>) -> f64 { x.unwrap_or_else(f64::default) }
pub fn t_ctor(x: Option<usize>) -> Option<Option<usize>> { x.map(Some) }
pub fn t_min(a: usize, b: usize) -> usize { core::cmp::min(a, b) }
pub fn t_arr_for_each(a: usize, b: usize) -> usize { let mut s = 0usize; [a, b].into_iter().for_each(|x| s = s.wrapping_sub(x)); s }
pub fn t_arr_map_find(a: usize, b: usize) -> Option<usize> { [a, b].into_iter().map(|x| x / 2).find(|&c| c < 2) }
pub fn t_arr_fold(a: f64, b: f64, c: f64) -> f64 { [a, b, c].into_iter().fold(1.0, |acc, x| acc * x) }
pub fn t_arr_try_fold(a: usize, b: usize) -> Option<usize> { [a, b].into_iter().try_fold(0usize, |acc, x| acc.checked_sub(x)) }
pub fn t_arr_any(a: f64, b: f64) -> bool { [a, b].into_iter().any(|x| x < 0.) }
pub fn t_arr_all(a: f64, b: f64) -> bool { [a, b].into_iter().all(|x| x < 0.) }
pub fn t_arr_enum(a: usize, b: usize) -> usize { let mut s = 0usize; for (i, x) in [a, b].into_iter().enumerate() { s = s.wrapping_sub(i.wrapping_sub(x)); } s }
pub fn t_arr_zip(a: usize, b: usize, c: usize) -> usize { let mut s = 0usize; [a, b].into_iter().zip([c]).for_each(|(x, y)| s = s.wrapping_sub(x.wrapping_sub(y))); s }
pub fn t_map_try_for_each(data: &[f64]) -> Result<(), f64> { data.into_iter().map(|x| *x * 2.).try_for_each(|v| if v < 0. { Err(v) } else { Ok(()) }) }
pub fn t_while_let_map(data: &[f64]) -> usize { let mut n = 0usize; let mut it = data.into_iter().map(|x| *x < 0.); while let Some(b) = it.next() { if b { n = n.wrapping_sub(1); } } n }
pub fn t_any_sym(data: &[f64]) -> bool { data.into_iter().any(|x| *x < 0.) }
pub fn t_opt_chain(a: Option<usize>, b: Option<usize>) -> usize { let mut s = 0usize; a.into_iter().chain(b).for_each(|x| s = s.wrapping_sub(x)); s }
pub fn t_opt_zip_all(a: Option<f64>, b: Option<f64>, c: Option<f64>, d: Option<f64>) -> bool { a.into_iter().chain(b).zip(c.into_iter().chain(d)).all(|(x, y)| x == y) }
pub fn t_filter_map(a: usize, b: usize) -> usize { let mut s = 0usize; [a, b].into_iter().enumerate().filter_map(|(i, x)| if x > 3 { Some(i) } else { None }).for_each(|i| s = s.wrapping_sub(i)); s }
pub fn t_by_ref_zip(a: [usize; 2], b: [usize; 1]) -> (Option<usize>, Option<usize>) { let mut ia = a.into_iter(); let mut ib = b.into_iter(); let ok = ia.by_ref().zip(ib.by_ref()).all(|(x, y)| x == y); let _ = ok; (ia.next(), ib.next()) }
fn apply_kind(x: f64, kind: fn(f64) -> Option<f64>) -> Option<f64> { (x > 0.).then_some(kind(x)).flatten() }
fn half(x: f64) -> Option<f64> { Some(x / 2.) }
pub fn t_fn_pointer(x: f64) -> Option<f64> { apply_kind(x, half) }
pub fn t_fn_pointer_ctor(x: f64) -> Option<f64> { apply_kind(x, Some) }
pub fn t_opt_cmp(a: Option<&f64>, b: &f64) -> bool { a <= Some(b) }
pub fn t_opt_gt(a: Option<&f64>, b: Option<&f64>) -> bool { PartialOrd::gt(&a, &b) }
pub fn t_clamp_if(index: usize, last: usize) -> usize { let mut i = index; if last < i { i = last; } i }
pub fn t_clamp_pair(a: usize, b: usize, last: usize) -> (usize, usize) { let mut x = a; if last < x { x = last; } let mut y = b; if last < y { y = last; } (x, y) }

// ---- std range `contains` (models added for round H)
pub fn range_incl(x: f64) -> bool {
    (0.0..=1.0).contains(&x)
}
pub fn range_excl(x: u32) -> bool {
    (3..7).contains(&x)
}
pub fn bound_pair(x: f64) -> bool {
    use core::ops::{Bound, RangeBounds};
    (Bound::Excluded(0.), Bound::Excluded(1.)).contains(&x)
}
const CLOSED_UNIT_T: core::ops::RangeInclusive<f64> = 0. ..=1.;
pub fn range_const(x: f64) -> bool {
    CLOSED_UNIT_T.contains(&x)
}
pub fn range_from(x: i32) -> bool {
    (5..).contains(&x)
}
pub fn range_to_incl(x: i32) -> bool {
    (..=5).contains(&x)
}
