#!/bin/bash
# usage: try_seed.sh <ABSOLUTE patch.diff> [props...]  -- applies the change to /repo, runs the quick checks (in parallel), undoes it
patch=$1; shift
props=${@:-C01 C02 C03 C04 C05 C06 C07 C08 C09 C10 C11 C13 C14 C15 C16 C17 C18 C19 C20}
case $patch in /*) ;; *) echo "need an absolute patch path"; exit 2;; esac
( cd /repo && git apply $patch ) || { echo "patch does not apply"; exit 2; }
cd /verif
out=$(mktemp -d /tmp/tryseed.XXXXXX)
first=$(echo $props | cut -d' ' -f1)
./check $first --tier quick > $out/$first.log 2>&1     # warms the fact cache once
echo $props | tr ' ' '\n' | grep -v "^$first$" | xargs -P 9 -I{} sh -c "VERIF_BUDGET_S=400 ./check {} --tier quick > $out/{}.log 2>&1"
git -C /repo checkout -- .
hits=""
for p in $props; do
  if grep -q "^VIOLATION" $out/$p.log; then
    hits="$hits $p"
    grep -E "^  - " $out/$p.log | head -2 | cut -c1-260
  fi
done
rm -rf $out
echo "CAUGHT BY:$hits"
