#!/bin/bash
# usage: try_seed.sh <patch.diff> [props...]  -- applies the change to /repo, runs the quick checks, undoes it
patch=$1; shift
props=${@:-C01 C02 C03 C04 C05 C06 C07 C08 C09 C10 C11 C13 C14 C15 C16 C17 C18 C19 C20}
cd /repo && git apply $patch || { echo "patch does not apply"; exit 2; }
cd /verif
hits=""
for p in $props; do
  out=$(./check $p --tier quick 2>&1)
  if echo "$out" | grep -q "^VIOLATION"; then
    hits="$hits $p"
    echo "$out" | grep -E "^  - " | head -2 | cut -c1-260
  fi
done
git -C /repo checkout -- .
echo "CAUGHT BY:$hits"
