#!/usr/bin/env python3
"""Regenerate sa/pubnames.json: public path -> definition path of every publicly nameable item of /repo's tree
(run on the pinned tree; the table lets sa/facts.py recognise items that later move between modules)."""
import json, sys
sys.path.insert(0, '/verif')
from sa.check import Ctx
ctx = Ctx('quick')
base = {}
for cfg in ('default', 'all'):
    f = ctx.facts(cfg)
    for e in f.raw['pubpaths']:
        base.setdefault(e['public'], e['def'])
json.dump(base, open('/verif/sa/pubnames.json', 'w'), indent=1, sort_keys=True)
print(len(base), 'public names')
