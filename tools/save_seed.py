#!/usr/bin/env python3
"""save_seed.py <id> <name> : copies /tmp/seed-out/<id>/ into /verif/seeded/<name>/ after running confirm + try."""
import json, os, shutil, subprocess, sys
sid, name = sys.argv[1], sys.argv[2]
pfx = os.environ.get('SEED_PREFIX', 'seed')
src = '/tmp/%s-out/%s' % (pfx, sid)
dst = '/verif/seeded/%s' % name
os.makedirs(dst, exist_ok=True)
conf = subprocess.run(['/verif/tools/confirm_seed.sh', sid], capture_output=True, text=True).stdout.strip().splitlines()[-1]
tr = subprocess.run(['/verif/tools/try_seed.sh', src + '/patch.diff'], capture_output=True, text=True).stdout
caught = [l for l in tr.splitlines() if l.startswith('CAUGHT BY:')][-1].replace('CAUGHT BY:', '').split()
first = [l.strip()[:300] for l in tr.splitlines() if l.startswith('  - ')][:6]
shutil.copy(src + '/patch.diff', dst + '/patch.diff')
shutil.copy(src + '/seed_demo.rs', dst + '/seed_demo.rs')
meta = json.load(open(src + '/meta.json'))
meta['origin'] = 'independent sub-agent given only the property text and a scratch worktree of /repo (nothing from /verif)'
meta['confirmed_by_me'] = conf
meta['what_i_ran'] = ['tools/confirm_seed.sh %s  (suite with change; demo with change; demo without change)' % sid,
                      'tools/try_seed.sh seeded/%s/patch.diff  (git -C /repo apply; ./check Cxx --tier quick for all properties; git -C /repo checkout -- .)' % name]
meta['caught_by'] = caught
meta['first_reports'] = first
json.dump(meta, open(dst + '/meta.json', 'w'), indent=1)
print(name, 'caught by', caught, '|', conf[:160])
