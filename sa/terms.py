"""Term algebra shared by the summariser, the normal forms and the rule modules.

Terms are immutable nested tuples:
  ('sym', name)                      symbolic input / havocked loop state / fresh element
  ('int', n) ('flt', Fraction|'inf'|'-inf'|'nan') ('bool', b) ('str', s) ('unit',)
  ('adt', path, variant_index, fields)   enum / struct value
  ('tuple', elems)
  ('ref', cell, path)                pointer to a place
  ('closure', def_id, inst_id, upvars)
  ('fn', path)                       function item
  ('op', name, args)                 arithmetic / comparison / float function
  ('call', name, args)               opaque (pure) external call
  ('unknown', why)
"""
from fractions import Fraction

UNIT = ('unit',)
TRUE = ('bool', True)
FALSE = ('bool', False)


def sym(name):
    return ('sym', name)


def mk_int(n):
    return ('int', int(n))


def mk_flt(x):
    return ('flt', x)


# The value of an *auxiliary* field of a state type (a field that no observation accessor of the type reads, see
# sa/layout.py): it stands for "some value that depends only on auxiliary data".  Everything computed from it is
# auxiliary again; if it ever reaches a decided output the output term contains AUX and matches no reference.
AUX = ('sym', '@aux')


def has_aux(t):
    if t == AUX:
        return True
    if not isinstance(t, tuple) or not t:
        return False
    k = t[0]
    if k == 'op' or k == 'call':
        return any(has_aux(a) for a in t[2])
    if k == 'adt':
        return any(has_aux(a) for a in t[3])
    if k == 'tuple':
        return any(has_aux(a) for a in t[1])
    return False


def op(name, *args):
    if name != 'ref' and any(a == AUX for a in args):
        return AUX
    return simplify_op(name, tuple(args))


def is_const(t):
    return t[0] in ('int', 'flt', 'bool', 'str', 'unit')


CMP_NEG = {'lt': 'ge', 'ge': 'lt', 'le': 'gt', 'gt': 'le', 'eq': 'ne', 'ne': 'eq'}
CMP_SWAP = {'lt': 'gt', 'gt': 'lt', 'le': 'ge', 'ge': 'le', 'eq': 'eq', 'ne': 'ne'}


def const_num(t):
    """Numeric value of a constant term as Fraction / special string, else None."""
    if t[0] == 'int':
        return Fraction(t[1])
    if t[0] == 'flt':
        return t[1]
    if t[0] == 'op' and t[1] in ('i2f', 'f2f', 'i2i') and len(t[2]) == 1:
        return const_num(t[2][0])
    return None


def _cmp_consts(name, a, b):
    if a == 'nan' or b == 'nan':
        return name == 'ne'
    conv = {'inf': float('inf'), '-inf': float('-inf')}
    a = conv.get(a, a) if isinstance(a, str) else a
    b = conv.get(b, b) if isinstance(b, str) else b
    return {'lt': a < b, 'le': a <= b, 'gt': a > b, 'ge': a >= b, 'eq': a == b, 'ne': a != b}[name]


def simplify_op(name, args):
    """Local, semantics-preserving simplifications (constant folding on exact rationals,
    double negation).  Nothing here assumes a property of the program."""
    if name == 'not':
        (a,) = args
        if a[0] == 'bool':
            return ('bool', not a[1])
        if a[0] == 'op' and a[1] == 'not':
            return a[2][0]
        return ('op', 'not', args)
    if name in CMP_NEG and len(args) == 2:
        a, b = const_num(args[0]), const_num(args[1])
        if a is not None and b is not None and args[0][0] != 'op' and args[1][0] != 'op':
            return ('bool', _cmp_consts(name, a, b))
        if args[0][0] == 'bool' and args[1][0] == 'bool' and name in ('eq', 'ne'):
            return ('bool', (args[0][1] == args[1][1]) == (name == 'eq'))
        return ('op', name, args)
    if name in ('add', 'sub', 'mul') and args[0][0] == 'int' and args[1][0] == 'int':
        a, b = args[0][1], args[1][1]
        return ('int', a + b if name == 'add' else a - b if name == 'sub' else a * b)
    if name in ('add', 'sub', 'mul', 'div') and args[0][0] == 'flt' and args[1][0] == 'flt':
        a, b = args[0][1], args[1][1]
        if not isinstance(a, str) and not isinstance(b, str):
            if name == 'add':
                return ('flt', a + b)
            if name == 'sub':
                return ('flt', a - b)
            if name == 'mul':
                return ('flt', a * b)
            if name == 'div' and b != 0:
                return ('flt', a / b)
    if name == 'neg' and args[0][0] == 'flt' and not isinstance(args[0][1], str):
        return ('flt', -args[0][1])
    if name == 'neg' and args[0][0] == 'int':
        return ('int', -args[0][1])
    if name == 'i2f' and args[0][0] == 'int':
        return ('flt', Fraction(args[0][1]))
    if name == 'f2f' and args[0][0] == 'flt':
        return args[0]
    if name in ('is_nan', 'is_finite', 'is_infinite') and args[0][0] == 'flt':
        v = args[0][1]
        if name == 'is_nan':
            return ('bool', v == 'nan')
        if name == 'is_finite':
            return ('bool', not isinstance(v, str))
        return ('bool', v in ('inf', '-inf'))
    if name == 'and':
        a, b = args
        if a[0] == 'bool':
            return b if a[1] else FALSE
        if b[0] == 'bool':
            return a if b[1] else FALSE
    if name == 'or':
        a, b = args
        if a[0] == 'bool':
            return TRUE if a[1] else b
        if b[0] == 'bool':
            return TRUE if b[1] else a
    return ('op', name, args)


def walk(t, fn):
    """Pre-order traversal of a term; fn(sub) called on every sub-term."""
    fn(t)
    k = t[0]
    if k in ('op', 'call'):
        for a in t[2]:
            walk(a, fn)
    elif k == 'adt':
        for a in t[3]:
            walk(a, fn)
    elif k == 'tuple':
        for a in t[1]:
            walk(a, fn)
    elif k == 'closure':
        for a in t[3]:
            walk(a, fn)


def syms_of(t):
    out = set()

    def f(s):
        if s[0] == 'sym':
            out.add(s[1])
    walk(t, f)
    return out


def subst(t, mapping):
    """Replace sub-terms by `mapping` (dict term -> term), bottom-up, re-simplifying."""
    if t in mapping:
        return mapping[t]
    k = t[0]
    if k == 'op':
        return simplify_op(t[1], tuple(subst(a, mapping) for a in t[2]))
    if k == 'call':
        return ('call', t[1], tuple(subst(a, mapping) for a in t[2]))
    if k == 'adt':
        return ('adt', t[1], t[2], tuple(subst(a, mapping) for a in t[3]))
    if k == 'tuple':
        return ('tuple', tuple(subst(a, mapping) for a in t[1]))
    if k == 'closure':
        return ('closure', t[1], t[2], tuple(subst(a, mapping) for a in t[3]))
    return t


def show(t, depth=0):
    k = t[0]
    if k == 'sym':
        return t[1]
    if k == 'int':
        return str(t[1])
    if k == 'flt':
        v = t[1]
        if isinstance(v, str):
            return v
        return str(float(v)) if v.denominator != 1 else '%d.0' % v.numerator
    if k == 'bool':
        return 'true' if t[1] else 'false'
    if k == 'str':
        return repr(t[1])
    if k == 'unit':
        return '()'
    if k == 'adt':
        name = t[1].split('::')[-1]
        vn = t[4] if len(t) > 4 else None
        head = '%s#%d' % (name, t[2])
        if not t[3]:
            return head
        return head + '(' + ', '.join(show(a, depth + 1) for a in t[3]) + ')'
    if k == 'tuple':
        return '(' + ', '.join(show(a, depth + 1) for a in t[1]) + ')'
    if k == 'ref':
        return '&%s%s' % (t[1], ''.join('.' + str(p) for p in t[2]))
    if k == 'closure':
        return 'closure#%s[%s]' % (t[1], ', '.join(show(a, depth + 1) for a in t[3]))
    if k == 'fn':
        return 'fn ' + t[1]
    if k == 'op':
        infix = {'add': '+', 'sub': '-', 'mul': '*', 'div': '/', 'lt': '<', 'le': '<=', 'gt': '>',
                 'ge': '>=', 'eq': '==', 'ne': '!=', 'and': '&&', 'or': '||'}
        if t[1] in infix and len(t[2]) == 2:
            return '(%s %s %s)' % (show(t[2][0], depth + 1), infix[t[1]], show(t[2][1], depth + 1))
        return '%s(%s)' % (t[1], ', '.join(show(a, depth + 1) for a in t[2]))
    if k == 'call':
        return '%s(%s)' % (t[1], ', '.join(show(a, depth + 1) for a in t[2]))
    if k == 'unknown':
        return '?<%s>' % (t[1],)
    return repr(t)
