"""Table rule runner shared by the E5 properties."""
from . import terms as T
from .symex import Summarizer, Unsupported
from .order import eval_term, guard_holds, NotParametric
from .ivl import describe_env

KIND_NAMES = {'two': 'TwoSided', 'upper': 'UpperOneSided', 'lower': 'LowerOneSided'}


def kinds_str(kinds):
    return '(' + ','.join(KIND_NAMES[k] for k in kinds) + ')'


def summarize(facts, fn, names, args=None, real=True):
    sx = Summarizer(facts, assume_no_overflow=real)
    paths = sx.summarize(fn['id'], args=args, arg_names=names)
    return sx, paths


def table_check(chk, pid, facts, model, fn, name, bases, extra, reference, decode=None, rule='E5-table'):
    """Compare the code's outcome with `reference(kinds, env)` on every abstract class.
    reference returns the expected value, or ('panic',) for a documented panic.
    decode(value, env) maps the evaluated return value to the comparable form."""
    where = facts.loc(fn['id'])
    try:
        sx, paths = summarize(facts, fn, list(bases) + list(extra))
    except Unsupported as e:
        chk.ob('%s:%s:analysable' % (pid, name), rule, '%s is inside the analysable fragment' % name, None,
               'construct outside the fragment: %s' % e, where)
        return
    chk.saw(facts, fn, paths=len(paths))
    unknown = [p for p in paths if p.unknowns]
    per = {}
    for kinds, variants, env in model.classes(bases, extra):
        rec = per.setdefault(kinds, {'n': 0, 'bad': [], 'und': []})
        rec['n'] += 1
        try:
            hits = [p for p in paths if guard_holds(p.guard, variants, env)]
            if not hits:
                rec['und'].append('no path covers class %s' % describe_env(env))
                continue
            outs = set()
            for p in hits:
                if p.unknowns:
                    raise NotParametric('unmodelled callee %s' % (p.unknowns[0][0],))
                if p.is_panic():
                    outs.add(('panic',))
                else:
                    v = eval_term(p.ret, env)
                    outs.add(decode(v, env) if decode else v)
            if len(outs) != 1:
                rec['und'].append('non-deterministic summary in class %s: %r' % (describe_env(env), outs))
                continue
            got = outs.pop()
        except NotParametric as e:
            rec['und'].append('%s (class %s)' % (e, describe_env(env)))
            continue
        want = reference(kinds, env)
        if got != want:
            rec['bad'].append((describe_env(env), got, want))
    for kinds, rec in per.items():
        key = '%s:%s:%s' % (pid, name, kinds_str(kinds))
        desc = '%s on %s agrees with the set semantics in all %d orderings of the bounds' % (name, kinds_str(kinds), rec['n'])
        if rec['und']:
            chk.ob(key, rule, desc, None, 'undecided: ' + rec['und'][0], where)
        elif rec['bad']:
            o, got, want = rec['bad'][0]
            chk.ob(key, rule, desc, False,
                   '%d of %d orderings disagree; e.g. with %s the code returns %s, the denoted sets give %s'
                   % (len(rec['bad']), rec['n'], o, show_val(got), show_val(want)), where)
        else:
            chk.ob(key, rule, desc, True, '', where,
                   sample={'function': name, 'kinds': kinds_str(kinds), 'orderings': rec['n'], 'verdict': 'agree'})
    return paths


def show_val(v):
    if isinstance(v, tuple) and v and isinstance(v[0], str) and v[0] in ('adt', 'tuple', 'op', 'sym', 'int', 'flt', 'bool', 'unit', 'call', 'str'):
        try:
            return T.show(v)
        except Exception:
            return repr(v)
    return repr(v)
