"""Shared pieces for the mean / comparison interval producers (C01, C04, C05, C06, C10, C16)."""
from fractions import Fraction

from . import terms as T
from .ivl import IvlModel
from .nf import NotReal
from .realmode import Domain, prune, quantile_hook
from .statsmodel import StatsModel, by_ref
from .symex import Unsupported
from .types import RESULT

KINDS = [('two', 'TwoSided'), ('upper', 'UpperOneSided'), ('lower', 'LowerOneSided')]
F0 = T.mk_flt(Fraction(0))
F1 = T.mk_flt(Fraction(1))
F2 = T.mk_flt(Fraction(2))
HALF = T.mk_flt(Fraction(1, 2))


V = T.sym('v')
V_RANGE = (Fraction(0), None, False, True)


def s2_from_variance(s1, v, n):
    """S2 = (n-1) v + S1^2/n: statistics and intervals are decided on states parametrised by (S1, v, n) - a bijection
    with (S1, S2) for n >= 2, and v >= 0 is Cauchy-Schwarz for real data - so that a guard on the sign of the computed
    variance (a clamp of the one-pass formula at zero) is decidable on the domain."""
    fn = T.op('i2f', n)
    return T.op('add', T.op('mul', T.op('sub', fn, F1), v), T.op('div', T.op('mul', s1, s1), fn))


class ConfModel:
    """Confidence: public enum with public variants (names are API)."""

    def __init__(self, facts):
        c = [a for a in facts.raw['adts'] if a['path'].split('::')[-1] == 'Confidence' and a['exported']]
        self.adt = c[0] if len(c) == 1 else None
        self.ok = False
        if self.adt:
            self.path = self.adt['path']
            self.vidx = {v['name']: i for i, v in enumerate(self.adt['variants'])}
            self.ok = all(n in self.vidx for _, n in KINDS) and len(self.adt['variants']) == 3

    def value(self, kind, level):
        name = dict(KINDS)[kind]
        return ('adt', self.path, self.vidx[name], (level,))

    def quantile(self, kind, level):
        """q of the statement: (1+L)/2 two-sided, L one-sided."""
        if kind == 'two':
            return T.op('div', T.op('add', F1, level), F2)
        return level


class SubstPath:
    """A path with a substitution applied to its guard and result (e.g. havocked fold state
    -> (S1, S2, n))."""

    def __init__(self, p, subst):
        self.guard = [((a if a[0] == 'variant' else T.subst(a, subst)), pol) for a, pol in p.guard]
        self.ret = T.subst(p.ret, subst) if p.ret is not None else None
        self.outcome = p.outcome
        self.unknowns = p.unknowns
        # the assumed-away overflow flags speak about the same values as the guard
        self.events = [(e[0], T.subst(e[1], subst), e[2]) if e[0] == 'no_overflow' else e for e in p.events]
        self.effects = p.effects
        self.loops = p.loops

    def is_ret(self):
        return self.outcome[0] == 'ret'

    def is_panic(self):
        return self.outcome[0] == 'panic'


def student_t(dof):
    return ('adt', 'statrs::StudentsT', 0, (F0, F1, dof))


NORMAL = ('adt', 'statrs::Normal', 0, (F0, F1))


def crit(dist, q):
    return ('call', 'inverse_cdf', (dist, q))


def unwrap_ok(v):
    if v[0] == 'adt' and v[1] == RESULT and v[2] == 0:
        return v[3][0]
    return None


def threshold_literal(nf, residual, nu_term):
    """If the residual guard is exactly one comparison `nu < T` / `!(nu < T)` (any orientation)
    with a constant T, return (T, below: bool); else None."""
    if len(residual) != 1:
        return None
    atom, pol = residual[0]
    if atom[0] != 'op' or atom[1] not in ('lt', 'le') or len(atom[2]) != 2:
        return None
    a, b = atom[2]
    try:
        nu = nf.of_term(nu_term)
        ca, cb = T.const_num(a), T.const_num(b)
        if cb is not None and not isinstance(cb, str) and nf.equal(nf.of_term(a), nu):
            return (cb, pol)          # nu < T  is `pol`
        if ca is not None and not isinstance(ca, str) and nf.equal(nf.of_term(b), nu):
            return (ca, not pol)      # T < nu is `pol`  => below iff not pol
    except NotReal:
        return None
    return None


def undefined_quotients(dom, terms, strict=True):
    """Denominators that are not certified non-zero on the domain.  The normal-form identity treats a quotient as a
    rational function and cancels common factors; that is an identity of *values* only where every denominator the
    code actually divides by is non-zero.  `(va/vb + 1)^2 / ((va/vb)^2/(na+1) + 1/(nb+1))` is the documented dof as a
    rational function and 0/0 = NaN for a constant second sample.  Returns the shown denominators (de-duplicated)."""
    out, seen = [], set()

    def f(s):
        if s[0] == 'op' and s[1] == 'div' and len(s[2]) == 2:
            b = s[2][1]
            if b in seen:
                return
            seen.add(b)
            c = T.const_num(b)
            if c is not None and not isinstance(c, str) and c != 0:
                return
            try:
                sg = dom.sign(b)
            except (NotReal, KeyError, TypeError, ValueError):
                sg = None
            # strict: a denominator without a certificate is reported too (fail closed); otherwise only one whose
            # certificate says that zero is attained on the closure of the box (the box of C02 is not the accepted region)
            if sg not in ('+', '-') and (strict or sg is not None):
                out.append(T.show(b)[:200])
    for t in terms:
        if t is not None and not isinstance(t, int):
            T.walk(t, f)
    return out


def check_mean_interval(chk, pid, key, where, sm, im, cm, paths, kind, level, centre, se, nu, dom,
                        desc_prefix, subst=None, t_range=(50000, 200000), stat_atoms=None):
    """Obligation: on the domain the summary has exactly the t-path and the z-path, split by a
    constant threshold on nu in t_range, each returning Ok(kind-appropriate interval) with
    bounds centre -/+ c*se for c = inverse_cdf(StudentsT(0,1,nu) | Normal(0,1), q)."""
    nf = sm.nf
    if subst:
        paths = [SubstPath(p, subst) for p in paths]
        subst = None
    feas = prune(paths, dom)
    want_kind = kind
    q = cm.quantile(kind, level)
    seen = {}
    problems = []
    for p, residual in feas:
        if p.unknowns:
            problems.append('unmodelled callee %s' % p.unknowns[0][0])
            continue
        th = threshold_literal(nf, residual, nu)
        if th is None:
            problems.append('path with undecided guard %s -> %s' % ([('' if pol else '!') + T.show(a) for a, pol in residual][:3], p.outcome if p.is_panic() else 'ret'))
            continue
        tval, below = th
        if not (t_range[0] <= tval <= t_range[1]):
            problems.append('t/normal switch at nu = %s, outside "about 100 000"' % float(tval))
        if below in seen:
            problems.append('two paths on the same side of the threshold')
        seen[below] = p
    if not problems and set(seen) != {True, False}:
        problems.append('expected a Student-t path below and a normal path above the threshold, found sides %s' % sorted(seen))
    if problems:
        chk.ob(key, 'E3+E4 formula', desc_prefix, None, 'undecided: ' + '; '.join(problems[:3]), where)
        return False
    bad = []
    for below, p in seen.items():
        dist = student_t(nu) if below else NORMAL
        c = crit(dist, q)
        ref_lo = T.op('sub', centre, T.op('mul', c, se))
        ref_hi = T.op('add', centre, T.op('mul', c, se))
        if p.is_panic():
            bad.append('%s branch panics: %s' % ('t' if below else 'z', p.outcome))
            continue
        iv = unwrap_ok(p.ret)
        dec = im.decode(iv) if iv is not None else None
        if dec is None:
            bad.append('%s branch returns %s instead of Ok(interval)' % ('t' if below else 'z', T.show(p.ret)[:200]))
            continue
        gk, glo, ghi = dec
        if gk != want_kind:
            bad.append('%s branch returns a %s interval for %s confidence' % ('t' if below else 'z', gk, kind))
            continue
        for side, got, ref in (('lower', glo, ref_lo), ('upper', ghi, ref_hi)):
            if isinstance(got, int):
                continue  # the unbounded side
            try:
                if subst:
                    got = T.subst(got, subst)
                same = nf.term_equal(got, ref)
            except NotReal as e:
                bad.append('%s bound not a real formula: %s' % (side, e))
                continue
            if not same:
                bad.append('%s bound of the %s branch is %s, not %s' % (side, 't' if below else 'z', T.show(got)[:260], T.show(ref)[:200]))
    if not bad:
        # the identity above holds where the quotients of the *code* are defined: every denominator on the two accepted
        # paths (results and guards) must be certified non-zero on the domain
        terms = []
        for below, p in seen.items():
            terms.append(p.ret)
            terms.extend(a for a, _ in p.guard if a[0] != 'variant')
        undef = undefined_quotients(dom, terms)
        chk.ob(key + ':div-domain', 'E4 domain of definition', desc_prefix + ' - every quotient the code forms on the accepted paths has a denominator that is non-zero on the whole domain (the rational-function identity is an identity of values only there)',
               not undef, '' if not undef else 'the code divides by %s, which can vanish on the domain (0/0 or x/0: NaN / inf where the documented form is an ordinary number)' % undef[0], where)
    chk.ob(key, 'E3+E4 formula', desc_prefix, not bad, '; '.join(bad[:2]), where,
           sample={'obligation': key, 'centre': T.show(centre)[:80], 'se': T.show(se)[:120], 'nu': T.show(nu)[:60], 'q': T.show(q)})
    if not bad:
        # dynamic range: every intermediate of the code must be dominated, in its growth orders (data scale, sample size),
        # by an intermediate of the documented form - else it overflows for inputs whose documented result is ordinary
        from .degree import growth_points, undominated
        keys = {}
        for ref_t, nm in (stat_atoms or []):
            try:
                keys[nf.key(nf.of_term(ref_t))] = T.sym(nm)
            except NotReal:
                pass
        kmemo = {}

        def recognise(u):
            if not keys:
                return None
            if u not in kmemo:
                try:
                    kmemo[u] = keys.get(nf.key(nf.of_term(u)))
                except (NotReal, Unsupported, KeyError, TypeError, ValueError):
                    kmemo[u] = None
            return kmemo[u]
        worst = None
        for below, p in seen.items():
            dec = im.decode(unwrap_ok(p.ret))
            c = crit(student_t(nu) if below else NORMAL, q)
            for got, ref in ((dec[1], T.op('sub', centre, T.op('mul', c, se))), (dec[2], T.op('add', centre, T.op('mul', c, se)))):
                if isinstance(got, int):
                    continue
                extra = undominated(growth_points(got, recognise), growth_points(ref, recognise))
                if extra:
                    worst = extra
        chk.ob(key + ':range', 'E9 growth orders', desc_prefix + ' - every intermediate is dominated in its growth orders (data scale, sample size) by one of the documented form',
               worst is None, '' if worst is None else 'intermediates of growth (data^a, n^b) with (a, b) in %s are not dominated by any intermediate of the documented form' % [tuple(str(x) for x in w) for w in worst[:3]], where)
    return not bad


def tz_paths(nf, paths, dom, nu):
    """Split the feasible paths of a mean/comparison producer into the Student-t path
    (nu below the constant threshold) and the normal path; raises Unsupported otherwise."""
    out = {}
    for p, residual in prune(paths, dom):
        if p.unknowns:
            raise Unsupported('unmodelled callee %s' % p.unknowns[0][0])
        th = threshold_literal(nf, residual, nu)
        if th is None:
            raise Unsupported('undecided guard %s' % [T.show(a)[:80] for a, _ in residual][:2])
        if th[1] in out:
            raise Unsupported('two paths on one side of the threshold')
        out[th[1]] = p
    if set(out) != {True, False}:
        raise Unsupported('expected a t path and a normal path, got %s' % sorted(out))
    return out


def crit_atoms(term):
    """All inverse_cdf call sub-terms of a term."""
    out = []
    T.walk(term, lambda t: out.append(t) if (t[0] == 'call' and t[1] == 'inverse_cdf') else None)
    return out


class nonneg_crit:
    """Context manager: declare the critical value z = inverse_cdf(dist(0,..), q) non-negative for the
    normal form (valid for two-sided confidence, q = (1+L)/2 > 1/2; contract of a zero-location
    symmetric distribution), so that sqrt(z^2 * P) and z * sqrt(P) are recognised as equal there."""

    def __init__(self, nf, z_term, on=True):
        self.nf, self.on = nf, on
        self.atoms = []
        if on:
            rf = nf.of_term(z_term)
            for m in rf.num:
                for a, e in m:
                    self.atoms.append(a)

    def __enter__(self):
        self.added = [a for a in self.atoms if a not in self.nf.nonneg]
        for a in self.added:
            self.nf.nonneg.add(a)
        return self

    def __exit__(self, *a):
        for a_ in self.added:
            self.nf.nonneg.discard(a_)
