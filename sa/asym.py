"""Leading-order analysis of a code term in one regime (obligation `cancellation`, C02).

Two expressions that are equal over the reals can differ in floating point when one of them obtains a small result
as the difference of two large, nearly equal intermediates: `1 - ((n_f + z^2/2)/(n + z^2) - span)` is the upper Wilson
root over the reals, but for a rare event (k fixed, n large) it subtracts two numbers next to 1 to produce a number of
order k/n - the absolute error of one rounding (1e-16) becomes a relative error of 1e-16 * n/k, and for n = 1e18 the bound
is exactly 0 (seed C02-l).  Magnitudes of rounding errors are not decided by this framework; *leading-order
cancellation* is a property of the shape of the term and is.

Regime: one symbol N -> infinity, every other symbol a fixed positive constant.  Every sub-term gets (order, coeff):
value ~ coeff * N^order.  Sums take the larger order; when both operands of an add / sub have the *same* order and the
combined leading coefficient is identically zero (normal-form zero test), the node's true order is lower than its
operands' - a leading-order cancellation - and is reported.  The analysis then does not continue above that node
(its order is unknown without the next term of the expansion): `Cancel` carries the offending sub-term.
Opaque calls (a quantile) and symbols other than N are order-0 constants."""
from fractions import Fraction

from . import terms as T
from .nf import NotReal

F0 = T.mk_flt(Fraction(0))
F1 = T.mk_flt(Fraction(1))


class Cancel(Exception):
    def __init__(self, term, order):
        Exception.__init__(self, 'leading-order cancellation')
        self.term, self.order = term, order


class Outside(Exception):
    pass


def leading(nf, t, big, memo=None):
    """(order: Fraction, coeff: term) of t as the symbol named `big` tends to infinity."""
    memo = {} if memo is None else memo

    def is_zero(c):
        try:
            return nf.is_zero(nf.of_term(c))
        except (NotReal, KeyError, TypeError, ValueError):
            return False

    def go(u):
        if u in memo:
            return memo[u]
        k = u[0]
        if k == 'sym':
            r = (Fraction(1), F1) if u[1] == big else (Fraction(0), u)
        elif k == 'int':
            r = (Fraction(0), T.mk_flt(Fraction(u[1])))
        elif k == 'flt':
            if isinstance(u[1], str):
                raise Outside('non-finite constant')
            r = (Fraction(0), u)
        elif k == 'call':
            r = (Fraction(0), u)
        elif k == 'op':
            n, a = u[1], u[2]
            if n in ('zero',):
                r = (Fraction(0), F0)
            elif n in ('one',):
                r = (Fraction(0), F1)
            elif n in ('i2f', 'f2f', 'i2i'):
                r = go(a[0])
            elif n == 'neg':
                o, c = go(a[0])
                r = (o, T.op('neg', c))
            elif n in ('add', 'sub'):
                (o1, c1), (o2, c2) = go(a[0]), go(a[1])
                z1, z2 = is_zero(c1), is_zero(c2)
                if z1 and z2:
                    r = (Fraction(0), F0)
                elif z2 or (not z1 and o1 > o2):
                    r = (o1, c1)
                elif z1 or o2 > o1:
                    r = (o2, c2 if n == 'add' else T.op('neg', c2))
                else:
                    c = T.op(n, c1, c2)
                    if is_zero(c):
                        raise Cancel(u, o1)
                    r = (o1, c)
            elif n == 'mul':
                (o1, c1), (o2, c2) = go(a[0]), go(a[1])
                r = (o1 + o2, T.op('mul', c1, c2))
            elif n == 'div':
                (o1, c1), (o2, c2) = go(a[0]), go(a[1])
                if is_zero(c2):
                    raise Outside('division by a vanishing term')
                r = (o1 - o2, T.op('div', c1, c2))
            elif n == 'sqrt':
                o, c = go(a[0])
                r = (o / 2, T.op('sqrt', c))
            elif n == 'powi' and a[1][0] == 'int' and a[1][1] >= 0:
                o, c = go(a[0])
                cc = F1
                for _ in range(a[1][1]):
                    cc = T.op('mul', cc, c)
                r = (o * a[1][1], cc)
            else:
                raise Outside('operator %s' % n)
        else:
            raise Outside('term kind %s' % k)
        memo[u] = r
        return r
    return go(t)


def cancellations(nf, terms, big):
    """[(shown sub-term, order)] of the leading-order cancellations met in `terms` (each analysed on its own)."""
    out = []
    for t in terms:
        if t is None or isinstance(t, int):
            continue
        try:
            leading(nf, t, big)
        except Cancel as c:
            out.append((T.show(c.term)[:260], c.order))
        except Outside:
            pass
    return out
