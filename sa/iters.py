"""Structured iterator values (adapter chains) and one symbolic `next()` on them.

An iterator is either an opaque symbol (`iter#k`, the result of `into_iter` on an input: every
`next` yields a fresh element or exhaustion, recorded as a ('next', it, elem|None) event) or one of
the pseudo-ADTs below, which the models build for the std adapters so that the element that reaches
the consumer is *computed* from the base element instead of being forgotten:

  verif::iter::Array(elems, idx)      by-value array iterator (concrete: unrolled, never havocked)
  verif::iter::Map(base, f)           f applied to every base element
  verif::iter::Copied(base)           deref of every base element
  verif::iter::Zip(a, b)              pairs; ends when either side ends (a is polled first)
  verif::iter::Enumerate(base, n)     (n, elem), n counts up from its initial value
  verif::iter::Chain(a, b)            a, then b
  verif::iter::Filter(base, p) / FilterMap(base, f)   only over iterators of known length (each step may skip)
  verif::iter::Rev(base)              order reversed: kept opaque (order matters for float folds)

`step(sx, st, it, k)` performs one `next()`; the continuation k(st, elem|None, new_it) receives the
outcome in every resulting state and returns the list of states to continue with (it may push
frames).  Closures of adapters are run through the ordinary call machinery with a ('then', fn)
return continuation.
"""
from . import terms as T
from .symex import Unsupported

P = 'verif::iter::'


def mk(kind, *parts):
    return ('adt', P + kind, 0, tuple(parts))


def kind_of(v):
    if v[0] == 'adt' and isinstance(v[1], str) and v[1].startswith(P):
        return v[1][len(P):]
    return None


def is_concrete(it, sx=None, st=None):
    """an iterator whose remaining length is known (built from by-value arrays / Options), possibly behind
    references (by_ref) when a state is given"""
    n = 0
    while it[0] == 'ref' and sx is not None and st is not None and n < 8:
        it = sx.read_cell(st, it[1], it[2])
        n += 1
    k = kind_of(it)
    if k == 'Array':
        return True
    if k in ('Map', 'Copied', 'Enumerate', 'Filter', 'FilterMap'):
        return is_concrete(it[3][0], sx, st)
    if k in ('Zip', 'Chain'):
        return is_concrete(it[3][0], sx, st) and is_concrete(it[3][1], sx, st)
    return False


def closure_param_ty(sx, clo, st=None):
    cv = clo
    while cv[0] == 'ref' and st is not None:
        cv = sx.read_cell(st, cv[1], cv[2])
    while cv[0] == 'op' and cv[1] == 'ref':
        cv = cv[2][0]
    if cv[0] != 'closure' or cv[2] is None:
        return None
    insts = sx._insts_by_id[cv[2][0]]
    body = sx.facts.bodies[insts[cv[2][1]]['def']]
    if body['arg_count'] >= 2:
        return body['locals'][2]['ty'] if body['arg_count'] == 2 else None
    return None


def fresh_elem(sx, st, it, elem_ty):
    """a fresh element of an opaque iterator (by reference: a fresh cell behind a reference)"""
    e = sx.fresh('elem', elem_ty)
    if elem_ty is not None and elem_ty.get('k') == 'ref':
        cid = sx.new_heap(None, elem_ty.get('inner'))
        inner = sx.named(e[1] + '*', elem_ty.get('inner'))
        st.cells[cid] = inner
        return ('ref', cid, ()), inner
    return e, e


def step(sx, st, it, k, elem_ty=None):
    kind = kind_of(it)
    if kind is None:
        if it[0] == 'ref':
            # `&mut I` is an iterator that forwards to I (by_ref)
            inner = sx.read_cell(st, it[1], it[2])

            def k_ref(s, e, nit, it=it):
                sx.write_cell(s, it[1], it[2], nit)
                return k(s, e, it)
            return step(sx, st, inner, k_ref, elem_ty)
        if it[0] != 'sym':
            raise Unsupported('next() on %s' % T.show(it)[:80])
        out = []
        s_none = st.copy()
        s_none.events.append(('next', it, None))
        out.extend(k(s_none, None, it))
        ev, shown = fresh_elem(sx, st, it, elem_ty)
        st.events.append(('next', it, shown))
        nit = sx.fresh('iter', None)
        sx.symdef[nit[1]] = ('call', 'advance', (it,))
        out.extend(k(st, ev, nit))
        return out
    parts = it[3]
    if kind == 'Array':
        elems, idx = parts[0][1], parts[1][1]
        if idx >= len(elems):
            st.events.append(('next', it, None))
            return k(st, None, it)
        st.events.append(('next', it, elems[idx]))
        return k(st, elems[idx], mk('Array', parts[0], T.mk_int(idx + 1)))
    if kind == 'Copied':
        def k_c(s, e, nb):
            if e is None:
                return k(s, None, mk('Copied', nb))
            v = e
            if v[0] == 'ref':
                v = sx.read_cell(s, v[1], v[2])
            elif v[0] == 'op' and v[1] == 'ref':
                v = v[2][0]
            return k(s, v, mk('Copied', nb))
        ety = {'k': 'ref', 'inner': elem_ty, 's': '&' + (elem_ty or {}).get('s', '?')} if elem_ty is not None else None
        return step(sx, st, parts[0], k_c, ety)
    if kind == 'Map':
        base, f = parts

        def k_m(s, e, nb):
            if e is None:
                return k(s, None, mk('Map', nb, f))
            tmp = sx.new_heap(None, None)

            def then(sx_, s2, v):
                return k(s2, v, mk('Map', nb, f))
            r = sx.call_closure_value(s, s.frames[-1], f, ('tuple', (e,)), (tmp, ()), ('then', then))
            if r is None:
                raise Unsupported('map() with an opaque callable')
            return r
        return step(sx, st, base, k_m, closure_param_ty(sx, f, st))
    if kind == 'Zip':
        a, b = parts

        def k_a(s, x, na):
            if x is None:
                return k(s, None, mk('Zip', na, b))

            def k_b(s2, y, nb):
                if y is None:
                    return k(s2, None, mk('Zip', na, nb))
                return k(s2, ('tuple', (x, y)), mk('Zip', na, nb))
            eb = (elem_ty.get('elems') or [None, None])[1] if elem_ty and elem_ty.get('k') == 'tuple' else None
            return step(sx, s, b, k_b, eb)
        ea = (elem_ty.get('elems') or [None, None])[0] if elem_ty and elem_ty.get('k') == 'tuple' else None
        return step(sx, st, a, k_a, ea)
    if kind == 'Enumerate':
        base, n = parts

        def k_e(s, e, nb):
            if e is None:
                return k(s, None, mk('Enumerate', nb, n))
            return k(s, ('tuple', (n, e)), mk('Enumerate', nb, T.op('add', n, T.mk_int(1)) if n[0] != 'int' else T.mk_int(n[1] + 1)))
        ee = (elem_ty.get('elems') or [None, None])[1] if elem_ty and elem_ty.get('k') == 'tuple' else None
        return step(sx, st, base, k_e, ee)
    if kind == 'Chain':
        a, b = parts

        def k_ca(s, e, na):
            if e is not None:
                return k(s, e, mk('Chain', na, b))
            return step(sx, s, b, lambda s2, e2, nb: k(s2, e2, mk('Chain', na, nb)), elem_ty)
        return step(sx, st, a, k_ca, elem_ty)
    if kind in ('Filter', 'FilterMap'):
        base, f = parts
        if not is_concrete(base, sx, st):
            # skipping an unknown number of elements of an unknown sequence: not a single symbolic step
            raise Unsupported('%s over an iterator of unknown length' % kind.lower())

        def k_f(s, e, nb):
            if e is None:
                return k(s, None, mk(kind, nb, f))
            tmp = sx.new_heap(None, None)
            if kind == 'Filter':
                cid = sx.new_heap(None, None)
                s.cells[cid] = e
                argt = ('tuple', (('ref', cid, ()),))
            else:
                argt = ('tuple', (e,))

            def then(sx_, s2, v):
                out = []
                if kind == 'Filter':
                    for s3, b_ in sx.fork_bool(s2, v):
                        if b_:
                            out.extend(k(s3, e, mk(kind, nb, f)))
                        else:
                            out.extend(step(sx, s3, mk(kind, nb, f), k, elem_ty))
                else:
                    for s3, v3 in sx.models.expand_enum(s2, v):
                        if v3[2] == 1:
                            out.extend(k(s3, v3[3][0], mk(kind, nb, f)))
                        else:
                            out.extend(step(sx, s3, mk(kind, nb, f), k, elem_ty))
                return out
            r = sx.call_closure_value(s, s.frames[-1], f, argt, (tmp, ()), ('then', then))
            if r is None:
                raise Unsupported('%s with an opaque callable' % kind.lower())
            return r
        return step(sx, st, base, k_f, None)
    raise Unsupported('next() on iterator adapter %s' % kind)


def havoc(sx, rec, it, label='it'):
    """The same iterator after an unknown number of `next()` calls: opaque bases keep their identity
    (their position is not part of the value), counters become fresh non-negative integers."""
    kind = kind_of(it)
    if kind is None:
        return it
    parts = it[3]
    if kind == 'Array':
        # position unknown after some iterations of an enclosing loop: an opaque iterator (sound)
        s = sx.named('L%d.%s.array_iter' % (rec['id'], label), None)
        rec['havoc_syms'].append(s)
        return s
    if kind in ('Copied', 'Rev'):
        return mk(kind, havoc(sx, rec, parts[0], label))
    if kind == 'Map':
        return mk('Map', havoc(sx, rec, parts[0], label), parts[1])
    if kind == 'Zip':
        return mk('Zip', havoc(sx, rec, parts[0], label + '.a'), havoc(sx, rec, parts[1], label + '.b'))
    if kind == 'Chain':
        return mk('Chain', havoc(sx, rec, parts[0], label + '.a'), havoc(sx, rec, parts[1], label + '.b'))
    if kind == 'Enumerate':
        s = sx.named('L%d.%s.index' % (rec['id'], label), {'s': 'usize', 'k': 'usize'})
        rec['havoc_syms'].append(s)
        return mk('Enumerate', havoc(sx, rec, parts[0], label), s)
    raise Unsupported('havoc of iterator adapter %s' % kind)


def bases(it):
    """the opaque iterator symbols an adapter chain draws from"""
    kind = kind_of(it)
    if kind is None:
        return [it]
    if kind == 'Array':
        return []
    if kind in ('Zip', 'Chain'):
        return bases(it[3][0]) + bases(it[3][1])
    return bases(it[3][0])


def source(sx, it, recs=()):
    """The value `into_iter` was called on, following advance / copied / adapter / by_ref / loop-carried
    links; None when the chain does not end in exactly one input."""
    seen = 0
    while seen < 64:
        seen += 1
        while it[0] == 'op' and it[1] == 'ref':
            it = it[2][0]
        kind = kind_of(it)
        if kind is not None:
            bs = bases(it)
            if len(bs) != 1:
                return None
            it = bs[0]
            continue
        if it[0] != 'sym':
            return None
        d = sx.symdef.get(it[1])
        if d is not None and d[0] == 'call' and d[1] in ('advance', 'copied'):
            it = d[2][0]
            continue
        if d is not None and d[0] == 'call' and d[1] == 'into_iter':
            src = d[2][0]
            # into_iter of something that is itself an iterator (for x in it / zip(other))
            inner = src
            while inner[0] == 'op' and inner[1] == 'ref':
                inner = inner[2][0]
            if kind_of(inner) is not None or (inner[0] == 'sym' and sx.symdef.get(inner[1], (None, None))[0:2] in (('call', 'into_iter'), ('call', 'advance'), ('call', 'copied'))):
                it = inner
                continue
            return src
        # a loop-carried iterator: the havoc symbol of the cell that held it on entry
        hit = None
        for rec in recs:
            for c, v in (rec.get('cell_havoc') or {}).items():
                if v == it and c in (rec.get('cell_init') or {}):
                    hit = rec['cell_init'][c]
        if hit is None:
            return None
        it = hit
    return None
