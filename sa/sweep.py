"""Sweep: summarise every root and report unsupported / unknown constructs."""
import sys, time, collections
from .facts import Facts
from .symex import Summarizer, Unsupported
def main():
    facts=Facts(sys.argv[1])
    real='--real' in sys.argv
    bad=0; unk=collections.Counter(); t0=time.time(); npaths=0
    for f in facts.raw['fns']:
        if f['kind']=='Closure': continue
        sx=Summarizer(facts, assume_no_overflow=real)
        t=time.time()
        try:
            res=sx.summarize(f['id'])
        except Unsupported as e:
            print('UNSUPPORTED',f['path'],'--',e); bad+=1; continue
        except Exception as e:
            import traceback
            print('CRASH',f['path'],'--',repr(e)); traceback.print_exc(limit=4); bad+=1; continue
        npaths+=len(res)
        for r in res:
            for u in r.unknowns: unk[u[0]]+=1
        for k,v in sx.models.unmodelled.items(): unk['UNMODELLED '+k]+=v
        dt=time.time()-t
        if dt>2 or len(res)>200: print('SLOW',f['path'],len(res),'paths %.1fs'%dt)
    print('bad',bad,'paths',npaths,'time %.1f'%(time.time()-t0))
    for k,v in unk.most_common(): print(v,k)
main()
