"""Engine E4: normal forms for real-valued terms (rational functions over Q in atoms).

A term built from + - * / neg, int->float embeddings, sqrt/exp/ln and opaque calls is
rewritten to a pair (numerator, denominator) of polynomials over Q whose indeterminates are
*atoms*: input symbols, sqrt(P) for a polynomial P, exp/ln/abs/floor/round/min/max/opaque
calls with canonicalised arguments.  Equality is decided by cross-multiplication after the
rewrites  sqrt(P)^2 -> P,  sqrt(P)*sqrt(Q) -> sqrt(P*Q),  sqrt(m^2 * P) -> m*sqrt(P) for
monomials m in atoms declared non-negative.  This is sufficient (never claims equality of
unequal functions on the stated domain); it is not complete for arbitrary rewrites.
No solver is involved: everything is exact arithmetic on Fractions.
"""
from fractions import Fraction

from . import terms as T


class NotReal(Exception):
    pass


# ---------------------------------------------------------------------------------------
# polynomials: dict {monomial: Fraction}; monomial: tuple of (atom, exponent) sorted by repr

def _mono_key(m):
    return repr(m)


def p_const(c):
    c = Fraction(c)
    return {(): c} if c != 0 else {}


def p_atom(a):
    return {((a, 1),): Fraction(1)}


def p_add(a, b):
    out = dict(a)
    for m, c in b.items():
        v = out.get(m, 0) + c
        if v == 0:
            out.pop(m, None)
        else:
            out[m] = v
    return out


def p_neg(a):
    return {m: -c for m, c in a.items()}


def p_sub(a, b):
    return p_add(a, p_neg(b))


def m_mul(m1, m2):
    d = {}
    for a, e in m1:
        d[a] = d.get(a, 0) + e
    for a, e in m2:
        d[a] = d.get(a, 0) + e
    return tuple(sorted(((a, e) for a, e in d.items() if e != 0), key=lambda x: repr(x[0])))


def p_mul_raw(a, b):
    out = {}
    for m1, c1 in a.items():
        for m2, c2 in b.items():
            m = m_mul(m1, m2)
            v = out.get(m, 0) + c1 * c2
            if v == 0:
                out.pop(m, None)
            else:
                out[m] = v
    return out


def p_is_zero(a):
    return not a


def p_is_const(a):
    return all(m == () for m in a)


def p_key(a):
    return tuple(sorted(((m, c) for m, c in a.items()), key=lambda x: repr(x[0])))


class RF:
    """num / prod(factor^exp); unpacks / indexes as (numerator, expanded denominator)."""
    __slots__ = ('num', 'fac', '_den')

    def __init__(self, num, fac):
        self.num = num
        self.fac = fac
        self._den = None

    @property
    def den(self):
        if self._den is None:
            d = p_const(1)
            for k, e in self.fac.items():
                for _ in range(e):
                    d = p_mul_raw(d, dict(k))
            self._den = d
        return self._den

    def __iter__(self):
        yield self.num
        yield self.den

    def __getitem__(self, i):
        return (self.num, self.den)[i]

    def __len__(self):
        return 2


def exact_div(p, q):
    """p / q if q divides p exactly (multivariate division under a lex order), else None."""
    if not q:
        return None
    if p_is_const(q):
        c = q[()]
        return {m: v / c for m, v in p.items()}
    atoms = set()
    for poly in (p, q):
        for m in poly:
            for a, e in m:
                atoms.add(a)
    order = sorted(atoms, key=repr)
    idx = {a: i for i, a in enumerate(order)}

    def vec(m):
        v = [0] * len(order)
        for a, e in m:
            v[idx[a]] = e
        return tuple(v)

    def mono(v):
        return tuple(sorted(((order[i], e) for i, e in enumerate(v) if e), key=lambda x: repr(x[0])))
    pv = {vec(m): c for m, c in p.items()}
    qv = {vec(m): c for m, c in q.items()}
    lq = max(qv)
    cq = qv[lq]
    quo = {}
    steps = 0
    while pv:
        steps += 1
        if steps > 5000:
            return None
        lp = max(pv)
        d = tuple(a - b for a, b in zip(lp, lq))
        if any(x < 0 for x in d):
            return None
        c = pv[lp] / cq
        quo[d] = quo.get(d, 0) + c
        for mv, cv in qv.items():
            t = tuple(a + b for a, b in zip(mv, d))
            nv = pv.get(t, 0) - c * cv
            if nv == 0:
                pv.pop(t, None)
            else:
                pv[t] = nv
    return {mono(v): c for v, c in quo.items() if c != 0}


class Ctx:
    """Normal-form context: which atoms are known non-negative (for sqrt extraction)."""

    def __init__(self, nonneg=()):
        self.nonneg = set(nonneg)
        self.ranges = {}
        self.assumed_positive = set()

    # -------------------------------------------------------------- sqrt handling
    def reduce(self, p):
        """Apply sqrt(P)^2 -> P and merge products of distinct sqrt atoms, to a fixpoint."""
        for _ in range(20):
            changed = False
            out = {}
            for m, c in p.items():
                roots = [(a, e) for a, e in m if isinstance(a, tuple) and a and a[0] == 'sqrt']
                if not roots:
                    out = p_add(out, {m: c})
                    continue
                rest = tuple((a, e) for a, e in m if not (isinstance(a, tuple) and a and a[0] == 'sqrt'))
                acc = {rest: c}
                odd = []
                for a, e in roots:
                    inner = dict((mm, cc) for mm, cc in a[1])
                    if e < 0:
                        raise NotReal('negative power of sqrt atom')
                    for _i in range(e // 2):
                        acc = p_mul_raw(acc, inner)
                        changed = True
                    if e % 2:
                        odd.append(inner)
                if len(odd) > 1:
                    prod = odd[0]
                    for o in odd[1:]:
                        prod = p_mul_raw(prod, o)
                    changed = True
                    acc = p_mul_raw(acc, self.sqrt_poly(self.reduce(prod)))
                elif len(odd) == 1:
                    acc = p_mul_raw(acc, self.sqrt_poly(odd[0]))
                out = p_add(out, acc)
            p = out
            if not changed:
                break
        return p

    def sqrt_poly(self, p):
        """sqrt of a polynomial as a polynomial in a sqrt atom, extracting square content."""
        if not p:
            return {}
        if p_is_const(p):
            c = p[()]
            if c < 0:
                raise NotReal('sqrt of a negative constant')
            r = _frac_sqrt(c)
            if r is not None:
                return p_const(r)
        # monomial content: minimum exponent of every atom over all monomials
        monos = list(p.keys())
        common = None
        for m in monos:
            d = dict(m)
            if common is None:
                common = dict(d)
            else:
                for a in list(common):
                    common[a] = min(common[a], d.get(a, 0))
        ext = {}
        for a, e in (common or {}).items():
            if e >= 2 and (a in self.nonneg or (isinstance(a, tuple) and a and a[0] in ('sqrt', 'exp', 'abs'))):
                ext[a] = (e // 2)
        # numeric content: make the polynomial primitive w.r.t. a perfect-square rational factor
        coeffs = list(p.values())
        g = _content(coeffs)
        sq = _frac_sqrt(g) if g > 0 else None
        outer = p_const(1)
        inner = p
        if ext:
            div = tuple(sorted(((a, 2 * k) for a, k in ext.items()), key=lambda x: repr(x[0])))
            inner = {}
            for m, c in p.items():
                d = dict(m)
                for a, e in div:
                    d[a] -= e
                inner[tuple(sorted(((a, e) for a, e in d.items() if e), key=lambda x: repr(x[0])))] = c
            outer = {tuple(sorted(((a, k) for a, k in ext.items()), key=lambda x: repr(x[0]))): Fraction(1)}
        if sq is not None and sq != 1:
            inner = {m: c / g for m, c in inner.items()}
            outer = {m: c * sq for m, c in outer.items()}
        if p_is_const(inner) and inner.get((), 0) == 1:
            return outer
        return p_mul_raw(outer, p_atom(('sqrt', p_key(inner))))

    # -------------------------------------------------------------- rational functions
    # An RF is num / prod(factor^exp): the denominator is kept factored and every operation
    # cancels factors that divide the numerator exactly (multivariate exact division), so
    # fractions stay reduced without a general polynomial gcd.
    def rf(self, num, den=None):
        r = RF(self.reduce(num), {})
        if den is not None:
            r = self._with_den(r, self.reduce(den), 1)
        return self._cancel(r)

    def _split_factor(self, p):
        """constant * monomial * primitive remainder of a polynomial (for use as a factor)."""
        if not p:
            raise NotReal('zero denominator')
        common = None
        for m in p:
            d = dict(m)
            if common is None:
                common = dict(d)
            else:
                for a_ in list(common):
                    common[a_] = min(common[a_], d.get(a_, 0))
        common = {a_: e for a_, e in (common or {}).items() if e > 0}
        rest = {}
        for m, c in p.items():
            d = dict(m)
            for a_, e in common.items():
                d[a_] -= e
            rest[tuple(sorted(((a_, e) for a_, e in d.items() if e), key=lambda x: repr(x[0])))] = c
        # normalise the remainder: coefficient of the highest-degree monomial = 1, so that
        # factors such as n - 1, n + 1, n + z^2 are the positive ones on count-like atoms
        lead = sorted(rest.items(), key=lambda x: (sum(e for _, e in x[0]), repr(x[0])))[-1][1]
        rest = {m: c / lead for m, c in rest.items()}
        return lead, common, rest

    def _with_den(self, r, den, exp):
        """r / den^exp with den split into atomic factors."""
        lead, common, rest = self._split_factor(den)
        num = {m: c / (lead ** exp) for m, c in r.num.items()} if exp > 0 else {m: c * (lead ** (-exp)) for m, c in r.num.items()}
        fac = dict(r.fac)
        for a_, e in common.items():
            k = p_key(p_atom(a_))
            fac[k] = fac.get(k, 0) + e * exp
        if not (p_is_const(rest)):
            k = p_key(rest)
            fac[k] = fac.get(k, 0) + exp
        else:
            c = rest.get((), Fraction(1))
            if c != 1:
                num = {m: v / (c ** exp) for m, v in num.items()}
        return RF(num, {k: e for k, e in fac.items() if e != 0})

    def _cancel(self, r):
        num = r.num
        fac = dict(r.fac)
        # negative exponents: multiply into the numerator
        for k, e in list(fac.items()):
            if e < 0:
                f = dict(k)
                for _ in range(-e):
                    num = p_mul_raw(num, f)
                del fac[k]
        num = self.reduce(num)
        if not num:
            return RF({}, {})
        for k, e in list(fac.items()):
            f = dict(k)
            while e > 0:
                q = exact_div(num, f)
                if q is None:
                    break
                num = q
                e -= 1
            if e:
                fac[k] = e
            else:
                del fac[k]
        return RF(num, fac)

    def add(self, a, b):
        # common denominator: max exponents
        fac = dict(a.fac)
        for k, e in b.fac.items():
            fac[k] = max(fac.get(k, 0), e)

        def lift(x):
            n = x.num
            for k, e in fac.items():
                for _ in range(e - x.fac.get(k, 0)):
                    n = p_mul_raw(n, dict(k))
            return n
        return self._cancel(RF(self.reduce(p_add(lift(a), lift(b))), fac))

    def neg(self, a):
        return RF(p_neg(a.num), a.fac)

    def sub(self, a, b):
        return self.add(a, self.neg(b))

    def mul(self, a, b):
        fac = dict(a.fac)
        for k, e in b.fac.items():
            fac[k] = fac.get(k, 0) + e
        return self._cancel(RF(self.reduce(p_mul_raw(a.num, b.num)), fac))

    def div(self, a, b):
        if p_is_zero(b.num):
            raise NotReal('division by zero')
        r = RF(a.num, dict(a.fac))
        # multiply by b's denominator factors, divide by b's numerator
        num = r.num
        fac = dict(r.fac)
        for k, e in b.fac.items():
            fac[k] = fac.get(k, 0) - e
        r = RF(num, fac)
        r = self._with_den(r, b.num, 1)
        return self._cancel(r)

    def sqrt(self, a):
        # sqrt(N / prod f^e) = sqrt(N * prod f^(e mod 2)) / prod f^ceil(e/2)   (f > 0 on the domain)
        rad = a.num
        fac = {}
        for k, e in a.fac.items():
            if self.ranges:
                sf = _poly_sign(self, dict(k), self.ranges)
                if sf == '-':
                    raise NotReal('denominator factor negative on the domain under a square root')
                if sf != '+':
                    self.assumed_positive.add(k)
            if e % 2:
                rad = p_mul_raw(rad, dict(k))
            fac[k] = (e + 1) // 2
        rad = self.reduce(rad)
        return self._cancel(RF(self.reduce(self.sqrt_poly(rad)), fac))

    def equal(self, a, b):
        return self.is_zero(self.sub(a, b))

    def is_zero(self, a):
        return p_is_zero(self.reduce(a.num))

    def key(self, a):
        """Canonical key of a (reduced) rational function, for use inside atoms."""
        return ('rf', p_key(a.num), tuple(sorted(a.fac.items(), key=repr)))

    # -------------------------------------------------------------- terms -> rf
    def of_term(self, t):
        k = t[0]
        if k == 'int':
            return self.rf(p_const(t[1]))
        if k == 'flt':
            if isinstance(t[1], str):
                return self.rf(p_atom(('const', t[1])))
            return self.rf(p_const(t[1]))
        if k == 'sym':
            return self.rf(p_atom(t[1]))
        if k == 'bool':
            raise NotReal('boolean in arithmetic')
        if k == 'op':
            n, args = t[1], t[2]
            if n in ('i2f', 'f2f', 'i2i', 'ref', 'numcast'):
                return self.of_term(args[0])
            if n == 'zero':
                return self.rf(p_const(0))
            if n == 'one':
                return self.rf(p_const(1))
            if n == 'add':
                return self.add(self.of_term(args[0]), self.of_term(args[1]))
            if n == 'sub':
                return self.sub(self.of_term(args[0]), self.of_term(args[1]))
            if n == 'mul':
                return self.mul(self.of_term(args[0]), self.of_term(args[1]))
            if n == 'div':
                return self.div(self.of_term(args[0]), self.of_term(args[1]))
            if n == 'neg':
                return self.neg(self.of_term(args[0]))
            if n == 'sqrt':
                return self.sqrt(self.of_term(args[0]))
            if n == 'powi' and len(args) == 2 and args[1][0] == 'int' and 0 <= args[1][1] <= 8:
                r = self.rf(p_const(1))
                base = self.of_term(args[0])
                for _ in range(args[1][1]):
                    r = self.mul(r, base)
                return r
            if n == 'ssub' and len(args) == 2:
                return self.rf(p_atom(('max', self.key(self.sub(self.of_term(args[0]), self.of_term(args[1]))), self.key(self.rf(p_const(0))))))
            if n in ('floor', 'round', 'ceil', 'trunc', 'round_ties_even') and _int_valued(args[0]):
                return self.of_term(args[0])   # rounding an integer-valued expression is the identity
            if n in ('exp', 'ln', 'abs', 'floor', 'round', 'f2i', 'min', 'max', 'fmin', 'fmax', 'len', 'powi', 'index', 'ceil', 'trunc', 'signum', 'powf', 'round_ties_even'):
                return self.rf(p_atom((n,) + tuple(self.arg_key(a) for a in args)))
            raise NotReal('operation %s' % n)
        if k == 'call':
            return self.rf(p_atom(('call', t[1]) + tuple(self.arg_key(a) for a in t[2])))
        raise NotReal('term %s' % T.show(t))

    def arg_key(self, a):
        try:
            return self.key(self.of_term(a))
        except NotReal:
            if a[0] == 'adt':
                return ('adt', a[1], a[2], tuple(self.arg_key(x) for x in a[3]))
            if a[0] == 'tuple':
                return ('tuple', tuple(self.arg_key(x) for x in a[1]))
            return ('raw', a)

    def term_equal(self, a, b):
        return self.equal(self.of_term(a), self.of_term(b))


def _int_valued(t):
    """Syntactically integer-valued: int->float embeddings, integer constants, + - * of such."""
    if t[0] == 'int':
        return True
    if t[0] == 'flt':
        return not isinstance(t[1], str) and t[1].denominator == 1
    if t[0] == 'op':
        if t[1] == 'i2f':
            return True
        if t[1] in ('f2f',):
            return _int_valued(t[2][0])
        if t[1] in ('add', 'sub', 'mul') and len(t[2]) == 2:
            return _int_valued(t[2][0]) and _int_valued(t[2][1])
    return False


def _frac_sqrt(c):
    """Exact square root of a non-negative Fraction, or None."""
    if c < 0:
        return None
    n, d = c.numerator, c.denominator
    rn, rd = _isqrt(n), _isqrt(d)
    if rn * rn == n and rd * rd == d:
        return Fraction(rn, rd)
    return None


def _isqrt(n):
    import math
    return math.isqrt(n)


def _content(coeffs):
    """A positive rational g such that coeffs/g are coprime integers (sign kept in coeffs)."""
    from math import gcd
    den = 1
    for c in coeffs:
        den = den * c.denominator // gcd(den, c.denominator)
    nums = [int(c * den) for c in coeffs]
    g = 0
    for n in nums:
        g = gcd(g, abs(n))
    if g == 0:
        return Fraction(1)
    return Fraction(g, den)


# ---------------------------------------------------------------------------------------
# sign certificates by shifting

def decide_sign(ctx, rf, ranges):
    """Sign of a rational function on a box: ranges {atom: (lo, hi, lo_open, hi_open)} with
    None for infinite ends; atoms without an entry are unconstrained.  Returns one of
    '+', '0+', '-', '0-', '0' or None (unknown).  Method: substitute x = lo + m or x = hi - m
    (m >= 0) for every bounded atom; a polynomial whose coefficients all have one sign in
    non-negative indeterminates has that sign."""
    sn = _poly_sign(ctx, rf.num, ranges)
    if sn == '0':
        return '0'
    if sn is None:
        return None
    flip = False
    for k, e in rf.fac.items():
        sf = _poly_sign(ctx, dict(k), ranges)
        if sf not in ('+', '-'):
            return None
        if sf == '-' and e % 2:
            flip = not flip
    if not flip:
        return sn
    return {'+': '-', '-': '+', '0+': '0-', '0-': '0+'}[sn]


_NONNEG, _NONPOS = ('+', '0+', '0'), ('-', '0-', '0')


def _neg_sign(sg):
    return {'+': '-', '-': '+', '0+': '0-', '0-': '0+', '0': '0', None: None}[sg]


def _sign_one_root(ctx, A, B, Q, ranges):
    """sign of A + B*sqrt(Q) (A, B, Q polynomials without that root): coefficient certificates for A and B;
    when they disagree, A >= |B| sqrt(Q) <=> A^2 >= B^2 Q."""
    sA, sB = _poly_sign(ctx, A, ranges), _poly_sign(ctx, B, ranges)
    if sB == '0':
        return sA
    if sA is None or sB is None:
        return None
    if sA in _NONNEG and sB in _NONNEG:
        return '+' if sA == '+' else '0+'
    if sA in _NONPOS and sB in _NONPOS:
        return '-' if sA == '-' else '0-'
    D = p_sub(ctx.reduce(p_mul_raw(A, A)), ctx.reduce(p_mul_raw(p_mul_raw(B, B), Q)))
    sD = _poly_sign(ctx, D, ranges)
    if sD is None:
        return None
    if sA in _NONNEG:        # B <= 0
        return ('+' if sD == '+' else '0+') if sD in _NONNEG else ('-' if sD == '-' else '0-')
    return ('+' if sD == '-' else '0+') if sD in _NONPOS else ('-' if sD == '+' else '0-')


def _split_root(p, r):
    A, B = {}, {}
    for m, c in p.items():
        e = dict(m).get(r, 0)
        if e == 0:
            A = p_add(A, {m: c})
        elif e == 1:
            B = p_add(B, {tuple((a, k) for a, k in m if a != r): c})
        else:
            return None
    return A, B


def decide_sign_sqrt(ctx, rf, ranges):
    """Sign of a rational function whose numerator is A + B*sqrt(Q1) [+ C*sqrt(Q2)] (each root of degree 1,
    no product of the two): besides the coefficient-sign certificate of `decide_sign`, disagreeing parts
    are compared through their squares (each squaring removes one root).  Returns '+', '0+', '-', '0-',
    '0' or None (no certificate found)."""
    s = decide_sign(ctx, rf, ranges)
    if s is not None:
        return s
    roots = set()
    for m in rf.num:
        for a, e in m:
            if isinstance(a, tuple) and a and a[0] == 'sqrt':
                roots.add(a)
    roots = sorted(roots, key=repr)
    sn = None
    if len(roots) == 1:
        sp = _split_root(rf.num, roots[0])
        if sp is None:
            return None
        sn = _sign_one_root(ctx, sp[0], sp[1], dict(roots[0][1]), ranges)
    elif len(roots) == 2:
        for r1, r2 in ((roots[0], roots[1]), (roots[1], roots[0])):
            sp = _split_root(rf.num, r2)
            if sp is None:
                return None
            X, C = sp                         # numerator = X + C*r2, X = A + B*r1
            if any(a == r1 for m in C for a, e in m):
                return None                   # a product r1*r2
            spx = _split_root(X, r1)
            if spx is None:
                return None
            A, B = spx
            Q1, Q2 = dict(r1[1]), dict(r2[1])
            sX = _sign_one_root(ctx, A, B, Q1, ranges)
            sC = _poly_sign(ctx, C, ranges)
            if sX is None or sC is None:
                continue
            if sX in _NONNEG and sC in _NONNEG:
                sn = '+' if sX == '+' else '0+'
            elif sX in _NONPOS and sC in _NONPOS:
                sn = '-' if sX == '-' else '0-'
            else:
                # X^2 - C^2 Q2 = (A^2 + B^2 Q1 - C^2 Q2) + 2AB r1
                A2 = p_sub(p_add(ctx.reduce(p_mul_raw(A, A)), ctx.reduce(p_mul_raw(p_mul_raw(B, B), Q1))), ctx.reduce(p_mul_raw(p_mul_raw(C, C), Q2)))
                B2 = p_mul_raw(p_const(2), p_mul_raw(A, B))
                sD = _sign_one_root(ctx, A2, B2, Q1, ranges)
                if sD is None:
                    continue
                if sX in _NONNEG:            # C <= 0: X >= |C| r2 <=> X^2 >= C^2 Q2
                    sn = ('+' if sD == '+' else '0+') if sD in _NONNEG else ('-' if sD == '-' else '0-')
                else:                        # X <= 0 <= C: C r2 >= |X| <=> C^2 Q2 >= X^2
                    sn = ('+' if sD == '-' else '0+') if sD in _NONPOS else ('-' if sD == '+' else '0-')
            if sn is not None:
                break
    if sn is None:
        return None
    flip = False
    for k, e in rf.fac.items():
        sf = _poly_sign(ctx, dict(k), ranges)
        if sf not in ('+', '-'):
            return None
        if sf == '-' and e % 2:
            flip = not flip
    return _neg_sign(sn) if flip else sn


def _poly_sign(ctx, p, ranges):
    import itertools
    if not p:
        return '0'
    atoms = set()
    for m in p:
        for a, e in m:
            atoms.add(a)
    # point ranges: substitute the value
    for a in list(atoms):
        r = ranges.get(a)
        if r is not None and r[0] is not None and r[0] == r[1]:
            p = _substitute_const(p, a, Fraction(r[0]))
            atoms.discard(a)
    if not p:
        return '0'
    atoms = sorted(atoms, key=repr)
    choices = []
    for a in atoms:
        r = ranges.get(a)
        if r is None and isinstance(a, tuple) and a and a[0] in ('sqrt', 'exp', 'abs'):
            strict = a[0] == 'exp'
            if a[0] == 'sqrt':
                strict = _poly_sign(ctx, dict(a[1]), ranges) == '+'
            r = (Fraction(0), None, strict, True)
        if r is None and isinstance(a, tuple) and len(a) == 2 and a[0] in ('round', 'floor', 'ceil', 'round_ties_even', 'trunc') and isinstance(a[1], tuple) and a[1] and a[1][0] == 'rf':
            # integer-valued rounding of x: round(x) >= 1 when x >= 1/2, floor/trunc(x) >= 1 when x >= 1, ceil(x) >= 1 when x > 0
            inner = RF(dict(a[1][1]), dict(a[1][2]))
            thr = {'round': Fraction(1, 2), 'round_ties_even': Fraction(1, 2) + Fraction(1, 10 ** 9), 'floor': Fraction(1), 'trunc': Fraction(1), 'ceil': Fraction(0)}[a[0]]
            d = RF(p_sub(inner.num, p_mul_raw(p_const(thr), inner.den)), dict(inner.fac))
            sgn = decide_sign(ctx, d, ranges)
            if sgn == '+' or (sgn in ('0+', '0') and a[0] != 'ceil'):
                r = (Fraction(1), None, False, True)
            elif decide_sign(ctx, inner, ranges) in ('+', '0+', '0'):
                r = (Fraction(0), None, False, True)
        if r is None:
            # unconstrained atom: sign only decidable if it appears with even exponents only
            choices.append([('free', a)])
            continue
        lo, hi = r[0], r[1]
        opts = []
        if lo is not None:
            opts.append(('lo', a, Fraction(lo), r[2]))
        if hi is not None:
            opts.append(('hi', a, Fraction(hi), r[3]))
        if not opts:
            opts = [('free', a)]
        choices.append(opts)
    best = None
    for combo in itertools.product(*choices):
        q = p
        strict_atoms = {}
        ok = True
        for ch in combo:
            if ch[0] == 'free':
                a = ch[1]
                if any(e % 2 for m in q for (x, e) in m if x == a):
                    ok = False
                    break
                continue
            kind, a, bound, is_open = ch
            strict_atoms[a] = is_open
            q = _substitute_shift(q, a, bound, kind == 'hi')
        if not ok:
            continue
        cs = list(q.values())
        if not cs:
            return '0'

        def strictly(m):
            # a monomial is strictly positive when all its (shifted) indeterminates are
            return all(strict_atoms.get(x, False) and e % 2 in (0, 1) for x, e in m) and all(x in strict_atoms for x, e in m)
        if all(c > 0 for c in cs):
            if any(strictly(m) for m in q):
                return '+'
            best = best or '0+'
        elif all(c < 0 for c in cs):
            if any(strictly(m) for m in q):
                return '-'
            best = best or '0-'
    return best


def _substitute_const(p, a, value):
    out = {}
    for m, c in p.items():
        e = dict(m).get(a, 0)
        rest = tuple((x, k) for x, k in m if x != a)
        out = p_add(out, {rest: c * (value ** e)})
    return out


def _substitute_shift(p, a, bound, from_hi):
    """x := bound + m (or bound - m); the new indeterminate keeps the name of x."""
    repl = p_add(p_const(bound), p_atom(a) if not from_hi else p_neg(p_atom(a)))
    out = {}
    for m, c in p.items():
        e = dict(m).get(a, 0)
        rest = tuple((x, k) for x, k in m if x != a)
        term = {rest: c}
        if e < 0:
            raise NotReal('negative exponent')
        for _ in range(e):
            term = p_mul_raw(term, repl)
        out = p_add(out, term)
    return out
