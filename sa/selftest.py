"""Self-test of the checker (thorough tier): mutants that must be reported and
behaviour-preserving rewrites that must stay silent, applied to scratch copies of /repo.

Edits are anchored on source text of the *scratch copy*; when an anchor has moved the case is
skipped with a note (it never fails the run).  A mutant that compiles but is not reported, or a
rewrite that raises an alarm, is a defect of the checker and fails the thorough run."""
from .core import unlisted as core_unlisted
import os

from .scratch import Scratch, run_rule

# (id, properties that must report it, file, old, new, description)
MUTANTS = [
    ('wilson-upper-by-mirror', ['C02'], 'src/proportion.rs', '        Confidence::TwoSided(_) => Interval::new(mean - span, mean + span).map_err(|e| e.into()),',
     '        Confidence::TwoSided(_) => Interval::new(mean - span, 1. - ((n_f + z_sq / 2.) / (n + z_sq) - span)).map_err(|e| e.into()),',
     'upper Wilson root obtained "by symmetry" as 1 - (mirror lower root): equal over the reals, leading-order cancellation for rare events (seed C02-l)'),
    ('variance-sum-squared', ['C01', 'C04', 'C16'], 'src/mean.rs', '(self.sum_sq.value() - mean * self.sum.value()) / F::from(self.count - 1).unwrap()',
     '(self.sum_sq.value() - self.sum.value() * self.sum.value() / F::from(self.count).unwrap()) / F::from(self.count - 1).unwrap()',
     'variance through the squared sum: (data^2, n^2) intermediate, -inf clamped to a zero variance (seeds C01-k / C16-k)'),
    ('variance-unclamped', ['C01', 'C04', 'C05'], 'src/mean.rs', '        if variance < F::zero() {\n            F::zero()\n        } else {\n            variance\n        }', '        variance',
     'the one-pass variance reaches the square root unclamped (the defect repaired by 4307b4e: a constant sample is refused)'),
    ('dof-n', ['C01', 'C06'], 'src/mean.rs', 'let degrees_of_freedom = n - 1.;', 'let degrees_of_freedom = n;', 'n instead of n-1 degrees of freedom'),
    ('sem-n-1', ['C01'], 'src/mean.rs', 'let std_err_mean = std_dev / n.sqrt();', 'let std_err_mean = std_dev / (n - 1.).sqrt();', 'standard error with sqrt(n-1)'),
    ('abs-span', ['C01', 'C06'], 'src/stats.rs', '(mean - span, mean + span)', '(mean - span.abs(), mean + span.abs())', '|span| (wrong for one-sided levels below 1/2)'),
    ('tz-swapped', ['C01', 'C06'], 'src/stats.rs', 'if degrees_of_freedom < POPULATION_LIMIT {', 'if degrees_of_freedom > POPULATION_LIMIT {', 't / normal branches swapped'),
    ('quantile-two', ['C01', 'C06', 'C10'], 'src/confidence.rs', 'Confidence::TwoSided(confidence) => 1. - (1. - confidence) / 2.,', 'Confidence::TwoSided(confidence) => 1. - (1. - confidence) / 2.5,', 'wrong two-sided quantile'),
    ('wilson-failures', ['C02'], 'src/proportion.rs', '    if population - successes < 2 {', '    if population - successes < 1 {', 'failure-count threshold'),
    ('wald-n-1', ['C02'], 'src/proportion.rs', '    let std_dev = (p * q / n).sqrt();', '    let std_dev = (p * q / (n - 1.)).sqrt();', 'Wald variance with n-1'),
    ('wald-rule', ['C02'], 'src/proportion.rs', '    if !(n * p >= 10.) {', '    if !(n * p >= 9.) {', 'n*p >= 10 rule'),
    ('significant', ['C02'], 'src/proportion.rs', '    && (successes > 5)', '    && (successes > 4)', 'is_significant threshold'),
    ('extend-if-inverted', ['C02'], 'src/proportion.rs', '            if is_success(x_i) {\n                self.add_success();', '            if !is_success(x_i) {\n                self.add_success();', 'inverted predicate in extend_if'),
    ('ratio-truncates', ['C02'], 'src/proportion.rs', '(success_rate * population as f64).round() as usize', '(success_rate * population as f64) as usize', 'ratio front-end truncates'),
    ('wilson-tweak', ['C02', 'C17'], 'src/proportion.rs', '((n_s * n_f / n) + (z_sq / 4.)).sqrt();', '((n_s * n_f / n) + (z_sq / 4.000001)).sqrt();', 'sub-tolerance change of the Wilson span'),
    ('rank-cap', ['C03', 'C11'], 'src/quantile.rs', '        let index = index.min(self.population - 1);', '        let index = index.min(self.population);', 'missing n-1 rank cap'),
    ('min-samples', ['C03'], 'src/quantile.rs', '        if self.population < 4 {', '        if self.population < 5 {', 'raised minimum sample size'),
    ('q-closed', ['C03'], 'src/quantile.rs', 'if quantile <= 0. || 1. <= quantile {', 'if quantile < 0. || 1. < quantile {', 'q = 0 / 1 accepted'),
    ('sort-desc', ['C03'], 'src/quantile.rs', '    let mut sorted: ArrayVec<T, CAP> = data.into_iter().copied().collect();\n    sorted.sort_by(|a, b| a.partial_cmp(b).unwrap());',
     '    let mut sorted: ArrayVec<T, CAP> = data.into_iter().copied().collect();\n    sorted.sort_by(|a, b| b.partial_cmp(a).unwrap());', 'descending sort in ci_max_size'),
    ('paired-sign', ['C04'], 'src/comparison.rs', '        self.stats.append(data_a - data_b)', '        self.stats.append(data_b - data_a)', 'sign of the paired difference (append_pair)'),
    ('paired-tuple-sign', ['C04'], 'src/comparison.rs', '            self.stats.append(x - y)?;', '            self.stats.append(y - x)?;', 'sign of the paired difference (extend_tuple)'),
    ('lengths-swapped', ['C04'], 'src/comparison.rs', '                    return Err(CIError::DifferentSampleSizes(\n                        count + 1 + data_a.count(),\n                        count,\n                    ))',
     '                    return Err(CIError::DifferentSampleSizes(\n                        count,\n                        count + 1 + data_a.count(),\n                    ))', 'swapped lengths in DifferentSampleSizes'),
    ('unpaired-extend-wrong', ['C04'], 'src/comparison.rs', '        self.stats_b.extend(data_b)?;\n        Ok(())', '        self.stats_a.extend(data_b)?;\n        Ok(())', 'sample B folded into component A'),
    ('unpaired-merge-wrong', ['C09'], 'src/comparison.rs', '            stats_b: self.stats_b + rhs.stats_b,', '            stats_b: self.stats_b + rhs.stats_a,', 'wrong sample in the Unpaired merge'),
    ('merge-empty-miscount', ['C09'], 'src/mean.rs', '        let count = self.count + rhs.count;', '        let count = if rhs.count == 0 { self.count + 1 } else { self.count + rhs.count };', 'merge miscounts when one operand is empty'),
    ('zero-positive', ['C05'], 'src/mean.rs', '        if x <= F::zero() {\n            return Err(error::CIError::NonPositiveValue(\n                x.to_f64().unwrap_or(f64::NAN),\n            ));\n        }\n        self.log_space.append(x.ln())?;',
     '        if x < F::zero() {\n            return Err(error::CIError::NonPositiveValue(\n                x.to_f64().unwrap_or(f64::NAN),\n            ));\n        }\n        self.log_space.append(x.ln())?;', '0 accepted as a positive value'),
    ('geo-sem', ['C05'], 'src/mean.rs', '        geom_mean * log_std_dev / F::from(self.log_space.sample_count() - 1).unwrap().sqrt()', '        geom_mean * log_std_dev / F::from(self.log_space.sample_count()).unwrap().sqrt()', 'geometric sem transform'),
    ('harm-sem', ['C05'], 'src/mean.rs', '        harm_mean * harm_mean * recip_std_dev', '        harm_mean * recip_std_dev', 'harmonic sem transform'),
    ('harm-noflip', ['C05'], 'src/mean.rs', 'let arith_ci = self.recip_space.ci_mean(confidence.flipped())?;', 'let arith_ci = self.recip_space.ci_mean(confidence)?;', 'missing flip in Harmonic::ci_mean'),
    ('intersects-arm', ['C07'], 'src/interval.rs', '            (Interval::TwoSided(_, y), Interval::UpperOneSided(z)) => z <= y,', '            (Interval::TwoSided(x, _), Interval::UpperOneSided(z)) => z <= x,', 'wrong bound in a mixed-kind intersects arm'),
    ('end-bound-excluded', ['C07'], 'src/interval.rs', '            Some(high) => Bound::Included(high),', '            Some(high) => Bound::Excluded(high),', 'exclusive end bound'),
    ('kahan-sign', ['C08'], 'src/utils.rs', '    let y = x - c;', '    let y = x + c;', 'compensation applied with the wrong sign'),
    ('kahan-dropped', ['C08'], 'src/utils.rs', '    *compensation = (t - sum) - y;', '    *compensation = T::zero();', 'compensation dropped (naive summation)'),
    ('reseed', ['C08'], 'src/mean.rs', '        self.sum += x;\n        self.sum_sq += x * x;', '        self.sum = utils::KahanSum::new(self.sum.value() + x);\n        self.sum_sq += x * x;', 're-seeding the register from value()'),
    ('mul-neg-noflip', ['C13'], 'src/interval.rs', '        let scaled = self.applied_both(|x| x * rhs);\n        if rhs < F::zero() {\n            scaled.reversed()\n        } else {\n            scaled\n        }', '        self.applied_both(|x| x * rhs)', 'one-sided interval times a negative scalar keeps its direction'),
    ('neg-no-mirror', ['C13'], 'src/interval.rs', '            Interval::TwoSided(low, high) => Interval::TwoSided(-high, -low),', '            Interval::TwoSided(low, high) => Interval::TwoSided(-low, -high),', 'negation returns inverted bounds'),
    ('tryfrom-unchecked', ['C14'], 'src/interval.rs', '        if value.0 <= value.1 {\n            Interval::new(value.0, value.1)', '        if value.0 <= value.1 || true {\n            Ok(Interval::TwoSided(value.0, value.1))', 'tuple conversion builds an unchecked two-sided interval'),
    ('hash-tag', ['C14'], 'src/interval.rs', '                1.hash(state);', '                0.hash(state);', 'hash tag not injective'),
    ('cmp-touching', ['C15'], 'src/interval.rs', ') if low >= high => Some(Less),', ') if low > high => Some(Less),', 'touching intervals no longer ordered'),
    ('abs-mean', ['C16'], 'src/stats.rs', '(mean - span, mean + span)', '(mean - span, mean.abs() + span)', 'asymmetric use of |mean|'),
    ('mirror-asym', ['C17'], 'src/proportion.rs', 'let mean = (n_s + z_sq / 2.) / (n + z_sq);', 'let mean = (n_s + z_sq / 2.) / (n + z_sq) + if n_s > n_f { 1e-9 } else { 0. };', 'asymmetric in successes vs failures'),
    ('upper-closed', ['C18'], 'src/confidence.rs', '        if confidence > 0. && confidence < 1. {\n            Confidence::UpperOneSided(confidence)', '        if confidence > 0. && confidence <= 1. {\n            Confidence::UpperOneSided(confidence)', 'level 1 accepted by new_upper'),
    ('flipped-noop', ['C18'], 'src/confidence.rs', 'Confidence::UpperOneSided(confidence) => Confidence::LowerOneSided(*confidence),', 'Confidence::UpperOneSided(confidence) => Confidence::UpperOneSided(*confidence),', 'flipped does not flip upper'),
    ('approx-mixed', ['C19'], 'src/interval.rs', '            (Interval::UpperOneSided(a), Interval::UpperOneSided(x)) => {\n                T::ulps_eq(a, x, epsilon, max_ulps)',
     '            (Interval::UpperOneSided(a), Interval::UpperOneSided(x) | Interval::LowerOneSided(x)) => {\n                T::ulps_eq(a, x, epsilon, max_ulps)', 'ulps_eq relates mixed kinds'),
    ('display-space', ['C19'], 'src/interval.rs', 'write!(f, "[{},->)", low)', 'write!(f, "[{}, ->)", low)', 'Display template changed'),
    ('serde-derive-dropped', ['C20'], 'src/utils.rs', '#[cfg_attr(feature = "serde", derive(serde::Serialize, serde::Deserialize))]\npub struct KahanSum', 'pub struct KahanSum', 'serde derive dropped on a nested type'),
    ('too-few-lost', ['C11'], 'src/mean.rs', '        if self.count < 2 {\n            return Err(CIError::TooFewSamples(self.count));\n        }\n        let n = self.count as f64;', '        let n = self.count as f64;', 'sample-size guard lost (panic for n < 2)'),
    ('finite-lost', ['C11'], 'src/mean.rs', '        if !mean.is_finite() || !std_dev.is_finite() {\n            return Err(CIError::InvalidInputData);\n        }', '', 'finiteness guard lost (Ok(NaN))'),
    ('significant-underflow', ['C11'], 'src/proportion.rs', '    && (population > successes)\n', '', 'is_significant underflows for k > n'),
    ('upper-kind-swapped', ['C10', 'C04'], 'src/comparison.rs', '            Confidence::UpperOneSided(_) => Ok(Interval::new_upper(lo)),\n            Confidence::LowerOneSided(_) => Ok(Interval::new_lower(hi)),\n        }\n    }\n\n    ///\n    /// Compute the confidence interval of the difference between the means of the two samples.',
     '            Confidence::UpperOneSided(_) => Ok(Interval::new_lower(hi)),\n            Confidence::LowerOneSided(_) => Ok(Interval::new_upper(lo)),\n        }\n    }\n\n    ///\n    /// Compute the confidence interval of the difference between the means of the two samples.', 'swapped kinds for unpaired one-sided results'),
]

ALL = ['C01', 'C02', 'C03', 'C04', 'C05', 'C06', 'C07', 'C08', 'C09', 'C10', 'C11', 'C13', 'C14', 'C15', 'C16', 'C17', 'C18', 'C19']

# (id, file, old, new, description): behaviour-preserving rewrites; every rule must stay silent
SILENCE = [
    ('flip-comparison', 'src/interval.rs', 'Interval::TwoSided(low, high) => low <= x && x <= high,', 'Interval::TwoSided(low, high) => x >= low && high >= x,', 'a <= b written as b >= a'),
    ('le-one', 'src/proportion.rs', '    if successes < 2 {', '    if successes <= 1 {', 'k < 2 written as k <= 1'),
    ('quantile-form', 'src/confidence.rs', 'Confidence::TwoSided(confidence) => 1. - (1. - confidence) / 2.,', 'Confidence::TwoSided(confidence) => (1. + confidence) / 2.,', '1-(1-L)/2 written as (1+L)/2'),
    ('variance-form', 'src/mean.rs', '(self.sum_sq.value() - mean * self.sum.value()) / F::from(self.count - 1).unwrap()',
     '(self.sum_sq.value() - self.sum.value() * self.sum.value() / F::from(self.count).unwrap()) / F::from(self.count - 1).unwrap()', 'S2 - m*S1 written as S2 - S1^2/n'),
    ('sem-form', 'src/mean.rs', 'let std_err_mean = std_dev / n.sqrt();', 'let std_err_mean = (std_dev * std_dev / n).sqrt();', 's/sqrt(n) written as sqrt(s^2/n)'),
    ('while-let', 'src/mean.rs', '        for x_i in data {\n            self.append(*x_i)?;\n        }', '        let mut it = data.into_iter();\n        while let Some(x_i) = it.next() {\n            self.append(*x_i)?;\n        }', 'for written as while let'),
    ('inline-helper', 'src/stats.rs', '        let t = t_value(confidence, degrees_of_freedom);\n        t * std_err_mean',
     '        let student_t = StudentsT::new(0., 1., degrees_of_freedom).unwrap();\n        let t = student_t.inverse_cdf(confidence.quantile());\n        t * std_err_mean', 'helper inlined'),
    ('rename-local', 'src/proportion.rs', '    let mean = (n_s + z_sq / 2.) / (n + z_sq);\n    let span = (z / (n + z_sq)) * ((n_s * n_f / n) + (z_sq / 4.)).sqrt();\n\n    match confidence {\n        Confidence::TwoSided(_) => Interval::new(mean - span, mean + span).map_err(|e| e.into()),\n        Confidence::UpperOneSided(_) => Interval::new(mean - span, 1.).map_err(|e| e.into()),\n        Confidence::LowerOneSided(_) => Interval::new(0., mean + span).map_err(|e| e.into()),',
     '    let centre = (n_s + z_sq / 2.) / (n + z_sq);\n    let half = (z / (n + z_sq)) * ((n_s * n_f / n) + (z_sq / 4.)).sqrt();\n\n    match confidence {\n        Confidence::TwoSided(_) => Interval::new(centre - half, centre + half).map_err(|e| e.into()),\n        Confidence::UpperOneSided(_) => Interval::new(centre - half, 1.).map_err(|e| e.into()),\n        Confidence::LowerOneSided(_) => Interval::new(0., centre + half).map_err(|e| e.into()),', 'locals renamed'),
    ('matches-to-match', 'src/interval.rs', '        matches!(self, Interval::TwoSided(_, _))', '        match self {\n            Interval::TwoSided(_, _) => true,\n            _ => false,\n        }', 'matches! written as match'),
    ('extra-guard', 'src/proportion.rs', '    let n = population as f64;\n    let n_s = successes as f64;', '    if population == 0 {\n        return Err(CIError::TooFewSuccesses(successes, population, 0.));\n    }\n    let n = population as f64;\n    let n_s = successes as f64;', 'added guard that only fires where the same error was returned anyway'),
    ('reorder-statements', 'src/mean.rs', '        self.sum += x;\n        self.sum_sq += x * x;\n        self.count += 1;', '        self.count += 1;\n        self.sum_sq += x * x;\n        self.sum += x;', 'independent statements reordered'),
    ('rename-private-helper', 'src/utils.rs', 'kahan_add', 'compensated_add', 'private helper renamed'),
    # (a Kahan -> Neumaier conversion used to be listed here; it satisfies the necessary conditions of C08 but is not
    # behaviour-preserving: without renormalisation its compensation grows, and the pinned suite rejects it on 10^6
    # f32 terms - it is neither a seed nor a silent rewrite)
]


def _mutant_job(args):
    pid, (mid, pids, rel, old, new, desc) = args
    with Scratch() as sc:
        if not sc.replace(rel, old, new, count=1 if mid != 'rename-private-helper' else 99):
            return {'mutant': mid, 'status': 'skipped', 'note': 'anchor text not found in the current tree'}
        c = run_rule(pid, sc.dir)
        bad = core_unlisted(c)
        facts_fail = [o for o in bad if o['rule'] == 'facts']
        if facts_fail and pid != 'C20':
            return {'mutant': mid, 'status': 'skipped', 'note': 'mutant does not compile'}
        return {'mutant': mid, 'description': desc, 'status': 'reported' if bad else 'MISSED',
                'reported_keys': [o['key'] for o in bad][:4]}


def _pmap(fn, jobs):
    """Scratch analyses are independent: run them on several cores (cargo itself is serialised by the
    fact-cache lock)."""
    if len(jobs) <= 1 or os.environ.get('VERIF_SELFTEST_SERIAL'):
        return [fn(j) for j in jobs]
    import concurrent.futures as cf
    import multiprocessing as mp
    with cf.ProcessPoolExecutor(max_workers=min(8, len(jobs)), mp_context=mp.get_context('fork')) as ex:
        return list(ex.map(fn, jobs))


def run_mutants(pid, chk=None):
    """-> list of result dicts for the mutants that `pid` must report."""
    return _pmap(_mutant_job, [(pid, m) for m in MUTANTS if pid in m[1]])


# rewrites that are equal over the reals but not in IEEE arithmetic are not "behaviour preserving"
# for the IEEE-level property: sqrt(s*s/n) overflows to inf for s > 1.3e154 and then 0 * inf = NaN
# at level exactly 1/2 (C11 reports that, correctly)
# `variance-form` (S2 - mean*S1 written as S2 - S1^2/n) squares the *sum*: (data^2, n^2) overflows n times before S2 does and,
# with the zero clamp of the variance, yields a collapsed Ok interval (seeds C01-k / C16-k, DESIGN 31) - reported by the
# range obligations of C01 / C04 / C16, correctly; it stays a silence case for every other property
SILENCE_EXCEPT = {'sem-form': {'C11'}, 'variance-form': {'C01', 'C04', 'C16'}}


def _silence_job(args):
    pid, (sid, rel, old, new, desc) = args
    if pid in SILENCE_EXCEPT.get(sid, ()):
        return {'rewrite': sid, 'status': 'skipped', 'note': 'equal over the reals only; not behaviour-preserving at the IEEE level this property speaks about'}
    with Scratch() as sc:
        if not sc.replace(rel, old, new, count=99 if sid == 'rename-private-helper' else 1):
            return {'rewrite': sid, 'status': 'skipped', 'note': 'anchor text not found in the current tree'}
        c = run_rule(pid, sc.dir)
        bad = core_unlisted(c)
        if any(o['rule'] == 'facts' for o in bad) and pid != 'C20':
            return {'rewrite': sid, 'status': 'skipped', 'note': 'rewrite does not compile'}
        return {'rewrite': sid, 'description': desc, 'status': 'silent' if not bad else 'ALARM',
                'alarm_keys': [(o['key'], (o['detail'] or '')[:160]) for o in bad][:3]}


def run_silence(pid):
    return _pmap(_silence_job, [(pid, r) for r in SILENCE])


# ---------------------------------------------------------------------------------------------------
# recorded patches: seeded/<id>-*/patch.diff were written by independent sub-agents to break property <id>
# (must be reported by <id>); refactors/*/refactor_*.diff were written by independent sub-agents as strictly
# behaviour-preserving rewrites (no property may alarm).  Both are replayed on scratch copies.

VERIF = os.path.dirname(os.path.dirname(os.path.abspath(__file__)))


def _patch_files(patch):
    out = []
    with open(patch) as fh:
        for line in fh:
            if line.startswith('+++ b/'):
                out.append(line[6:].strip())
    return out


def _anchor_files(pid):
    import json
    with open(os.path.join(VERIF, 'properties.jsonl')) as fh:
        for line in fh:
            d = json.loads(line)
            if d['id'] == pid:
                return set(d.get('anchors', {}).get('files', []))
    return set()


def _patch_job(args):
    pid, kind, patch = args
    name = os.path.relpath(patch, VERIF)
    with Scratch() as sc:
        ok, log = sc.apply_patch(patch)
        if not ok:
            return {'patch': name, 'kind': kind, 'status': 'skipped', 'note': 'patch no longer applies to the current tree'}
        c = run_rule(pid, sc.dir)
        bad = core_unlisted(c)
        if any(o['rule'] == 'facts' for o in bad) and pid != 'C20':
            return {'patch': name, 'kind': kind, 'status': 'skipped', 'note': 'patched tree does not compile'}
        if kind == 'seed':
            return {'patch': name, 'kind': kind, 'status': 'reported' if bad else 'MISSED', 'keys': [o['key'] for o in bad][:4]}
        return {'patch': name, 'kind': kind, 'status': 'silent' if not bad else 'ALARM',
                'keys': [(o['key'], (o['detail'] or '')[:160]) for o in bad][:3]}


def run_patches(pid):
    import glob
    jobs = []
    for patch in sorted(glob.glob(os.path.join(VERIF, 'seeded', pid + '-*', 'patch.diff'))):
        jobs.append((pid, 'seed', patch))
    files = _anchor_files(pid)
    for patch in sorted(glob.glob(os.path.join(VERIF, 'refactors', '*', '*.diff'))):
        if files & set(_patch_files(patch)):
            jobs.append((pid, 'refactor', patch))
    return _pmap(_patch_job, jobs)


if __name__ == '__main__':
    import sys
    import json
    pid = sys.argv[1]
    what = sys.argv[2] if len(sys.argv) > 2 else 'both'
    if what in ('both', 'mutants'):
        for r in run_mutants(pid):
            print(json.dumps(r)[:300])
    if what in ('both', 'silence'):
        for r in run_silence(pid):
            print(json.dumps(r)[:400])
    if what in ('both', 'patches'):
        for r in run_patches(pid):
            print(json.dumps(r)[:400])
