"""Check framework: fact production/caching, obligations, known findings, evidence."""
import hashlib
import json
import os
import re
import time
import subprocess
import sys
import time

from .facts import Facts

VERIF = os.path.dirname(os.path.dirname(os.path.abspath(__file__)))
CACHE = os.path.join(VERIF, '.cache')
DRIVER = os.path.join(VERIF, 'driver', 'target', 'release', 'sci-facts')
REPO = os.environ.get('VERIF_REPO', '/repo')

CONFIGS = {
    'default': [],
    'std': ['--no-default-features', '--features', 'std'],
    'std-approx': ['--no-default-features', '--features', 'std,approx'],
    'std-serde': ['--no-default-features', '--features', 'std,serde'],
    'all': ['--no-default-features', '--features', 'std,approx,serde'],
}

TRUSTED_BASE = [
    "rustc MIR construction and trait resolution of the pinned nightly (facts come from optimized_mir at -Zmir-opt-level=0, overflow checks on)",
    "the driver's serialisation of MIR / instances / items (driver/src/main.rs)",
    "the external-callee model and contract table sa/models.py (std, num-traits, statrs 0.18, arrayvec, approx), each row citing the vendored source",
    "meta-arguments stated in DESIGN.md: parametricity of safe generic code over T: PartialOrd; induction over a stream for base/step loop obligations",
    "the normal-form / abstract-domain code of /verif/sa, validated on every thorough run by the control crate and the mutant self-test",
]


def tree_hash(repo):
    h = hashlib.sha256()
    for root, dirs, files in os.walk(repo):
        dirs[:] = sorted(d for d in dirs if d not in ('target', '.git'))
        for f in sorted(files):
            p = os.path.join(root, f)
            rel = os.path.relpath(p, repo)
            if not (rel.endswith('.rs') or rel.endswith('.toml') or rel.endswith('.lock') or rel.endswith('.md')):
                continue
            h.update(rel.encode())
            try:
                with open(p, 'rb') as fh:
                    h.update(fh.read())
            except OSError:
                pass
    try:
        with open(DRIVER, 'rb') as fh:
            h.update(hashlib.sha256(fh.read()).digest())
    except OSError:
        pass
    return h.hexdigest()[:24]


def ensure_driver():
    if os.path.exists(DRIVER):
        return
    r = subprocess.run(['cargo', '+nightly', 'build', '--release', '--offline'],
                       cwd=os.path.join(VERIF, 'driver'), capture_output=True, text=True)
    if r.returncode != 0 or not os.path.exists(DRIVER):
        raise RuntimeError('cannot build the fact extractor:\n' + r.stderr[-3000:])


class FactsUnavailable(Exception):
    def __init__(self, cfg, log):
        Exception.__init__(self, 'no facts for config %s' % cfg)
        self.cfg = cfg
        self.log = log


_facts_memo = {}


def get_facts(cfg='default', repo=None, use_cache=True):
    """Facts for one feature config of the current working tree of `repo` (driver run
    unless an up-to-date fact file keyed by the tree hash exists)."""
    repo = repo or REPO
    ensure_driver()
    os.makedirs(CACHE, exist_ok=True)
    th = tree_hash(repo)
    key = (repo, cfg, th)
    if key in _facts_memo:
        return _facts_memo[key]
    tag = 'repo' if repo == REPO else hashlib.sha256(repo.encode()).hexdigest()[:8]
    out = os.path.join(CACHE, 'facts-%s-%s-%s.json' % (tag, cfg, th))
    import fcntl
    scratch = repo != REPO
    lock_fh = open(os.path.join(CACHE, 'lock-%s%s' % (cfg, '-scratch' if scratch else '')), 'w')
    fcntl.flock(lock_fh, fcntl.LOCK_EX)
    try:
        if not (use_cache and os.path.exists(out) and os.path.getsize(out) > 0):
            # drop stale fact files of this (tag, config)
            for f in os.listdir(CACHE):
                if f.startswith('facts-%s-%s-' % (tag, cfg)) and f.endswith('.json'):
                    try:
                        os.remove(os.path.join(CACHE, f))
                    except OSError:
                        pass
            sysroot = subprocess.run(['rustc', '+nightly', '--print', 'sysroot'], capture_output=True, text=True).stdout.strip()
            env = dict(os.environ)
            env['LD_LIBRARY_PATH'] = os.path.join(sysroot, 'lib')
            env['VERIF_FACTS_OUT'] = out + '.tmp'
            env['RUSTFLAGS'] = '-Zmir-opt-level=0 -Awarnings'
            env['RUSTC_WORKSPACE_WRAPPER'] = DRIVER
            # scratch copies get their own target dir (the same package name at another path would
            # clash with /repo's dep-info); every cargo run on a target dir is serialised by the lock
            td = os.path.join(CACHE, 'target-%s%s' % (cfg, '-scratch' if scratch else ''))
            env['CARGO_TARGET_DIR'] = td
            env['CARGO_NET_OFFLINE'] = 'true'
            # force the workspace member through the wrapper again (cargo freshness cache)
            fp = os.path.join(td, 'debug', '.fingerprint')
            if os.path.isdir(fp):
                for d in os.listdir(fp):
                    if d.startswith('stats-ci-') or d.startswith('stats_ci-'):
                        subprocess.run(['rm', '-rf', os.path.join(fp, d)])
            if os.path.exists(out + '.tmp'):
                os.remove(out + '.tmp')
            r = subprocess.run(['cargo', '+nightly', 'check', '--offline', '--lib'] + CONFIGS[cfg],
                               cwd=repo, env=env, capture_output=True, text=True)
            if r.returncode != 0 and not re.search(r'^error(\[E\d+\])?:', r.stdout + r.stderr, re.M) or \
                    (r.returncode != 0 and 'could not compile' in (r.stdout + r.stderr) and not re.search(r'^error\[E\d+\]', r.stdout + r.stderr, re.M)):
                # no compiler diagnostic: the compiler process itself died (resource pressure under parallel runs);
                # a real compile error is deterministic and carries an error code - try once more before reporting
                time.sleep(1.0)
                if os.path.exists(out + '.tmp'):
                    os.remove(out + '.tmp')
                r = subprocess.run(['cargo', '+nightly', 'check', '--offline', '--lib'] + CONFIGS[cfg],
                                   cwd=repo, env=env, capture_output=True, text=True)
            if r.returncode != 0 or not os.path.exists(out + '.tmp') or os.path.getsize(out + '.tmp') == 0:
                if os.path.exists(out + '.tmp'):
                    os.remove(out + '.tmp')
                raise FactsUnavailable(cfg, (r.stdout + r.stderr)[-6000:])
            os.replace(out + '.tmp', out)
        f = Facts(out)
    finally:
        fcntl.flock(lock_fh, fcntl.LOCK_UN)
        lock_fh.close()
    f.cfg = cfg
    f.path = out
    f.repo = repo
    _facts_memo[key] = f
    return f


def load_known():
    p = os.path.join(VERIF, 'known_findings.json')
    if not os.path.exists(p):
        return []
    with open(p) as fh:
        return json.load(fh).get('findings', [])


class Check:
    """Collects obligations for one property run."""

    def __init__(self, pid, tier):
        self.pid = pid
        self.tier = tier
        self.t0 = time.time()
        self.obligations = []      # dicts: key, rule, desc, status, detail, where
        self.samples = []
        self.analysed = {'functions': set(), 'paths': 0, 'call_sites': 0, 'configs': set(), 'loops': 0}
        self.notes = []
        self.floors = []
        self.rules = []
        self.selftest = None

    # status: 'ok' | 'violated' | 'undecided'
    def ob(self, key, rule, desc, ok, detail='', where=None, sample=None):
        status = 'ok' if ok is True else ('undecided' if ok is None else 'violated')
        self.obligations.append({'key': key, 'rule': rule, 'desc': desc, 'status': status,
                                 'detail': detail, 'where': where})
        if sample is not None and len(self.samples) < 40:
            self.samples.append(sample)
        return ok is True

    def floor(self, name, count, minimum):
        """Instance floor: a rule that matched fewer instances than counted by hand fails."""
        self.floors.append({'name': name, 'count': count, 'floor': minimum})
        self.ob('%s:floor:%s' % (self.pid, name), 'floor', 'instance floor %s >= %d' % (name, minimum),
                count >= minimum, 'matched %d instance(s), floor is %d' % (count, minimum))

    def anchor(self, name, obj):
        """Fail closed on a missing public anchor."""
        self.ob('%s:anchor:%s' % (self.pid, name), 'anchor', 'public anchor %s exists' % name,
                obj is not None, '' if obj is not None else 'anchor not found in the type-checked crate')
        return obj is not None

    def saw(self, facts, fn=None, paths=0, calls=0):
        self.analysed['configs'].add(getattr(facts, 'cfg', '?'))
        if fn is not None:
            self.analysed['functions'].add(fn if isinstance(fn, str) else fn['path'])
        self.analysed['paths'] += paths
        self.analysed['call_sites'] += calls


def known_matches(entry, ob):
    """A listed finding covers a failing obligation only if *every* problem the obligation reports (its detail, split at
    '; ') carries one of the entry's signatures - the part of the message that identifies what fails (the rounded
    operand, the wrong outcome, ...), not how the code spells it.  Any other problem under the same obligation makes it
    a new violation."""
    sigs = entry.get('signatures')
    if not sigs:
        return 'detail' not in entry or entry['detail'] == (ob['detail'] or '')
    items = [x for x in (ob['detail'] or '').split('; ') if x.strip()]
    return bool(items) and all(any(sg in it for sg in sigs) for it in items)


def unlisted(chk):
    """obligations of the run that failed and are not listed known findings (same matching as `finish`)"""
    known = load_known()
    known_keys = {k['key']: k for k in known if k.get('property') == chk.pid and k.get('status') == 'known'}
    out = []
    for o in chk.obligations:
        if o['status'] == 'ok':
            continue
        k = known_keys.get(o['key'])
        if k is not None and known_matches(k, o):
            continue
        out.append(o)
    return out


def finish(chk, level='proof', explanation=None, assumptions=None):
    """Apply known findings, write evidence + report, print verdict lines, return exit code."""
    known = load_known()
    known_keys = {k['key']: k for k in known if k.get('property') == chk.pid and k.get('status') == 'known'}
    fixed_keys = {k['key']: k for k in known if k.get('property') == chk.pid and k.get('status') == 'fixed'}
    viol = [o for o in chk.obligations if o['status'] != 'ok']
    new_viol = []
    known_hit = []
    for o in viol:
        k = known_keys.get(o['key'])
        # a known finding is identified by the obligation AND by what exactly fails there: any other failure under the
        # same obligation (a different detail) is a new violation
        if k is not None and known_matches(k, o):
            known_hit.append(o)
        else:
            new_viol.append(o)
    ev_dir = os.path.join(VERIF, 'evidence')
    os.makedirs(ev_dir, exist_ok=True)
    report_path = os.path.join(ev_dir, '%s.report.txt' % chk.pid)
    n_ob = len(chk.obligations)
    n_ok = sum(1 for o in chk.obligations if o['status'] == 'ok')
    wall = time.time() - chk.t0
    cov = {
        'obligations': n_ob,
        'discharged': n_ok,
        'checker_cmd': './check %s --tier %s' % (chk.pid, chk.tier),
        'trusted_base': TRUSTED_BASE,
        'exhaustive': True,
        'rule': 'every obligation is an instance of a rule of sa/rules/%s.py evaluated on the MIR-derived summaries of the current /repo tree; abstract classes (variant tuples x weak orders x sign/IEEE classes) are enumerated completely' % chk.pid,
        'rules': chk.rules,
        'samples': chk.samples[:40] if chk.samples else [{'note': 'no sample recorded'}],
        'analysed_functions': sorted(chk.analysed['functions']),
        'n_functions': len(chk.analysed['functions']),
        'n_paths': chk.analysed['paths'],
        'n_call_sites': chk.analysed['call_sites'],
        'n_loops': chk.analysed['loops'],
        'feature_configs': sorted(chk.analysed['configs']),
        'floors': chk.floors,
        'known_findings_hit': [o['key'] for o in known_hit],
        'undecided': [o['key'] for o in chk.obligations if o['status'] == 'undecided'],
        'notes': chk.notes,
    }
    if chk.selftest is not None:
        cov['selftest'] = chk.selftest
    if explanation:
        cov['explanation'] = explanation
    ev = {
        'property_id': chk.pid,
        'tier': chk.tier,
        'seed': int(os.environ.get('VERIF_SEED', '0') or 0),
        'level': level,
        'coverage': cov,
        'assumptions': assumptions or [],
        'wall_s': round(wall, 3),
        'violations': len(new_viol),
    }
    with open(os.path.join(ev_dir, '%s.json' % chk.pid), 'w') as fh:
        json.dump(ev, fh, indent=1, default=str)
    with open(report_path, 'w') as fh:
        fh.write('property %s tier %s: %d obligations, %d discharged, %d known findings, %d violations\n'
                 % (chk.pid, chk.tier, n_ob, n_ok, len(known_hit), len(new_viol)))
        for o in new_viol:
            fh.write('VIOLATION key=%s status=%s rule=%s\n   %s\n   where: %s\n   %s\n'
                     % (o['key'], o['status'], o['rule'], o['desc'], o['where'], o['detail']))
        for o in known_hit:
            fh.write('KNOWN key=%s\n   %s\n   %s\n' % (o['key'], o['desc'], o['detail']))
    for o in known_hit:
        print('KNOWN-FINDING: property=%s %s -- %s' % (chk.pid, o['key'], known_keys[o['key']].get('what', o['desc'])))
    import re as _re
    for k in known_keys:
        if k not in [o['key'] for o in known_hit]:
            m_ = _re.search(r'\[([a-z-]+)\]', k)
            if m_ and m_.group(1) not in chk.analysed['configs']:
                continue      # a finding of a feature configuration this tier does not analyse
            print('note: known finding %s did not reproduce on this tree (stale entry?)' % k)
    print('%s [%s]: %d obligations, %d discharged, %d known, %d violations; %d functions, %d paths, configs=%s, %.1fs'
          % (chk.pid, chk.tier, n_ob, n_ok, len(known_hit), len(new_viol), len(chk.analysed['functions']),
             chk.analysed['paths'], ','.join(sorted(chk.analysed['configs'])), wall))
    if new_viol:
        for o in new_viol[:15]:
            print(('  - %s [%s] %s :: %s' % (o['key'], o['status'], o['where'] or '', (o['detail'] or '').replace('\n', ' ')))[:330])
        if len(new_viol) > 15:
            print('  ... and %d more (see the report)' % (len(new_viol) - 15))
        print('VIOLATION property=%s replay=%s' % (chk.pid, report_path))
        return 1
    return 0
