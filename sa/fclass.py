"""Finite partition of IEEE floats at the constants a value is compared with.

If a float input is only ever compared with constants c1 < ... < cn (checked: anything
else raises NotParametric), the truth value of every comparison is constant on each cell of
  NaN | -inf | (-inf,c1) | {c1} | (c1,c2) | ... | {cn} | (cn,+inf) | +inf
so enumerating the cells covers all 2^64 bit patterns (-0.0 and +0.0 compare equal and
share the cell {0})."""
from fractions import Fraction

from . import terms as T
from .order import NotParametric


def constants_compared(paths, name):
    """All float constants `name` is compared with in the guards/returns of `paths`."""
    out = set()

    def visit(t):
        if t[0] == 'op' and t[1] in ('lt', 'le', 'gt', 'ge', 'eq', 'ne') and len(t[2]) == 2:
            a, b = t[2]
            for x, y in ((a, b), (b, a)):
                if strip(x) == T.sym(name) and y[0] == 'flt' and not isinstance(y[1], str):
                    out.add(y[1])
    for p in paths:
        for atom, pol in p.guard:
            if atom[0] != 'variant':
                T.walk(atom, visit)
        if p.ret is not None:
            T.walk(p.ret, visit)
    return out


def strip(t):
    while t[0] == 'op' and t[1] == 'f2f':
        t = t[2][0]
    return t


def cells(constants):
    cs = sorted(constants)
    out = ['nan', '-inf']
    prev = None
    for c in cs:
        out.append(('open', prev, c))
        out.append(('pt', c))
        prev = c
    out.append(('open', prev, None))
    out.append('inf')
    return out


def cell_str(c):
    if isinstance(c, str):
        return c
    if c[0] == 'pt':
        return '{%s}' % float(c[1])
    lo = '-inf' if c[1] is None else float(c[1])
    hi = '+inf' if c[2] is None else float(c[2])
    return '(%s,%s)' % (lo, hi)


def cmp_cell_const(op, cell, c):
    """Truth value of `x op c` for every x in cell (c a finite constant)."""
    if cell == 'nan':
        return op == 'ne'
    if cell == '-inf':
        rel = -1
    elif cell == 'inf':
        rel = 1
    elif cell[0] == 'pt':
        rel = (cell[1] > c) - (cell[1] < c)
    else:
        lo, hi = cell[1], cell[2]
        if hi is not None and hi <= c:
            rel = -1
        elif lo is not None and lo >= c:
            rel = 1
        else:
            raise NotParametric('constant %s splits cell %s' % (c, cell_str(cell)))
    return {'lt': rel < 0, 'le': rel <= 0, 'gt': rel > 0, 'ge': rel >= 0, 'eq': rel == 0, 'ne': rel != 0}[op]


SWAP = {'lt': 'gt', 'gt': 'lt', 'le': 'ge', 'ge': 'le', 'eq': 'eq', 'ne': 'ne'}


def eval_bool(t, cellenv):
    if t[0] == 'bool':
        return t[1]
    if t[0] == 'op':
        n = t[1]
        if n == 'not':
            return not eval_bool(t[2][0], cellenv)
        if n == 'and':
            return eval_bool(t[2][0], cellenv) and eval_bool(t[2][1], cellenv)
        if n == 'or':
            return eval_bool(t[2][0], cellenv) or eval_bool(t[2][1], cellenv)
        if n in SWAP:
            a, b = strip(t[2][0]), strip(t[2][1])
            if a[0] == 'sym' and a[1] in cellenv and b[0] == 'flt' and not isinstance(b[1], str):
                return cmp_cell_const(n, cellenv[a[1]], b[1])
            if b[0] == 'sym' and b[1] in cellenv and a[0] == 'flt' and not isinstance(a[1], str):
                return cmp_cell_const(SWAP[n], cellenv[b[1]], a[1])
        if n == 'is_nan':
            a = strip(t[2][0])
            if a[0] == 'sym' and a[1] in cellenv:
                return cellenv[a[1]] == 'nan'
    raise NotParametric('not a comparison of an input with a constant: %s' % T.show(t))


def guard_holds(guard, variants, cellenv):
    for atom, pol in guard:
        if atom[0] == 'variant':
            if (variants.get(atom[1]) == atom[2]) != pol:
                return False
        elif eval_bool(atom, cellenv) != pol:
            return False
    return True


def inside(cell, lo, hi):
    """cell is a subset of the open interval (lo, hi)."""
    if isinstance(cell, str):
        return False
    if cell[0] == 'pt':
        return lo < cell[1] < hi
    return cell[1] is not None and cell[2] is not None and cell[1] >= lo and cell[2] <= hi
