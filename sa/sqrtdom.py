"""Floating-point domain of square roots (obligation `sqrt-domain`, used by C01 C02 C04 C05).

The formula identities of the mean / comparison / proportion producers are decided over the reals, where a guard
such as `!is_finite(sqrt(var))` is pruned on finite data because var >= 0 there (Cauchy-Schwarz).  In floating point
that argument is only as good as the *shape* of the radicand: a difference of two nearly equal rounded quantities
(`sum_sq - mean * sum` on a constant sample) can come out one rounding unit below zero, its root is NaN, and the
producer answers InvalidInputData (or a NaN bound) for a sample that is inside the property's quantifier.

Rule.  For every path of a producer, every `sqrt(r)` that occurs in the path's guard or result must have a radicand
that is non-negative *as a floating-point value* (or NaN, which the producers' finiteness guards answer correctly) by
one of the following, decided on the term and the path's own guard literals only:
  * a non-negative constant, a converted unsigned count, `sqrt` / `abs` / `exp` of anything, an even power;
  * `a * a`; products, quotients and sums of radicand-safe operands (IEEE operations are sign-exact and a sum of two
    non-negative floats is non-negative), `max` with a safe operand, `f2f` / `min` of safe operands;
  * `a - b` only when the path carries `a >= b` (IEEE subtraction is exact in sign: a >= b implies fl(a - b) >= 0;
    for two converted counts the integer comparison suffices, the conversion being monotone), or
    for `1 - k/n` with converted counts under `k <= n` (correctly rounded division is monotone, so fl(k/n) <= 1);
  * any radicand r when the path carries the literal `r >= 0` / `!(r < 0)` for that same term (a clamp).
Everything else - in particular an unguarded difference - is reported with the radicand.  The rule is a sufficient
condition for the radicand to be sign-safe, so it can only err towards reporting; it is a necessary condition of the
property in the sense that a radicand that rounds below zero on admissible data makes the producer refuse it."""
from fractions import Fraction

from . import terms as T


def _zero(t):
    if t[0] == 'op' and t[1] == 'zero' and not t[2]:
        return True
    c = T.const_num(t)
    return c is not None and not isinstance(c, str) and c == 0


def _strip(t):
    while t[0] == 'op' and t[1] in ('f2f',) and len(t[2]) == 1:
        t = t[2][0]
    return t


def _int_like(t):
    """Integer-valued term built from counts (unsigned in this crate: a subtraction that would go negative is the
    overflow panic, not a negative value)."""
    if t[0] in ('int', 'sym'):
        return t[0] == 'sym' or t[1] >= 0
    if t[0] == 'op' and t[1] == 'f2i':
        return True     # a float-to-unsigned cast saturates at 0
    if t[0] == 'op' and t[1] in ('add', 'sub', 'mul', 'i2i', 'len', 'ssub', 'min', 'max') and t[2]:
        return all(_int_like(a) for a in t[2])
    return False


class Lits:
    """The comparison literals of one path, normalised to (name, a, b) facts that hold."""

    def __init__(self, guard):
        self.facts = set()
        for atom, pol in guard:
            if atom[0] != 'op':
                continue
            n = atom[1]
            if n == 'not' and atom[2][0][0] == 'op':
                atom, pol, n = atom[2][0], not pol, atom[2][0][1]
            if n in T.CMP_NEG and len(atom[2]) == 2:
                a, b = _strip(atom[2][0]), _strip(atom[2][1])
                # a negated comparison of floats is not the opposite comparison (NaN); record what is safe for the sign:
                # !(a < b) => a >= b or unordered; the unordered case makes the radicand NaN, which is not "negative"
                if not pol:
                    n = T.CMP_NEG[n]
                self.facts.add((n, a, b))
                self.facts.add((T.CMP_SWAP[n], b, a))

    def ge(self, a, b):
        a, b = _strip(a), _strip(b)
        return a == b or ('ge', a, b) in self.facts or ('gt', a, b) in self.facts or ('eq', a, b) in self.facts

    def nonneg(self, t):
        t = _strip(t)
        return any((n, t, z) in self.facts for n in ('ge', 'gt') for z in self._zeros())

    def _zeros(self):
        return [f[2] for f in self.facts if _zero(f[2])]


def radicand_safe(t, lits, depth=0):
    """True when t is >= 0 or NaN as a float by structure / by the path's literals."""
    t = _strip(t)
    if depth > 40:
        return False
    if lits.nonneg(t):
        return True
    c = T.const_num(t)
    if c is not None and t[0] != 'op':
        return (not isinstance(c, str) and c >= 0) or c in ('inf', 'nan')
    if _zero(t) or (t[0] == 'op' and t[1] == 'one' and not t[2]):
        return True
    if t[0] != 'op':
        return False
    n, a = t[1], t[2]
    if n == 'i2f':
        return _int_like(a[0])
    if n in ('sqrt', 'abs', 'exp'):
        return True
    if n == 'powi' and len(a) == 2 and a[1][0] == 'int':
        return a[1][1] % 2 == 0 or radicand_safe(a[0], lits, depth + 1)
    if n == 'mul' and len(a) == 2 and _strip(a[0]) == _strip(a[1]):
        return True
    if n in ('mul', 'div', 'add', 'min', 'fmin') and len(a) == 2:
        return radicand_safe(a[0], lits, depth + 1) and radicand_safe(a[1], lits, depth + 1)
    if n in ('max', 'fmax') and len(a) == 2:
        return radicand_safe(a[0], lits, depth + 1) or radicand_safe(a[1], lits, depth + 1)
    if n == 'sub' and len(a) == 2:
        x, y = _strip(a[0]), _strip(a[1])
        if lits.ge(x, y) and x != y:
            return True
        if x == y:
            return True
        # difference of two converted counts a >= b: the conversion is monotone, so fl(a) >= fl(b)
        if x[0] == 'op' and x[1] == 'i2f' and y[0] == 'op' and y[1] == 'i2f' and _int_like(x[2][0]) and _int_like(y[2][0]) and lits.ge(x[2][0], y[2][0]):
            return True
        # 1 - k/n with converted counts, k <= n on the path
        cx = T.const_num(x)
        one = (cx is not None and not isinstance(cx, str) and cx == 1 and x[0] != 'op') or (x[0] == 'op' and x[1] == 'one')
        if one and y[0] == 'op' and y[1] == 'div':
            k, m = _strip(y[2][0]), _strip(y[2][1])
            if k[0] == 'op' and k[1] == 'i2f' and m[0] == 'op' and m[1] == 'i2f' and _int_like(k[2][0]) and _int_like(m[2][0]):
                if lits.ge(m[2][0], k[2][0]) or lits.ge(m, k):
                    return True
    return False


def roots_of(p):
    """All sqrt sub-terms in the guard and the result of a path (outermost first, de-duplicated)."""
    out = []

    def f(s):
        if s[0] == 'op' and s[1] == 'sqrt' and s not in out:
            out.append(s)
    for atom, _ in p.guard:
        if atom[0] != 'variant':
            T.walk(atom, f)
    if getattr(p, 'ret', None) is not None:
        T.walk(p.ret, f)
    return out


def check_paths(chk, key, where, paths, what, counts=None):
    """One obligation per producer: every radicand met on any of its paths is sign-safe in floating point."""
    bad = []
    nroots = 0
    seen = set()
    for p in paths:
        lits = Lits(p.guard)
        for r in roots_of(p):
            nroots += 1
            if not radicand_safe(r[2][0], lits):
                d = T.show(r[2][0])
                if d not in seen:
                    seen.add(d)
                    bad.append(d)
    if counts is not None:
        counts['roots'] = counts.get('roots', 0) + nroots
    if not nroots:
        # every caller hands over a producer whose documented form has a square root: finding none means the rule
        # looked at the wrong thing (or the root moved behind an unmodelled callee) - not a pass
        chk.ob(key + ':sqrt-domain', 'sqrt-domain (IEEE sign)', '%s: radicands are sign-safe' % what, None, 'undecided: no square root found on the %d paths of a producer whose documented form has one' % len(paths), where)
        return 0
    chk.ob(key + ':sqrt-domain', 'sqrt-domain (IEEE sign)',
           '%s: every radicand on its paths is non-negative as a floating-point value by its shape or by a guard of the path (no unguarded difference under a square root)' % what,
           not bad, '' if not bad else 'the radicand %s can round below zero on admissible data (the root is then NaN and the sample is refused or a NaN bound returned): nothing on the path establishes that it is >= 0 in floating point' % bad[0][:300],
           where, sample={'roots': nroots, 'paths': len(paths)})
    return nroots
