"""Effect rules over the resolved call graph (engine E2)."""
from .facts import norm_path

HIDDEN = ('core::thread::LocalKey', 'core::thread::local', 'core::cell::', 'core::sync::', 'once_cell::', 'parking_lot::')


def hidden_state_calls(facts):
    """{local fn path: {hidden-state API path}} over every resolved call site of every instance,
    and the number of call sites inspected.  Thread-locals, cells, locks and atomics are the only
    ways safe code can keep state between calls (`static mut` needs unsafe, which the crate forbids);
    the lazily initialised constant goes through lazy_static and is checked to be a constant."""
    hits = {}
    n = 0
    for root, insts in facts.inst_roots.items():
        for ins in insts:
            for bb, c in ins['allcalls']:
                n += 1
                for pth in (c.get('path'), c.get('rpath')):
                    q = norm_path(pth) if pth else ''
                    if any(q.startswith(h) for h in HIDDEN):
                        hits.setdefault(facts.fn_path(ins['def']), set()).add(q)
    return hits, n


def obligation(chk, pid, facts, sfx, what):
    hits, n = hidden_state_calls(facts)
    chk.analysed['call_sites'] += n
    chk.ob('%s:no-hidden-state%s' % (pid, sfx), 'E2 who-may-call', '%s; %d resolved call sites inspected' % (what, n),
           not hits, '; '.join('%s calls %s' % (k, sorted(v)[:2]) for k, v in sorted(hits.items())[:3]), 'resolved call graph')
