"""Entry point: python3 -m sa.check <Cxx> --tier quick|thorough [--replay file]"""
import importlib
import os
import sys
import traceback

from . import core


class Ctx:
    def __init__(self, tier, repo=None, only=None):
        self.tier = tier
        self.repo = repo
        self.only = only

    def configs(self, need=None):
        """Feature configs to analyse: default for quick; every advertised one for thorough."""
        if self.only:
            return list(self.only)
        if self.tier == 'quick':
            # the default feature set and the one with every feature on (code under `cfg(feature = ..)` exists in
            # either of the two); the three intermediate sets are left to the thorough tier
            return ['default', 'all']
        return ['default', 'std', 'std-approx', 'std-serde', 'all']

    def facts(self, cfg='default'):
        return core.get_facts(cfg, repo=self.repo)


def main(argv):
    if len(argv) < 2:
        print('usage: check <Cxx> [--tier quick|thorough] [--replay file]')
        return 2
    pid = argv[1]
    tier = 'quick'
    if '--tier' in argv:
        tier = argv[argv.index('--tier') + 1]
    if '--replay' in argv:
        p = argv[argv.index('--replay') + 1]
        try:
            print(open(p).read())
        except OSError as e:
            print('cannot read', p, e)
        # fall through: re-run the check against the current tree
    chk = core.Check(pid, tier)
    try:
        mod = importlib.import_module('sa.rules.%s' % pid)
    except ImportError as e:
        print('no rule module for %s: %s' % (pid, e))
        return 2
    ctx = Ctx(tier)
    # a check never hangs: past the budget the run is reported as undecided (fail closed)
    import signal

    class Budget(Exception):
        pass

    def on_alarm(signum, frame):
        raise Budget('analysis budget exceeded')
    signal.signal(signal.SIGALRM, on_alarm)
    signal.alarm(int(os.environ.get('VERIF_BUDGET_S', '600' if tier == 'quick' else '3000')))
    try:
        mod.run(chk, ctx)
    except core.FactsUnavailable as e:
        chk.ob('%s:facts:%s' % (pid, e.cfg), 'facts', 'the crate builds under feature config %s so that facts can be extracted' % e.cfg,
               False, 'cargo check failed:\n' + e.log[-1500:], 'Cargo.toml [features]')
    except Exception as e:
        chk.ob('%s:internal' % pid, 'internal', 'the analysis completed', None,
               'analysis aborted: %r\n%s' % (e, traceback.format_exc()[-2000:]))
    if tier == 'thorough' and not os.environ.get('VERIF_NO_SELFTEST'):
        # the checker's own validation: mutants must be reported, behaviour-preserving rewrites must stay silent
        from . import selftest
        try:
            mres = selftest.run_mutants(pid)
            sres = selftest.run_silence(pid) if pid in selftest.ALL else []
            pres = selftest.run_patches(pid)
            chk.selftest = {'mutants': mres, 'silence': sres, 'patches': pres}
            for r in pres:
                what = ('the independently seeded change %s is reported by this check' if r['kind'] == 'seed'
                        else 'the independently written behaviour-preserving refactoring %s raises no alarm') % r['patch']
                if r['status'] in ('MISSED', 'ALARM'):
                    chk.ob('%s:selftest:patch:%s' % (pid, r['patch']), 'selftest', what, False,
                           'CHECKER DEFECT (%s): %s' % ('missed change' if r['status'] == 'MISSED' else 'false alarm', r.get('keys')))
                elif r['status'] in ('reported', 'silent'):
                    chk.ob('%s:selftest:patch:%s' % (pid, r['patch']), 'selftest', what, True, '%s' % (r.get('keys') or ''))
            for r in mres:
                if r['status'] == 'MISSED':
                    chk.ob('%s:selftest:mutant:%s' % (pid, r['mutant']), 'selftest', 'the seeded mutant "%s" is reported by this check' % r.get('description', r['mutant']),
                           False, 'CHECKER DEFECT: the mutant compiles and changes the behaviour but no obligation failed')
                elif r['status'] == 'reported':
                    chk.ob('%s:selftest:mutant:%s' % (pid, r['mutant']), 'selftest', 'the seeded mutant "%s" is reported by this check' % r.get('description', r['mutant']), True, 'reported: %s' % r.get('reported_keys'))
            for r in sres:
                if r['status'] == 'ALARM':
                    chk.ob('%s:selftest:silence:%s' % (pid, r['rewrite']), 'selftest', 'the behaviour-preserving rewrite "%s" raises no alarm' % r.get('description', r['rewrite']),
                           False, 'CHECKER DEFECT (false alarm): %s' % (r.get('alarm_keys'),))
                elif r['status'] == 'silent':
                    chk.ob('%s:selftest:silence:%s' % (pid, r['rewrite']), 'selftest', 'the behaviour-preserving rewrite "%s" raises no alarm' % r.get('description', r['rewrite']), True, '')
        except Exception as e:
            chk.notes.append('self-test aborted: %r' % (e,))
    signal.alarm(0)
    level = getattr(mod, 'LEVEL', 'proof')
    return core.finish(chk, level=level, explanation=getattr(mod, 'EXPLANATION', None),
                       assumptions=getattr(mod, 'ASSUMPTIONS', None))


if __name__ == '__main__':
    sys.exit(main(sys.argv))
