"""Who may construct a two-sided interval (shared by C14: well-formedness, and C11: no Ok result with low > high).

A `TwoSided` aggregate is written only by the checked constructor (whose decision table C14 decides), by clones,
by arithmetic on well-formed operands (C13), by derived deserialisation - or by a function that is *proven* here to
keep low <= high: it is summarised with well-formed interval operands and element operands in every weak order
(parametricity: it may only compare, move and clone element values) and every two-sided interval it returns or
stores must have low <= high in every class.  Anything else is reported (fail closed)."""
from . import terms as T
from .ivl import describe_env
from .order import guard_holds, eval_term, NotParametric
from .symex import Unsupported
from .tables import summarize, kinds_str, show_val


INCREASING = {'exp', 'ln', 'sqrt', 'exp_m1', 'ln_1p', 'cbrt', 'log2', 'log10', 'exp2', 'tanh', 'atan', 'f2f', 'ref'}
DECREASING = {'neg'}


def obligation(chk, PID, facts, sfx, m, cfg):
    TWO = m.kinds['two'][0]
    # who may construct a two-sided interval
    allowed_traits = {'core::clone::Clone', 'core::ops::Add', 'core::ops::Sub', 'core::ops::Mul', 'core::ops::Div', 'core::ops::Neg',
                      'serde::Deserialize', 'serde::de::Deserialize'}
    from .facts import norm_path
    sites = []
    for b in facts.raw['bodies']:
        fn = facts.fns[b['def']]
        for bl in b['blocks']:
            if bl['cleanup']:
                continue
            for st in bl['stmts']:
                rv = st.get('rv', {})
                if rv.get('agg') == 'adt' and rv.get('adt') == m.path and rv.get('variant') == TWO:
                    sites.append(fn)
    callers = {}
    for root, insts in facts.inst_roots.items():
        for ins in insts:
            for bb, c in ins['allcalls']:
                if 'inst' in c:
                    callers.setdefault(insts[c['inst']]['def'], set()).add(ins['def'])
    for root, insts in facts.inst_roots.items():
        for ins in insts:
            for (bb, si), cid in ins['closuremap'].items():
                callers.setdefault(insts[cid]['def'], set()).add(ins['def'])

    def site_ok(fn, depth=0):
        d = fn['id']
        if fn['kind'] == 'Closure':
            return site_ok(facts.fns[fn['parent']], depth + 1)
        imp = facts.impls.get(fn.get('impl'))
        if imp is not None and imp['self_ty'].get('adt') == m.path:
            if imp['trait'] is None and fn.get('name') in ('new', 'relative_to') and fn.get('exported'):
                return True
            if imp['trait'] is not None and norm_path(imp['trait']) in allowed_traits:
                return True
        if not fn.get('exported') and (imp is None or imp['trait'] is None) and depth < 6:
            # a private helper (free function, or inherent method of the interval type or of a private helper type)
            # is as trusted as every site it is called from
            cs = callers.get(d, set())
            return bool(cs) and all(site_ok(facts.fns[c], depth + 1) for c in cs if c != d)
        if fn.get('path', '').startswith('interval::_::') or 'serde' in fn.get('path', ''):
            return imp is not None and imp.get('derived', False)
        return False
    def preserves(fn):
        """An unlisted site: decide from its summary that every two-sided interval it returns / stores satisfies
        low <= high, for well-formed interval operands and element operands in every weak order (parametricity: the
        function may only compare, move and clone element values).  -> (True|False|None, detail)"""
        while fn['kind'] == 'Closure':
            fn = facts.fns[fn['parent']]
        bases, extra, names = [], [], []
        for i, ty in enumerate(fn.get('inputs') or []):
            inner = ty.get('inner') if ty.get('k') == 'ref' else ty
            nm = 'ABCDEFGH'[i] if i < 8 else 'P%d' % i
            if inner.get('adt') == m.path:
                bases.append(nm)
            elif inner.get('k') == 'param':
                nm = 'x%d' % i
                extra.append(nm)
            else:
                return None, 'parameter #%d of type %s is neither an interval nor an element value' % (i, ty.get('s'))
            names.append(nm)
        try:
            sx, paths = summarize(facts, fn, names)
        except Unsupported as e:
            return None, 'outside the analysable fragment: %s' % e
        chk.saw(facts, fn, paths=len(paths))
        n = 0

        def peel(lo, hi):
            """strip a common monotone function from both bounds: increasing ones keep the order of their arguments,
            decreasing ones reverse it (exp / ln / sqrt / casts between float types on their domain; negation)"""
            for _ in range(8):
                if lo[0] == hi[0] == 'op' and lo[1] == hi[1] and len(lo[2]) == len(hi[2]) == 1:
                    if lo[1] in INCREASING:
                        lo, hi = lo[2][0], hi[2][0]
                        continue
                    if lo[1] in DECREASING:
                        lo, hi = hi[2][0], lo[2][0]
                        continue
                break
            return lo, hi

        def two_sided_ok(v, env):
            """v: the unevaluated result term"""
            if isinstance(v, tuple) and v and v[0] == 'adt':
                if v[1] == m.path and v[2] == TWO:
                    spec = m.kinds['two']
                    lo, hi = peel(v[3][spec[1]], v[3][spec[2]])
                    lo, hi = eval_term(lo, env), eval_term(hi, env)
                    if not (isinstance(lo, int) and isinstance(hi, int)) or isinstance(lo, bool) or isinstance(hi, bool):
                        raise NotParametric('bound of the result is not an input value')
                    return lo <= hi
                return all(two_sided_ok(x, env) for x in v[3])
            if isinstance(v, tuple) and v and v[0] == 'tuple':
                return all(two_sided_ok(x, env) for x in v[1])
            return True
        try:
            for kinds, variants, env in m.classes(bases, extra):
                n += 1
                hits = [p for p in paths if guard_holds(p.guard, variants, env)]
                if not hits:
                    return None, 'no path covers class %s' % describe_env(env)
                for p in hits:
                    if p.unknowns:
                        return None, 'unmodelled callee %s' % (p.unknowns[0][0],)
                    if not p.is_ret():
                        continue
                    vals = ([p.ret] if p.ret is not None else []) + [v for v in (p.effects or {}).values() if v is not None]
                    for v in vals:
                        if not two_sided_ok(v, env):
                            return False, 'for %s operands with %s it builds the two-sided interval %s with low > high' % (
                                kinds_str(kinds) if kinds else 'element', describe_env(env) or 'no bounds', show_val(v)[:120])
        except NotParametric as e:
            return None, 'not parametric in the element values: %s' % e
        return True, 'low <= high in all %d classes of well-formed operands' % n
    seen = set()
    for fn in sites:
        if fn['id'] in seen:
            continue
        seen.add(fn['id'])
        good, why = site_ok(fn), ''
        if not good:
            good, why = preserves(fn)
            if good is None:
                why = 'unlisted construction site of the two-sided variant, and low <= high could not be decided: ' + why
            elif good is False:
                why = 'unlisted construction site of the two-sided variant: ' + why
        chk.ob('%s:construct:%s%s' % (PID, fn['path'], sfx), 'who-may-construct',
               'a two-sided interval is built only by the checked constructor, clones, arithmetic on well-formed operands, or a function proven to keep low <= high',
               good, why if good is not True else '', facts.loc(fn['id']))
    return len(seen)

