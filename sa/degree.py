"""Scaling degree of intermediates (a necessary condition for "no spurious overflow / underflow").

Two expressions that are equal over the reals can differ in floating point when one of them forms an intermediate
value that scales with a higher power of the data: (H*H)^2 * var under a square root overflows for data whose
H^2 * sqrt(var) is an ordinary number.  `max_degree` computes the largest |degree of homogeneity| under data x -> c*x
over all subterms; the rules require degree(code) <= degree(documented form)."""
from fractions import Fraction

from . import terms as T


def max_degree(t, degs):
    """Largest |scaling degree| (data x -> c*x) over the subterms of t, or None when a subterm is not homogeneous.
    degs: degree of the state symbols (None: a log-space quantity - only exp(..) of it scales, with degree 1)."""
    best = [Fraction(0)]

    class Mixed(Exception):
        pass

    def deg(u):
        k = u[0]
        if k in ('int', 'flt', 'bool'):
            return 'any' if (k != 'bool' and not isinstance(u[1], str) and u[1] == 0) else Fraction(0)
        if k == 'call' and u[1] == 'inverse_cdf':
            return Fraction(0)     # a quantile of a standardised distribution: dimensionless
        if k == 'sym':
            d = degs.get(u[1], Fraction(0))
            return Fraction(0) if d is None else d
        if k == 'op':
            n, a = u[1], u[2]
            if n in ('zero',):
                return 'any'
            if n in ('one', 'epsilon'):
                return Fraction(0)
            if n == 'exp':
                # exp of a log-space mean scales like the data; its argument is a logarithm (degree 0)
                r = Fraction(1)
            elif n in ('i2f', 'f2f', 'neg', 'abs', 'f2i', 'i2i', 'ref'):
                r = deg(a[0])
            elif n == 'mul':
                d1, d2 = deg(a[0]), deg(a[1])
                r = 'any' if 'any' in (d1, d2) else d1 + d2
            elif n == 'div':
                d1, d2 = deg(a[0]), deg(a[1])
                r = 'any' if d1 == 'any' else d1 - (Fraction(0) if d2 == 'any' else d2)
            elif n in ('add', 'sub', 'fmin', 'fmax', 'min', 'max'):
                d1, d2 = deg(a[0]), deg(a[1])
                if d1 == 'any':
                    r = d2
                elif d2 == 'any' or d1 == d2:
                    r = d1
                else:
                    raise Mixed()
            elif n == 'sqrt':
                d1 = deg(a[0])
                r = d1 if d1 == 'any' else d1 / 2
            elif n == 'ln':
                deg(a[0])
                r = Fraction(0)
            elif n == 'powi':
                d1 = deg(a[0])
                e = a[1][1] if a[1][0] == 'int' else None
                if e is None:
                    raise Mixed()
                r = d1 if d1 == 'any' else d1 * e
            else:
                raise Mixed()
            if r != 'any':
                best[0] = max(best[0], abs(r))
            return r
        raise Mixed()
    try:
        deg(t)
    except Mixed:
        return None
    return best[0]




# ---------------------------------------------------------------------------------------------------
# growth orders in several gradings (data scale, sample size) and their Pareto frontier

def _name_order(name, grading):
    """order of growth of a state symbol: grading 'data' (x -> c*x) or 'count' (n -> c*n, sums grow with n)"""
    base = name.rstrip('ab_xy')
    if grading == 'data':
        if base.startswith('S2') or base.startswith('v'):
            return Fraction(2)
        if base.startswith('S1') or base.startswith('m'):
            return Fraction(1)
        return Fraction(0)
    if base.startswith('S1') or base.startswith('S2') or base in ('n',) or base.startswith('n'):
        return Fraction(1)
    return Fraction(0)


def growth_points(t, recognise=None, gradings=('data', 'count')):
    """{(order per grading)} over all subterms of t (upper growth bounds: sums take the max, products add).
    `recognise(u)` may return a symbol to stand for a subterm (a statistic the code recomputes from the sums).
    The arguments of a quantile call are not part of the value's magnitude; the degrees-of-freedom term inside a
    Student-t quantile is analysed as a root of its own."""
    pts = set()
    memo = {}

    def go(u):
        if u in memo:
            return memo[u]
        r0 = recognise(u) if recognise is not None and u[0] in ('op',) else None
        if r0 is not None:
            u2 = r0
        else:
            u2 = u
        k = u2[0]
        zero = tuple(Fraction(0) for _ in gradings)
        if k in ('int', 'flt', 'bool', 'str', 'unit'):
            r = zero
        elif k == 'sym':
            r = tuple(_name_order(u2[1], g) for g in gradings)
        elif k == 'call':
            if u2[1] == 'inverse_cdf':
                dist = u2[2][0]
                if dist[0] == 'adt':
                    for f in dist[3]:
                        go(f)
            r = zero
        elif k == 'adt':
            for f in u2[3]:
                go(f)
            r = zero
        elif k == 'op':
            n, a = u2[1], u2[2]
            if n in ('zero', 'one', 'epsilon'):
                r = zero
            elif n in ('i2f', 'f2f', 'neg', 'abs', 'f2i', 'i2i', 'ref', 'floor', 'round', 'ceil', 'trunc'):
                r = go(a[0])
            elif n == 'mul':
                x, y = go(a[0]), go(a[1])
                r = tuple(p + q for p, q in zip(x, y))
            elif n == 'div':
                x, y = go(a[0]), go(a[1])
                r = tuple(p - q for p, q in zip(x, y))
            elif n in ('add', 'sub', 'fmin', 'fmax', 'min', 'max'):
                x, y = go(a[0]), go(a[1])
                r = tuple(max(p, q) for p, q in zip(x, y))
            elif n == 'sqrt':
                r = tuple(p / 2 for p in go(a[0]))
            elif n == 'powi' and a[1][0] == 'int':
                r = tuple(p * a[1][1] for p in go(a[0]))
            elif n in ('exp',):
                go(a[0])
                r = tuple(Fraction(1) if g == 'data' else Fraction(0) for g in gradings)
            elif n in ('ln',):
                go(a[0])
                r = zero
            else:
                for x in a:
                    if isinstance(x, tuple) and x and x[0] in ('op', 'sym', 'call', 'adt', 'int', 'flt'):
                        go(x)
                r = zero
        else:
            r = zero
        memo[u] = r
        pts.add(r)
        return r
    go(t)
    return pts


def undominated(code_pts, ref_pts):
    """points of the code that no point of the reference dominates component-wise"""
    return sorted(p for p in code_pts if not any(all(q[i] >= p[i] for i in range(len(p))) for q in ref_pts))
