"""Scaling degree of intermediates (a necessary condition for "no spurious overflow / underflow").

Two expressions that are equal over the reals can differ in floating point when one of them forms an intermediate
value that scales with a higher power of the data: (H*H)^2 * var under a square root overflows for data whose
H^2 * sqrt(var) is an ordinary number.  `max_degree` computes the largest |degree of homogeneity| under data x -> c*x
over all subterms; the rules require degree(code) <= degree(documented form)."""
from fractions import Fraction

from . import terms as T


def max_degree(t, degs):
    """Largest |scaling degree| (data x -> c*x) over the subterms of t, or None when a subterm is not homogeneous.
    degs: degree of the state symbols (None: a log-space quantity - only exp(..) of it scales, with degree 1)."""
    best = [Fraction(0)]

    class Mixed(Exception):
        pass

    def deg(u):
        k = u[0]
        if k in ('int', 'flt', 'bool'):
            return 'any' if (k != 'bool' and not isinstance(u[1], str) and u[1] == 0) else Fraction(0)
        if k == 'call' and u[1] == 'inverse_cdf':
            return Fraction(0)     # a quantile of a standardised distribution: dimensionless
        if k == 'sym':
            d = degs.get(u[1], Fraction(0))
            return Fraction(0) if d is None else d
        if k == 'op':
            n, a = u[1], u[2]
            if n in ('zero',):
                return 'any'
            if n in ('one', 'epsilon'):
                return Fraction(0)
            if n == 'exp':
                # exp of a log-space mean scales like the data; its argument is a logarithm (degree 0)
                r = Fraction(1)
            elif n in ('i2f', 'f2f', 'neg', 'abs', 'f2i', 'i2i', 'ref'):
                r = deg(a[0])
            elif n == 'mul':
                d1, d2 = deg(a[0]), deg(a[1])
                r = 'any' if 'any' in (d1, d2) else d1 + d2
            elif n == 'div':
                d1, d2 = deg(a[0]), deg(a[1])
                r = 'any' if d1 == 'any' else d1 - (Fraction(0) if d2 == 'any' else d2)
            elif n in ('add', 'sub', 'fmin', 'fmax', 'min', 'max'):
                d1, d2 = deg(a[0]), deg(a[1])
                if d1 == 'any':
                    r = d2
                elif d2 == 'any' or d1 == d2:
                    r = d1
                else:
                    raise Mixed()
            elif n == 'sqrt':
                d1 = deg(a[0])
                r = d1 if d1 == 'any' else d1 / 2
            elif n == 'ln':
                deg(a[0])
                r = Fraction(0)
            elif n == 'powi':
                d1 = deg(a[0])
                e = a[1][1] if a[1][0] == 'int' else None
                if e is None:
                    raise Mixed()
                r = d1 if d1 == 'any' else d1 * e
            else:
                raise Mixed()
            if r != 'any':
                best[0] = max(best[0], abs(r))
            return r
        raise Mixed()
    try:
        deg(t)
    except Mixed:
        return None
    return best[0]


