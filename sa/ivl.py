"""Shared model of `Interval<T>` for the table rules (C07, C13, C14, C15, C19).

The meaning of the enum's variants is not assumed from their names or order: it is read off
the summaries of the three public constructors (`new`, `new_upper`, `new_lower`), so a
renamed / reordered variant does not disturb the rules, and a constructor that builds the
wrong variant is a violation of C14.
"""
from . import terms as T
from .symex import Summarizer, Unsupported
from .order import weak_orders, eval_term, guard_holds, NotParametric, NEG_INF, POS_INF
from .types import RESULT, OPTION


class IvlModel:
    def __init__(self, facts):
        self.facts = facts
        self.problems = []
        adts = [a for a in facts.raw['adts'] if a['path'].split('::')[-1] == 'Interval' and a['kind'] == 'enum' and a['exported']]
        self.adt = adts[0] if len(adts) == 1 else None
        self.kinds = {}
        if self.adt is None:
            self.problems.append('exported enum `Interval` not found')
            return
        self.path = self.adt['path']
        self.vnames = [v['name'] for v in self.adt['variants']]
        self.arity = [len(v['fields']) for v in self.adt['variants']]
        self._learn_kinds()

    def _summ(self, fn, names):
        sx = Summarizer(self.facts, assume_no_overflow=True)
        return sx, sx.summarize(fn['id'], arg_names=names)

    def _learn_kinds(self):
        f = self.facts
        new = f.inherent(self.path, 'new')
        up = f.inherent(self.path, 'new_upper')
        lo = f.inherent(self.path, 'new_lower')
        if not (new and up and lo):
            self.problems.append('public constructors new/new_upper/new_lower not all found')
            return
        try:
            _, r = self._summ(up, ['low'])
            rets = [p.ret for p in r if p.is_ret()]
            if len(rets) == 1 and rets[0][0] == 'adt' and rets[0][1] == self.path and rets[0][3] == (T.sym('low'),):
                self.kinds['upper'] = (rets[0][2], 0)
            _, r = self._summ(lo, ['high'])
            rets = [p.ret for p in r if p.is_ret()]
            if len(rets) == 1 and rets[0][0] == 'adt' and rets[0][1] == self.path and rets[0][3] == (T.sym('high'),):
                self.kinds['lower'] = (rets[0][2], 0)
            _, r = self._summ(new, ['low', 'high'])
            for p in r:
                if p.is_ret() and p.ret[0] == 'adt' and p.ret[1] == RESULT and p.ret[2] == 0:
                    v = p.ret[3][0]
                    if v[0] == 'adt' and v[1] == self.path and set(v[3]) == {T.sym('low'), T.sym('high')} and len(v[3]) == 2:
                        self.kinds['two'] = (v[2], v[3].index(T.sym('low')), v[3].index(T.sym('high')))
        except Unsupported as e:
            self.problems.append('constructor summaries not analysable: %s' % e)
        if set(self.kinds) != {'two', 'upper', 'lower'} or len({k[0] for k in self.kinds.values()}) != 3:
            self.problems.append('could not identify the three interval kinds from the public constructors: %r' % (self.kinds,))

    def ok(self):
        return not self.problems

    # ------------------------------------------------------------------ symbolic intervals
    def kind_of_variant(self, v):
        for k, spec in self.kinds.items():
            if spec[0] == v:
                return k
        return None

    def field_syms(self, base, v):
        """Names of the bound symbols of `base` when it is variant v (as expand_variant names them)."""
        fields = self.adt['variants'][v]['fields']
        out = []
        for i, f in enumerate(fields):
            nm = f['name']
            out.append('%s.%s.%s' % (base, self.vnames[v], i if nm.isdigit() else nm))
        return out

    def bounds(self, base, kind):
        """(low symbol name | None, high symbol name | None) of `base` of the given kind."""
        spec = self.kinds[kind]
        fs = self.field_syms(base, spec[0])
        if kind == 'two':
            return fs[spec[1]], fs[spec[2]]
        if kind == 'upper':
            return fs[0], None
        return None, fs[0]

    def value(self, base, kind):
        """The term of an interval-valued input `base` of the given kind."""
        spec = self.kinds[kind]
        fs = self.field_syms(base, spec[0])
        return ('adt', self.path, spec[0], tuple(T.sym(n) for n in fs))

    def denote(self, base, kind, env):
        lo, hi = self.bounds(base, kind)
        return (env[lo] if lo else NEG_INF, env[hi] if hi else POS_INF)

    def classes(self, bases, extra=()):
        """Every abstract class for interval inputs `bases` (+ extra point symbols):
        yields (kinds tuple, variants dict, env).  Only well-formed intervals (low <= high)."""
        import itertools
        for kinds in itertools.product(('two', 'upper', 'lower'), repeat=len(bases)):
            names = []
            variants = {}
            wf = []
            for b, k in zip(bases, kinds):
                lo, hi = self.bounds(b, k)
                variants[T.sym(b)] = self.kinds[k][0]
                if lo:
                    names.append(lo)
                if hi:
                    names.append(hi)
                if lo and hi:
                    wf.append((lo, hi))
            names.extend(extra)
            for env in weak_orders(names):
                if all(env[lo] <= env[hi] for lo, hi in wf):
                    yield kinds, variants, env

    def decode(self, val, env=None):
        """Evaluated adt value of type Interval -> (kind, lo, hi) with infinities."""
        if val[0] != 'adt' or val[1] != self.path:
            return None
        k = self.kind_of_variant(val[2])
        spec = self.kinds[k]
        if k == 'two':
            return (k, val[3][spec[1]], val[3][spec[2]])
        if k == 'upper':
            return (k, val[3][0], POS_INF)
        return (k, NEG_INF, val[3][0])


def describe_env(env):
    """Readable weak order, e.g. 'A.lo < B.lo = A.hi < B.hi'."""
    by = {}
    for n, r in env.items():
        by.setdefault(r, []).append(n)
    return ' < '.join(' = '.join(sorted(by[r])) for r in sorted(by))
