"""Statistic fields and auxiliary fields of the state types.

The properties speak about what the *queries of the pinned API* return (sample_count / sample_mean / ci_mean, value(),
population / successes / ci, ...).  A field of a state type that none of these queries reads - a tally kept for a new
accessor, a range tracker, a label - is *auxiliary*: it cannot influence any decided output.  The summariser replaces
auxiliary fields by the absorbing value `terms.AUX` (reads yield AUX, writes are dropped, choices on AUX go both ways
without adding a path condition and arms that agree afterwards are joined again), so that a state type may grow new
fields without the rules losing the statistic fields they are anchored in.  Whether a field is auxiliary is decided
from the summaries of the queries themselves (which field symbols of `self` occur anywhere in their path conditions,
results, events or unknown calls); a query that cannot be summarised makes every field of its type a statistic field
(nothing erased: the rules then fail closed exactly as before)."""
from . import terms as T

# the query API of the pinned tree, per state type (last path segment of the exported struct)
OBSERVERS = {
    'KahanSum': ['value'],
    'Arithmetic': ['ci_mean', 'sample_count', 'sample_mean', 'sample_sem', 'sample_std_dev', 'sample_variance'],
    'Harmonic': ['ci_mean', 'sample_count', 'sample_mean', 'sample_sem'],
    'Geometric': ['ci_mean', 'sample_count', 'sample_mean', 'sample_sem'],
    'Paired': ['ci_mean', 'sample_count', 'sample_mean', 'sample_sem'],
    'Unpaired': ['ci_mean', 'stats_a', 'stats_b'],
    'Stats': ['ci', 'is_significant', 'population', 'successes', 'index'],
}


def _syms(t, out):
    if not isinstance(t, tuple) or not t:
        return
    k = t[0]
    if k == 'sym':
        out.add(t[1])
    elif k in ('op', 'call'):
        for a in t[2]:
            _syms(a, out)
    elif k == 'adt':
        for a in t[3]:
            _syms(a, out)
    elif k == 'tuple':
        for a in t[1]:
            _syms(a, out)
    elif k == 'closure':
        for a in t[3]:
            _syms(a, out)
    elif k == 'variant':
        _syms(t[1], out)


def discover(facts):
    from .symex import Summarizer, Unsupported
    out = {}
    notes = []
    for adt in facts.raw['adts']:
        name = adt['path'].split('::')[-1]
        if not adt.get('exported') or name not in OBSERVERS or len(adt.get('variants') or []) != 1 or adt.get('kind', 'struct') == 'enum':
            continue
        fields = [fl['name'] for fl in adt['variants'][0]['fields']]
        read = set()
        whole = False
        found = 0
        for q in OBSERVERS[name]:
            fn = facts.inherent(adt['path'], q)
            if fn is None:
                continue
            found += 1
            try:
                sx = Summarizer(facts, assume_no_overflow=False)
                names = ['self'] + ['arg%d' % i for i in range(1, len(fn.get('inputs') or []))]
                paths = sx.summarize(fn['id'], arg_names=names)
            except (Unsupported, KeyError, IndexError, TypeError, RecursionError) as e:
                whole = True
                notes.append('%s::%s not summarised (%s): no field of %s is treated as auxiliary' % (name, q, str(e)[:80], name))
                break
            syms = set()
            for p in paths:
                for atom, pol in p.guard:
                    _syms(atom, syms)
                if p.ret is not None:
                    _syms(p.ret, syms)
                for e in p.events:
                    for x in e[1:]:
                        _syms(x, syms)
                for u in p.unknowns:
                    for x in u:
                        _syms(x, syms)
                if p.is_panic():
                    pass
            for s in syms:
                if s == 'self' or s == 'self*':
                    whole = True
                for pre in ('self.', 'self*.'):
                    if s.startswith(pre):
                        read.add(s[len(pre):].split('.')[0].rstrip('*'))
        if whole or not found:
            continue
        aux = set(i for i, fl in enumerate(fields) if fl not in read)
        if aux and len(aux) < len(fields):
            out[adt['path']] = aux
    return out, notes
