"""Exactness of float expressions over counts (engine E9).

The real-mode rules read a guard such as `n * (k / n) >= 10` as `k >= 10`.  That is only what the code decides if
the float expression is computed without rounding.  `exact(t)` is a sufficient syntactic condition: the value
of t in IEEE double arithmetic equals its real value for all counts below 2^52:

  integer-typed symbols and constants, int -> float conversions of them        exact, integer-valued
  float constants                                                             exact iff representable
  a + b, a - b of exact integer-valued a, b                                   exact, integer-valued
  c * a with c a constant integer of magnitude <= 1024 and a exact integer    exact, integer-valued
  a / 2^j of an exact a                                                       exact
  everything else (quotients of counts, products of two counts, sqrt, ...)    not exact

A domain guard `lhs < rhs` is *robust* when both sides are exact; otherwise inputs exactly on the boundary can
be misclassified by one ulp (28 trials with 18 successes: n * (1 - k/n) = 9.999999999999998 < 10).
"""
from fractions import Fraction

from . import terms as T


def _representable(c):
    try:
        return Fraction(float(c)) == Fraction(c)
    except (OverflowError, ValueError, TypeError):
        return False


def exact(t):
    """-> (exact, integer_valued)"""
    k = t[0]
    if k == 'int':
        return True, True
    if k == 'flt':
        if isinstance(t[1], str):
            return False, False
        return _representable(t[1]), Fraction(t[1]).denominator == 1
    if k == 'sym':
        return True, True     # callers pass terms whose free symbols are counts
    if k == 'op':
        n, a = t[1], t[2]
        if n in ('i2f', 'f2f', 'i2i') and len(a) == 1:
            return exact(a[0])
        if n in ('add', 'sub') and len(a) == 2:
            (e1, i1), (e2, i2) = exact(a[0]), exact(a[1])
            ok = e1 and e2 and i1 and i2
            return ok, ok
        if n == 'neg' and len(a) == 1:
            return exact(a[0])
        if n == 'mul' and len(a) == 2:
            (e1, i1), (e2, i2) = exact(a[0]), exact(a[1])

            def small(x):
                x = x[2][0] if (x[0] == 'op' and x[1] in ('i2f', 'f2f')) else x
                return x[0] in ('int', 'flt') and not isinstance(x[1], str) and Fraction(x[1]).denominator == 1 and abs(Fraction(x[1])) <= 1024
            ok = e1 and e2 and i1 and i2 and (small(a[0]) or small(a[1]))
            return ok, ok
        if n == 'div' and len(a) == 2:
            e1, i1 = exact(a[0])
            d = a[1]
            if e1 and d[0] == 'flt' and not isinstance(d[1], str):
                f = Fraction(d[1])
                if f > 0 and f.denominator == 1 and (int(f) & (int(f) - 1)) == 0:
                    return True, False
            return False, False
    return False, False


def has_conversion(t):
    """the term does arithmetic on an int -> float conversion of a symbolic count (not merely converts it)"""
    found = []

    def visit(x):
        if x[0] == 'op' and x[1] in ('add', 'sub', 'mul', 'div', 'neg'):
            for y in x[2]:
                inner = y
                if inner[0] == 'op' and inner[1] in ('i2f', 'f2f') and len(inner[2]) == 1:
                    z = inner[2][0]
                    while z[0] == 'op' and z[1] in ('i2f', 'f2f', 'i2i') and len(z[2]) == 1:
                        z = z[2][0]
                    if z[0] != 'int' and z[0] != 'flt':
                        found.append(y)
    T.walk(t, visit)
    return found[0] if found else None


def inexact_side(atom):
    """For a comparison literal: the first operand that is not exact, else None.

    Counts are `usize`: above 2^53 the conversion to f64 rounds.  A *single* converted count compared with a
    representable constant is still decided correctly (the conversion is monotone), but float arithmetic on converted
    counts is not exact there (`n as f64 - k as f64` with both above 2^53: 2^53+1 trials with 10 failures give 9 or 11),
    so such an operand is reported as well: the comparison belongs on the integers."""
    if atom[0] == 'op' and atom[1] in ('lt', 'le', 'eq', 'gt', 'ge', 'ne') and len(atom[2]) == 2:
        for x in atom[2]:
            if not exact(x)[0]:
                return x
        for x in atom[2]:
            c = has_conversion(x)
            if c is not None:
                return x
    return None
