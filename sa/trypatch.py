"""Run rules against a scratch copy of /repo with a patch applied (never touches /repo):
python3 -m sa.trypatch <abs patch> <Cxx[,Cyy]> [-v]"""
from .core import unlisted as core_unlisted
import sys
from .scratch import Scratch, run_rule


def main():
    patch = sys.argv[1]
    pids = sys.argv[2].split(',')
    verbose = '-v' in sys.argv
    rc = 0
    with Scratch() as sc:
        ok, log = sc.apply_patch(patch)
        if not ok:
            print('patch does not apply:', log)
            return 2
        for pid in pids:
            chk = run_rule(pid, sc.dir)
            bad = core_unlisted(chk)
            print(pid, 'obligations', len(chk.obligations), 'non-ok', len(bad))
            for o in bad[:(40 if verbose else 8)]:
                print('   ', o['key'], o['status'], (o['detail'] or '')[:(1500 if verbose else 300)].replace('\n', ' '))
            if bad:
                rc = 1
    return rc


sys.exit(main())
