"""Real-mode evaluation of guards: decide comparison literals on a stated domain by a sign
certificate of the difference of normal forms (nf.decide_sign); undecided literals stay in
the residual guard and are reported by the rules, never guessed."""
from fractions import Fraction

from . import terms as T
from .nf import Ctx as NF, NotReal, decide_sign, p_sub, p_mul_raw, RF


class Domain:
    def __init__(self, nf, ranges=None, facts_true=(), finite=True):
        self.nf = nf
        self.ranges = dict(ranges or {})
        self.finite = finite
        self.hooks = []

    def range_for_atoms(self, rf):
        r = dict(self.ranges)
        for poly in rf:
            for m in poly:
                for a, e in m:
                    if a in r:
                        continue
                    for h in self.hooks:
                        v = h(self, a)
                        if v is not None:
                            r[a] = v
                            break
        return r

    def sign(self, term_or_rf):
        self.nf.ranges = self.ranges
        rf = term_or_rf if isinstance(term_or_rf, RF) else self.nf.of_term(term_or_rf)
        return decide_sign(self.nf, rf, self.range_for_atoms(rf))

    def literal(self, atom, pol):
        """True / False / None for the literal (atom, pol) on the domain."""
        v = self.atom_value(atom)
        if v is None:
            return None
        return v == pol

    def atom_value(self, atom):
        if atom[0] == 'bool':
            return atom[1]
        if atom[0] != 'op':
            return None
        n = atom[1]
        if n == 'not':
            v = self.atom_value(atom[2][0])
            return None if v is None else not v
        if n in ('is_nan',):
            return False if self.finite else None
        if n in ('is_finite',):
            return True if self.finite else None
        if n in ('lt', 'le', 'eq', 'gt', 'ge', 'ne') and len(atom[2]) == 2:
            a, b = atom[2]
            # exp is strictly increasing on the reals: exp(x) ~ exp(y) iff x ~ y
            while a[0] == 'op' and a[1] in ('f2f',) and len(a[2]) == 1:
                a = a[2][0]
            while b[0] == 'op' and b[1] in ('f2f',) and len(b[2]) == 1:
                b = b[2][0]
            if a[0] == 'op' and b[0] == 'op' and a[1] == 'exp' and b[1] == 'exp':
                return self.atom_value(('op', n, (a[2][0], b[2][0])))
            try:
                d = self.nf.sub(self.nf.of_term(atom[2][0]), self.nf.of_term(atom[2][1]))
                s = self.sign(d)
            except NotReal:
                return None
            if s is None:
                return None
            table = {
                'lt': {'-': True, '+': False, '0': False, '0+': False, '0-': None},
                'le': {'-': True, '0-': True, '0': True, '+': False, '0+': None},
                'gt': {'+': True, '-': False, '0': False, '0-': False, '0+': None},
                'ge': {'+': True, '0+': True, '0': True, '-': False, '0-': None},
                'eq': {'0': True, '+': False, '-': False, '0+': None, '0-': None},
                'ne': {'0': False, '+': True, '-': True, '0+': None, '0-': None},
            }
            return table[n][s]
        return None


def prune(paths, dom, variants=None):
    """[(path, residual)] of the paths whose decided literals all hold."""
    out = []
    for p in paths:
        residual = []
        feasible = True
        for atom, pol in p.guard:
            if atom[0] == 'variant':
                if variants is not None and atom[1] in variants:
                    if (variants[atom[1]] == atom[2]) != pol:
                        feasible = False
                        break
                else:
                    residual.append((atom, pol))
                continue
            v = dom.literal(atom, pol)
            if v is False:
                feasible = False
                break
            if v is None:
                residual.append((atom, pol))
        if feasible:
            out.append((p, residual))
    return out


def rf_from_key(key):
    """Inverse of Ctx.key: ('rf', numkey, factors) -> RF."""
    return RF(dict(key[1]), dict(key[2]))


def quantile_hook(half=Fraction(1, 2)):
    """Range of a critical value c = inverse_cdf(dist(0, 1, ..), q): c >= 0 when q >= 1/2
    (contract: quantile function of a distribution symmetric about its location 0)."""
    def hook(dom, atom):
        if not (isinstance(atom, tuple) and len(atom) == 4 and atom[0] == 'call' and atom[1] == 'inverse_cdf'):
            return None
        dist, q = atom[2], atom[3]
        if not (isinstance(dist, tuple) and dist[0] == 'adt' and dist[3] and dist[3][0] == dom.nf.key(dom.nf.of_term(T.mk_flt(Fraction(0))))):
            return None
        if not (isinstance(q, tuple) and q[0] == 'rf'):
            return None
        qrf = rf_from_key(q)
        d = dom.nf.sub(qrf, dom.nf.of_term(T.mk_flt(half)))
        s = decide_sign(dom.nf, d, dom.ranges)
        if s in ('+', '0+', '0'):
            return (Fraction(0), None, s == '+', True)
        if s in ('-', '0-'):
            return (None, Fraction(0), True, s == '-')
        return None
    return hook
