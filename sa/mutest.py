"""Ad-hoc mutant test: python3 -m sa.mutest <Cxx[,Cyy]> <rel file> <old> <new>"""
import sys
from .scratch import Scratch, run_rule
def main():
    pids=sys.argv[1].split(','); rel=sys.argv[2]; old=sys.argv[3]; new=sys.argv[4]
    with Scratch() as sc:
        if not sc.replace(rel, old, new):
            print('anchor text not found'); return 2
        for pid in pids:
            chk=run_rule(pid, sc.dir)
            bad=[o for o in chk.obligations if o['status']!='ok']
            print(pid,'obligations',len(chk.obligations),'non-ok',len(bad))
            for o in bad[:8]: print('   ',o['key'],o['status'],(o['detail'] or '')[:200].replace('\n',' '))
main()
