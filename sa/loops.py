"""Loop summarisation: havoc of the carried places + one symbolic iteration (DESIGN §3.4).

For a natural loop with head H the record holds
  init   : value of every carried location on entry (base case),
  havoc  : the fresh symbol standing for that location at the head after any number of
           iterations,
  steps  : for every path of one iteration that returns to H, the guard literals added,
           the events of the iteration and the new values of the carried locations
           (step case),
and every path leaving the loop continues with the havoc symbols in place.  The rules prove
properties of folds by refinement (alpha(init) = 0, alpha(step(s, e)) = alpha(s) + g(e));
the induction over the stream is the stated meta-argument.  Nothing is unrolled.
"""
from . import terms as T
from .symex import Infeasible, Unsupported, UNINIT
from .types import is_scalar


def covered(loc, W):
    cell, path = loc
    for (c, p) in W:
        if c == cell and path[:len(p)] == p:
            return True
    return False


def minimal(W):
    out = set()
    for loc in sorted(W, key=lambda l: len(l[1])):
        if not covered(loc, out):
            out.add(loc)
    return out


def type_of_loc(sx, cell, path):
    ty = sx.celltys.get(cell)
    variant = None
    for p in path:
        if ty is None:
            return None
        if p[0] == 'v':
            variant = p[1]
            continue
        ty = sx.tenv.project(ty, p, variant)
        variant = None
    return ty


def havoc_value(sx, rec, old, ty, label):
    """Fresh symbolic value of the same shape as `old` (struct shapes are kept so that
    field-wise updates stay visible; everything else becomes one typed symbol)."""
    if old[0] == 'adt':
        vs = sx.tenv.variants(ty) if ty else None
        if vs is not None and len(vs) == 1:
            ftys = vs[0][2]
            names = sx.tenv.field_names(ty, 0) or [str(i) for i in range(len(old[3]))]
            return ('adt', old[1], old[2], tuple(
                havoc_value(sx, rec, f, ftys[i] if i < len(ftys) else None, label + '.' + str(names[i]))
                for i, f in enumerate(old[3])))
    if old[0] == 'tuple' and ty is not None and ty.get('k') == 'tuple':
        el = ty.get('elems') or [None] * len(old[1])
        return ('tuple', tuple(havoc_value(sx, rec, f, el[i] if i < len(el) else None, label + '.' + str(i))
                               for i, f in enumerate(old[1])))
    if old[0] == 'ref':
        return old  # references are loop invariant in safe code unless reassigned; checked below
    if ty is None and old[0] == 'int':
        ty = {'s': 'usize', 'k': 'usize'}   # a carried integer (counter) stays an integer
    s = sx.named('L%d.%s' % (rec['id'], label), ty)
    rec['havoc_syms'].append(s)
    return s


def summarize_loop(sx, st, fr, blockset):
    key = (fr.fid, fr.bb)
    for k, r in st.active_loops.items():
        if not r.get('suspended'):
            raise Unsupported('nested loop at %s' % sx.where(fr))
    rec = {'id': len(sx.loop_records), 'key': key, 'head': fr.bb, 'def': fr.def_id,
           'where': sx.where(fr, fr.body['blocks'][fr.bb]['term']), 'havoc_syms': []}
    sx.loop_records.append(rec)
    live_fids = set(f.fid for f in st.frames)
    pre_cells = set(st.cells.keys())

    def preexisting(cell):
        return cell in pre_cells or (cell[0] in live_fids)

    W = set()
    outer_writes = st.writes
    for rnd in range(8):
        rec['havoc_syms'] = []
        s0 = st.copy()
        havoc = {}
        init = {}
        for n, (cell, path) in enumerate(sorted(W, key=repr)):
            if cell not in s0.cells:
                continue
            try:
                old = sx.read_cell(s0, cell, path)
            except (Infeasible, Unsupported):
                continue
            if old == UNINIT:
                continue
            ty = type_of_loc(sx, cell, path)
            label = loc_label(sx, fr, cell, path, n)
            new = havoc_value(sx, rec, old, ty, label)
            init[(cell, path)] = sx.resolve_deep(st, old)
            havoc[(cell, path)] = new
            sx.write_cell(s0, cell, path, new, log=False)
        cell_havoc = {}
        for c in set(c for c, _ in havoc):
            try:
                cell_havoc[c] = sx.resolve_deep(s0, sx.read_cell(s0, c, ()))
            except (Infeasible, Unsupported):
                pass
        s0.active_loops = dict(s0.active_loops)
        s0.active_loops[key] = rec
        s0.writes = []
        g0 = len(s0.guard)
        e0 = len(s0.events)
        backs, exits, terms = explore(sx, s0, fr.fid, blockset, key)
        Wn = set()
        for s in backs + exits + terms:
            for (cell, path) in s.writes or []:
                if preexisting(cell):
                    Wn.add((cell, path))
        Wn = minimal(W | Wn)
        if all(covered(l, W) for l in Wn):
            break
        W = Wn
    else:
        raise Unsupported('loop write set did not stabilise at %s' % rec['where'])

    rec['init'] = init
    rec['havoc'] = havoc
    cells_w = sorted(set(c for c, _ in havoc), key=repr)
    rec['cell_labels'] = {c: loc_label(sx, fr, c, (), 0) for c in cells_w}
    rec['cell_init'] = {}
    rec['cell_havoc'] = {}
    rec['cell_havoc'] = cell_havoc
    for c in cells_w:
        try:
            rec['cell_init'][c] = sx.resolve_deep(st, sx.read_cell(st, c, ()))
        except (Infeasible, Unsupported):
            pass
    rec['labels'] = {loc: loc_label(sx, fr, loc[0], loc[1], n) for n, loc in enumerate(sorted(W, key=repr))}
    steps = []
    for s in backs:
        post = {}
        for loc in havoc:
            try:
                post[loc] = sx.resolve_deep(s, sx.read_cell(s, loc[0], loc[1]))
            except (Infeasible, Unsupported):
                post[loc] = ('unknown', 'unreadable')
        cell_post = {}
        for c in cells_w:
            try:
                cell_post[c] = sx.resolve_deep(s, sx.read_cell(s, c, ()))
            except (Infeasible, Unsupported):
                cell_post[c] = ('unknown', 'unreadable')
        steps.append({'guard': s.guard[g0:], 'events': s.events[e0:], 'post': post, 'cell_post': cell_post,
                      'unknowns': list(s.unknowns)})
    rec['steps'] = steps
    rec['n_exits'] = len(exits)
    rec['n_terms'] = len(terms)
    rec['exit_guards'] = [s.guard[g0:] for s in exits]
    rec['exit_events'] = [s.events[e0:] for s in exits]
    out = []
    for s in exits + terms:
        s.active_loops = {k: v for k, v in s.active_loops.items() if k != key}
        s.loops = s.loops + [rec['id']]
        if outer_writes is not None:
            s.writes = outer_writes + (s.writes or [])
        else:
            s.writes = None
        out.append(s)
    return out


def loc_label(sx, fr, cell, path, n):
    """Readable, position-independent label for a carried location."""
    base = None
    if cell[0] == 'H':
        base = 'heap%d' % cell[1]
        for name, ty, v in getattr(sx, '_params', []):
            if v[0] == 'ref' and v[1] == cell:
                base = name
    else:
        for f in [fr]:
            if cell[0] == f.fid:
                l = f.body['locals'][cell[1]]
                base = l.get('name') or '_%d' % cell[1]
        if base is None:
            base = 'local%s_%d' % (cell[0], cell[1])
    ty = sx.celltys.get(cell)
    parts = []
    variant = None
    for p in path:
        if p[0] == 'f':
            names = None
            if ty is not None and ty.get('adt'):
                names = sx.tenv.field_names(ty, variant or 0)
            parts.append(names[p[1]] if names and p[1] < len(names) else str(p[1]))
            ty = sx.tenv.project(ty, p, variant) if ty is not None else None
            variant = None
        elif p[0] == 'v':
            variant = p[1]
    return '.'.join([base] + parts)


def explore(sx, s0, fid, blockset, key):
    """Run from the loop head until every path is back at the head, has left the loop in
    frame `fid`, or has terminated."""
    backs, exits, terms = [], [], []
    s0.skip_hook = key
    work = [s0]
    steps = 0
    while work:
        st = work.pop()
        while True:
            steps += 1
            if steps > 2000000:
                raise Unsupported('loop exploration budget')
            top = st.frames[-1]
            if top.fid == fid and top.si == 0 and top.bb not in blockset:
                exits.append(st)
                break
            try:
                if getattr(st, 'skip_hook', None) == key:
                    st.skip_hook = None
                    nxt = step_no_hook(sx, st)
                else:
                    nxt = sx.step(st)
            except Infeasible:
                nxt = []
            cont = []
            for n in nxt:
                if n.done is not None:
                    if n.done[0] == 'loop_back':
                        if n.done[1] != key:
                            raise Unsupported('loop_back of another loop')
                        n.done = None
                        backs.append(n)
                    else:
                        terms.append(n)
                else:
                    cont.append(n)
            if len(cont) == 1:
                st = cont[0]
                continue
            work.extend(cont)
            break
    return backs, exits, terms


def step_no_hook(sx, st):
    fr = st.frames[-1]
    block = fr.body['blocks'][fr.bb]
    if fr.si < len(block['stmts']):
        # same as Summarizer.step without the loop hook
        saved = sx.loop_hook
        try:
            sx.loop_hook = lambda a, b: None
            return sx.step(st)
        finally:
            sx.loop_hook = saved
    return sx.exec_terminator(st, fr, block['term'])
