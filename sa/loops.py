"""Loop summarisation: havoc of the carried places + one symbolic iteration (DESIGN §3.4).

For a natural loop with head H the record holds
  init   : value of every carried location on entry (base case),
  havoc  : the fresh symbol standing for that location at the head after any number of
           iterations,
  steps  : for every path of one iteration that returns to H, the guard literals added,
           the events of the iteration and the new values of the carried locations
           (step case),
and every path leaving the loop continues with the havoc symbols in place.  The rules prove
properties of folds by refinement (alpha(init) = 0, alpha(step(s, e)) = alpha(s) + g(e));
the induction over the stream is the stated meta-argument.  Nothing is unrolled.
"""
from . import terms as T
from .symex import Infeasible, Unsupported, UNINIT
from .types import is_scalar


def covered(loc, W):
    cell, path = loc
    for (c, p) in W:
        if c == cell and path[:len(p)] == p:
            return True
    return False


def minimal(W):
    out = set()
    for loc in sorted(W, key=lambda l: len(l[1])):
        if not covered(loc, out):
            out.add(loc)
    return out


def type_of_loc(sx, cell, path):
    ty = sx.celltys.get(cell)
    variant = None
    for p in path:
        if ty is None:
            return None
        if p[0] == 'v':
            variant = p[1]
            continue
        ty = sx.tenv.project(ty, p, variant)
        variant = None
    return ty


def havoc_value(sx, rec, old, ty, label):
    """Fresh symbolic value of the same shape as `old` (struct shapes are kept so that
    field-wise updates stay visible; everything else becomes one typed symbol)."""
    if old == T.AUX:
        return old     # auxiliary data stays auxiliary
    if old[0] == 'adt' and isinstance(old[1], str) and old[1].startswith('verif::iter::'):
        # a structured iterator (adapter chain) carried through the loop keeps its shape: the bases keep
        # their identity (references to the cells of the underlying iterators stay references)
        from . import iters
        return iters.havoc(sx, rec, old, label)
    if old[0] == 'adt':
        vs = sx.tenv.variants(ty) if ty else None
        if vs is not None and len(vs) == 1:
            ftys = vs[0][2]
            names = sx.tenv.field_names(ty, 0) or [str(i) for i in range(len(old[3]))]
            return ('adt', old[1], old[2], tuple(
                havoc_value(sx, rec, f, ftys[i] if i < len(ftys) else None, label + '.' + str(names[i]))
                for i, f in enumerate(old[3])))
    if old[0] == 'tuple':
        el = ((ty or {}).get('elems') if (ty or {}).get('k') == 'tuple' else None) or [None] * len(old[1])
        return ('tuple', tuple(havoc_value(sx, rec, f, el[i] if i < len(el) else None, label + '.' + str(i))
                               for i, f in enumerate(old[1])))
    if old[0] == 'ref':
        return old  # references are loop invariant in safe code unless reassigned; checked below
    if ty is None and old[0] == 'int':
        ty = {'s': 'usize', 'k': 'usize'}   # a carried integer (counter) stays an integer
    s = sx.named('L%d.%s' % (rec['id'], label), ty)
    rec['havoc_syms'].append(s)
    return s


def summarize_loop(sx, st, fr, blockset):
    key = (fr.fid, fr.bb)
    for k, r in st.active_loops.items():
        if not r.get('suspended'):
            raise Unsupported('nested loop at %s' % sx.where(fr))
    rec = {'id': len(sx.loop_records), 'key': key, 'head': fr.bb, 'def': fr.def_id,
           'where': sx.where(fr, fr.body['blocks'][fr.bb]['term']), 'havoc_syms': []}
    sx.loop_records.append(rec)
    live_fids = set(f.fid for f in st.frames)
    pre_cells = set(st.cells.keys())

    def preexisting(cell):
        return cell in pre_cells or (cell[0] in live_fids)

    W = set()
    outer_writes = st.writes
    for rnd in range(8):
        rec['havoc_syms'] = []
        s0 = st.copy()
        havoc = {}
        init = {}
        for n, (cell, path) in enumerate(sorted(W, key=repr)):
            if cell not in s0.cells:
                continue
            try:
                old = sx.read_cell(s0, cell, path)
            except (Infeasible, Unsupported):
                continue
            if old == UNINIT:
                continue
            ty = type_of_loc(sx, cell, path)
            label = loc_label(sx, fr, cell, path, n)
            new = havoc_value(sx, rec, old, ty, label)
            init[(cell, path)] = sx.resolve_deep(st, old)
            havoc[(cell, path)] = new
            sx.write_cell(s0, cell, path, new, log=False)
        cell_havoc = {}
        for c in set(c for c, _ in havoc):
            try:
                cell_havoc[c] = sx.resolve_deep(s0, sx.read_cell(s0, c, ()))
            except (Infeasible, Unsupported):
                pass
        s0.active_loops = dict(s0.active_loops)
        s0.active_loops[key] = rec
        s0.writes = []
        g0 = len(s0.guard)
        e0 = len(s0.events)
        backs, exits, terms = explore(sx, s0, fr.fid, blockset, key)
        Wn = set()
        for s in backs + exits + terms:
            for (cell, path) in s.writes or []:
                if preexisting(cell):
                    Wn.add((cell, path))
        Wn = minimal(W | Wn)
        if all(covered(l, W) for l in Wn):
            break
        W = Wn
    else:
        raise Unsupported('loop write set did not stabilise at %s' % rec['where'])

    rec['init'] = init
    rec['havoc'] = havoc
    cells_w = sorted(set(c for c, _ in havoc), key=repr)
    rec['cell_labels'] = {c: loc_label(sx, fr, c, (), 0) for c in cells_w}
    rec['cell_init'] = {}
    rec['cell_havoc'] = {}
    rec['cell_havoc'] = cell_havoc
    for c in cells_w:
        try:
            rec['cell_init'][c] = sx.resolve_deep(st, sx.read_cell(st, c, ()))
        except (Infeasible, Unsupported):
            pass
    rec['labels'] = {loc: loc_label(sx, fr, loc[0], loc[1], n) for n, loc in enumerate(sorted(W, key=repr))}
    steps = []
    for s in backs:
        post = {}
        for loc in havoc:
            try:
                post[loc] = sx.resolve_deep(s, sx.read_cell(s, loc[0], loc[1]))
            except (Infeasible, Unsupported):
                post[loc] = ('unknown', 'unreadable')
        cell_post = {}
        for c in cells_w:
            try:
                cell_post[c] = sx.resolve_deep(s, sx.read_cell(s, c, ()))
            except (Infeasible, Unsupported):
                cell_post[c] = ('unknown', 'unreadable')
        steps.append({'guard': s.guard[g0:], 'events': s.events[e0:], 'post': post, 'cell_post': cell_post,
                      'unknowns': list(s.unknowns)})
    rec['steps'] = steps
    rec['n_exits'] = len(exits)
    rec['n_terms'] = len(terms)
    rec['exit_guards'] = [s.guard[g0:] for s in exits]
    rec['exit_events'] = [s.events[e0:] for s in exits]
    out = []
    for s in exits + terms:
        s.active_loops = {k: v for k, v in s.active_loops.items() if k != key}
        s.loops = s.loops + [rec['id']]
        if outer_writes is not None:
            s.writes = outer_writes + (s.writes or [])
        else:
            s.writes = None
        out.append(s)
    return out


def loc_label(sx, fr, cell, path, n):
    """Readable, position-independent label for a carried location."""
    base = None
    if cell[0] == 'H':
        base = 'heap%d' % cell[1]
        for name, ty, v in getattr(sx, '_params', []):
            if v[0] == 'ref' and v[1] == cell:
                base = name
    else:
        for f in [fr]:
            if cell[0] == f.fid:
                l = f.body['locals'][cell[1]]
                base = l.get('name') or '_%d' % cell[1]
        if base is None:
            base = 'local%s_%d' % (cell[0], cell[1])
    ty = sx.celltys.get(cell)
    parts = []
    variant = None
    for p in path:
        if p[0] == 'f':
            names = None
            if ty is not None and ty.get('adt'):
                names = sx.tenv.field_names(ty, variant or 0)
            parts.append(names[p[1]] if names and p[1] < len(names) else str(p[1]))
            ty = sx.tenv.project(ty, p, variant) if ty is not None else None
            variant = None
        elif p[0] == 'v':
            variant = p[1]
    return '.'.join([base] + parts)


def explore(sx, s0, fid, blockset, key):
    """Run from the loop head until every path is back at the head, has left the loop in
    frame `fid`, or has terminated."""
    backs, exits, terms = [], [], []
    s0.skip_hook = key
    work = [s0]
    steps = 0
    while work:
        st = work.pop()
        while True:
            steps += 1
            if steps > 2000000:
                raise Unsupported('loop exploration budget')
            top = st.frames[-1]
            if top.fid == fid and top.si == 0 and top.bb not in blockset:
                exits.append(st)
                break
            try:
                if getattr(st, 'skip_hook', None) == key:
                    st.skip_hook = None
                    nxt = step_no_hook(sx, st)
                else:
                    nxt = sx.step(st)
            except Infeasible:
                nxt = []
            cont = []
            for n in nxt:
                if n.done is not None:
                    if n.done[0] == 'loop_back':
                        if n.done[1] != key:
                            raise Unsupported('loop_back of another loop')
                        n.done = None
                        backs.append(n)
                    else:
                        terms.append(n)
                else:
                    cont.append(n)
            if len(cont) == 1:
                st = cont[0]
                continue
            work.extend(cont)
            break
    return backs, exits, terms


def step_no_hook(sx, st):
    fr = st.frames[-1]
    block = fr.body['blocks'][fr.bb]
    if fr.si < len(block['stmts']):
        # same as Summarizer.step without the loop hook
        saved = sx.loop_hook
        try:
            sx.loop_hook = lambda a, b: None
            return sx.step(st)
        finally:
            sx.loop_hook = saved
    return sx.exec_terminator(st, fr, block['term'])


# ---------------------------------------------------------------------------------------------------
# closure-driven loops: Iterator::for_each / try_for_each / fold / try_fold / any / all / find / find_map

def _try_split(v):
    """(kind, payload): ('continue', output) or ('break', value the consumer returns)"""
    from .types import OPTION, RESULT, CONTROL_FLOW
    if v[0] != 'adt':
        raise Unsupported('Try value %s' % T.show(v)[:60])
    if v[1] == RESULT:
        return ('continue', v[3][0]) if v[2] == 0 else ('break', v)
    if v[1] == OPTION:
        return ('continue', v[3][0]) if v[2] == 1 else ('break', v)
    if v[1] == CONTROL_FLOW:
        return ('continue', v[3][0]) if v[2] == 0 else ('break', v)
    raise Unsupported('Try type %s' % v[1])


def _try_output(dest_ty, v):
    from .types import OPTION, RESULT, CONTROL_FLOW, adt_name
    n = adt_name(dest_ty) if dest_ty else None
    if n == RESULT:
        return ('adt', RESULT, 0, (v,))
    if n == OPTION:
        return ('adt', OPTION, 1, (v,))
    if n == CONTROL_FLOW:
        return ('adt', CONTROL_FLOW, 0, (v,))
    raise Unsupported('Try output type %s' % (dest_ty or {}).get('s'))


class _Mode:
    """What one consumer does with the closure's result.  on_result -> list of
    ('back', state) | ('early', state, value); exit_value(state, acc) is the result on exhaustion."""

    def __init__(self, sx, name, dest_ty, has_acc):
        self.sx, self.name, self.dest_ty, self.has_acc = sx, name, dest_ty, has_acc

    def closure_args(self, st, acc, e):
        if self.name in ('fold', 'try_fold'):
            return ('tuple', (acc, e))
        if self.name == 'find':
            cid = self.sx.new_heap(None, None)
            st.cells[cid] = e
            return ('tuple', (('ref', cid, ()),))
        return ('tuple', (e,))

    def on_result(self, st, val, e, set_acc):
        sx, n = self.sx, self.name
        from .models import some as mk_some
        if n == 'for_each':
            return [('back', st)]
        if n == 'fold':
            set_acc(st, val)
            return [('back', st)]
        if n in ('try_for_each', 'try_fold'):
            out = []
            for s2, v2 in sx.models.expand_enum(st, val):
                kind, payload = _try_split(v2)
                if kind == 'continue':
                    if n == 'try_fold':
                        set_acc(s2, payload)
                    out.append(('back', s2))
                else:
                    out.append(('early', s2, payload))
            return out
        if n in ('any', 'all', 'find'):
            out = []
            for s2, b in sx.fork_bool(st, val):
                if n == 'any':
                    out.append(('early', s2, ('bool', True)) if b else ('back', s2))
                elif n == 'all':
                    out.append(('back', s2) if b else ('early', s2, ('bool', False)))
                else:
                    out.append(('early', s2, mk_some(e)) if b else ('back', s2))
            return out
        if n == 'find_map':
            out = []
            for s2, v2 in sx.models.expand_enum(st, val):
                out.append(('early', s2, v2) if v2[2] == 1 else ('back', s2))
            return out
        raise Unsupported('consumer %s' % n)

    def exit_value(self, st, acc):
        from .models import NONE
        n = self.name
        if n == 'for_each':
            return T.UNIT
        if n == 'fold':
            return acc
        if n == 'try_for_each':
            return _try_output(self.dest_ty, T.UNIT)
        if n == 'try_fold':
            return _try_output(self.dest_ty, acc)
        if n == 'any':
            return ('bool', False)
        if n == 'all':
            return ('bool', True)
        if n in ('find', 'find_map'):
            return NONE
        raise Unsupported('consumer %s' % n)


def _iter_value(sx, st, iter_val):
    """the iterator value behind any chain of references (consumers take it by value or by &mut)"""
    v = iter_val
    n = 0
    while v[0] == 'ref' and n < 8:
        v = sx.read_cell(st, v[1], v[2])
        n += 1
    while v[0] == 'op' and v[1] == 'ref':
        v = v[2][0]
    return v


def concrete_loop(sx, st, fr, term, it, clo, acc_init, md):
    """A consumer over an iterator of known length (by-value array, possibly adapted): unrolled exactly,
    one closure call per element; no loop record, nothing is havocked."""
    from . import iters
    dest = sx.resolve_place(st, fr, term['dest'])
    target = term['target']
    acc_cell = sx.new_heap(None, None)
    st.cells[acc_cell] = acc_init if acc_init is not None else T.UNIT

    def set_acc(s, v):
        s.cells[acc_cell] = v

    def finish(s, v):
        return sx.continue_with(s, v, dest, target)

    def run(s, cur):
        def k(s2, e, nit):
            if e is None:
                return finish(s2, md.exit_value(s2, s2.cells[acc_cell]))
            tmp = sx.new_heap(None, None)

            def then(sx_, s3, val):
                out = []
                for r in md.on_result(s3, val, e, set_acc):
                    if r[0] == 'back':
                        out.extend(run(r[1], nit))
                    else:
                        out.extend(finish(r[1], r[2]))
                return out
            r = sx.call_closure_value(s2, s2.frames[-1], clo, md.closure_args(s2, s2.cells[acc_cell], e), (tmp, ()), ('then', then))
            if r is None:
                raise Unsupported('closure-driven loop: callable is not a local closure')
            return r
        return iters.step(sx, s, cur, k)
    states = run(st, it)
    return [(s, None) for s in states]


def closure_loop(sx, st, fr, term, iter_val, clo, acc_init, mode, dest_ty=None):
    """An iterator consumer with a closure, summarised like a loop: havoc of the places the closure
    writes (+ the accumulator) and one symbolic iteration whose element comes from one `next()` of the
    (possibly adapted) iterator.  Returns [(state, result value)] for the code after the call
    (value None: the state already continues by itself)."""
    from . import iters
    md = _Mode(sx, mode, dest_ty, acc_init is not None)
    itv = _iter_value(sx, st, iter_val)
    if iters.is_concrete(itv, sx, st):
        return concrete_loop(sx, st, fr, term, iter_val if iter_val[0] == 'ref' else itv, clo, acc_init, md)
    for k, r in st.active_loops.items():
        if not r.get('suspended'):
            raise Unsupported('nested loop (closure-driven) at %s' % sx.where(fr, term))
    rec = {'id': len(sx.loop_records), 'key': ('closure', len(sx.loop_records)), 'head': None, 'def': fr.def_id,
           'where': sx.where(fr, term), 'havoc_syms': [], 'closure_driven': mode}
    sx.loop_records.append(rec)
    live_fids = set(f.fid for f in st.frames)
    pre_cells = set(st.cells.keys())
    acc_cell = sx.new_heap(None, None)
    st.cells[acc_cell] = acc_init if acc_init is not None else T.UNIT
    pre_cells.add(acc_cell)
    it_sym = sx.resolve_deep(st, itv)
    elem_ty = iters.closure_param_ty(sx, clo, st) if mode not in ('fold', 'try_fold') else None
    if mode in ('fold', 'try_fold'):
        cv = _iter_value(sx, st, clo)
        if cv[0] == 'closure' and cv[2] is not None:
            insts = sx._insts_by_id[cv[2][0]]
            cbody = sx.facts.bodies[insts[cv[2][1]]['def']]
            elem_ty = cbody['locals'][3]['ty'] if cbody['arg_count'] >= 3 else None
    if mode == 'find' and elem_ty is not None and elem_ty.get('k') == 'ref':
        elem_ty = elem_ty.get('inner')
    cv0 = _iter_value(sx, st, clo)
    if cv0[0] not in ('closure', 'fn') or (cv0[0] == 'closure' and cv0[2] is None):
        raise Unsupported('closure-driven loop with an opaque callable')

    def set_acc(s, v):
        sx.write_cell(s, acc_cell, (), v)

    def preexisting(cell):
        return cell in pre_cells or (cell[0] in live_fids)
    W = {(acc_cell, ())}
    outer_writes = st.writes
    for rnd in range(8):
        rec['havoc_syms'] = []
        s0 = st.copy()
        havoc, init = {}, {}
        for n, (cell, path) in enumerate(sorted(W, key=repr)):
            if cell not in s0.cells:
                continue
            try:
                old = sx.read_cell(s0, cell, path)
            except (Infeasible, Unsupported):
                continue
            if old == UNINIT:
                continue
            ty = type_of_loc(sx, cell, path)
            label = 'acc' if cell == acc_cell else loc_label(sx, fr, cell, path, n)
            new = havoc_value(sx, rec, old, ty, label) if not (cell == acc_cell and old == T.UNIT) else old
            init[(cell, path)] = sx.resolve_deep(st, old)
            havoc[(cell, path)] = new
            sx.write_cell(s0, cell, path, new, log=False)
        cell_havoc = {}
        for c in set(c for c, _ in havoc):
            try:
                cell_havoc[c] = sx.resolve_deep(s0, sx.read_cell(s0, c, ()))
            except (Infeasible, Unsupported):
                pass
        it_h = iters.havoc(sx, rec, itv)
        s0.active_loops = dict(s0.active_loops)
        s0.active_loops[rec['key']] = rec
        s0.writes = []
        g0, e0 = len(s0.guard), len(s0.events)
        backs, earlies, terms, exits = [], [], [], []

        # one `next()` of the iterator, then one call of the closure on the element
        def k(s, e, nit):
            if e is None:
                s.done = ('closure_exit', rec['key'])
                return [s]
            tmp = sx.new_heap(None, None)

            def then(sx_, s2, val, e=e):
                s2.done = ('closure_ret', val, rec['key'], e)
                return [s2]
            r = sx.call_closure_value(s, s.frames[-1], clo, md.closure_args(s, sx.read_cell(s, acc_cell, ()), e), (tmp, ()), ('then', then))
            if r is None:
                raise Unsupported('closure-driven loop: callable is not a local closure')
            return r
        work = list(iters.step(sx, s0, it_h, k, elem_ty))
        steps = 0

        def classify(n_):
            """a finished state of the template: back edge, early exit, exhaustion or termination"""
            if n_.done[0] == 'closure_ret' and n_.done[2] == rec['key']:
                val, e = n_.done[1], n_.done[3]
                n_.done = None
                for r in md.on_result(n_, val, e, set_acc):
                    if r[0] == 'back':
                        backs.append(r[1])
                    else:
                        earlies.append((r[1], r[2]))
            elif n_.done[0] == 'closure_exit' and n_.done[1] == rec['key']:
                n_.done = None
                exits.append(n_)
            else:
                terms.append(n_)
        pending = []
        for w in work:
            if w.done is not None:
                classify(w)
            else:
                pending.append(w)
        work = pending
        while work:
            cur = work.pop()
            while True:
                steps += 1
                if steps > 1000000:
                    raise Unsupported('closure loop budget')
                try:
                    nxt = sx.step(cur)
                except Infeasible:
                    nxt = []
                cont = []
                for n_ in nxt:
                    if n_.done is not None:
                        classify(n_)
                    else:
                        cont.append(n_)
                if len(cont) == 1:
                    cur = cont[0]
                    continue
                work.extend(cont)
                break
        Wn = set()
        for s in backs + [x for x, _ in earlies] + terms + exits:
            for (cell, path) in s.writes or []:
                if preexisting(cell):
                    Wn.add((cell, path))
        Wn = minimal(W | Wn)
        if all(covered(l, W) for l in Wn):
            break
        W = Wn
    else:
        raise Unsupported('closure loop write set did not stabilise at %s' % rec['where'])
    rec['init'], rec['havoc'] = init, havoc
    rec['iter'] = it_sym
    cells_w = sorted(set(c for c, _ in havoc), key=repr)
    rec['cell_labels'] = {c: ('acc' if c == acc_cell else loc_label(sx, fr, c, (), 0)) for c in cells_w}
    rec['cell_init'] = {}
    rec['cell_havoc'] = cell_havoc
    for c in cells_w:
        try:
            rec['cell_init'][c] = sx.resolve_deep(st, sx.read_cell(st, c, ()))
        except (Infeasible, Unsupported):
            pass
    rec['labels'] = {loc: rec['cell_labels'].get(loc[0], '?') for loc in havoc}
    steps_out = []
    for s in backs:
        post, cell_post = {}, {}
        for loc in havoc:
            try:
                post[loc] = sx.resolve_deep(s, sx.read_cell(s, loc[0], loc[1]))
            except (Infeasible, Unsupported):
                post[loc] = ('unknown', 'unreadable')
        for c in cells_w:
            try:
                cell_post[c] = sx.resolve_deep(s, sx.read_cell(s, c, ()))
            except (Infeasible, Unsupported):
                cell_post[c] = ('unknown', 'unreadable')
        steps_out.append({'guard': s.guard[g0:], 'events': s.events[e0:], 'post': post, 'cell_post': cell_post, 'unknowns': list(s.unknowns)})
    rec['steps'] = steps_out
    rec['n_exits'] = len(exits) + len(earlies)
    rec['n_terms'] = len(terms)
    # normal exit: the iterator is exhausted, state = havocked state
    rec['exit_guards'] = [s.guard[g0:] for s in exits] + [s.guard[g0:] for s, _ in earlies]
    rec['exit_events'] = [s.events[e0:] for s in exits] + [s.events[e0:] for s, _ in earlies]
    out = []

    def leave(s):
        s.active_loops = {k: x for k, x in s.active_loops.items() if k != rec['key']}
        s.loops = s.loops + [rec['id']]
        s.writes = (outer_writes + (s.writes or [])) if outer_writes is not None else None
    for s in exits:
        leave(s)
        out.append((s, md.exit_value(s, sx.read_cell(s, acc_cell, ()))))
    for s, v in earlies:
        leave(s)
        out.append((s, v))
    for s in terms:
        s.active_loops = {k: x for k, x in s.active_loops.items() if k != rec['key']}
        s.loops = s.loops + [rec['id']]
        out.append((s, None))
    return out
