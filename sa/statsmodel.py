"""Layout discovery for the statistics state types (slots filled from the repository).

Nothing here names a private field: the role of each field is read off the summaries of
public API (KahanSum::new / value, Default, StatisticsOps::append, Unpaired::new ...), and
symbolic states are then built positionally.
"""
from . import terms as T
from .symex import Summarizer, Unsupported
from .nf import Ctx as NF, NotReal

ZERO = ('op', 'zero', ())


def by_ref(value, ty=None):
    def mk(st, sx, pty):
        cid = sx.new_heap(None, (pty or {}).get('inner'))
        st.cells[cid] = value
        return ('ref', cid, ())
    return mk


class StatsModel:
    def __init__(self, facts):
        self.facts = facts
        self.problems = []
        self.nf = NF(nonneg=['n', 'na', 'nb'])
        try:
            self._kahan()
            self._arith()
        except Unsupported as e:
            self.problems.append('layout discovery failed: %s' % e)

    def ok(self):
        return not self.problems

    def adt(self, name):
        c = [a for a in self.facts.raw['adts'] if a['path'].split('::')[-1] == name and a['exported']]
        return c[0] if len(c) == 1 else None

    def summ(self, fn, names, args=None, real=True):
        sx = Summarizer(self.facts, assume_no_overflow=real)
        return sx, sx.summarize(fn['id'], args=args, arg_names=names)

    # ---------------------------------------------------------------- KahanSum
    def _kahan(self):
        f = self.facts
        self.kahan = self.adt('KahanSum')
        if self.kahan is None:
            self.problems.append('exported struct KahanSum not found')
            return
        kp = self.kahan['path']
        new = f.inherent(kp, 'new')
        val = f.inherent(kp, 'value')
        if not (new and val):
            self.problems.append('KahanSum::new / value not found')
            return
        _, r = self.summ(new, ['v'])
        if len(r) != 1 or not r[0].is_ret() or r[0].ret[0] != 'adt':
            self.problems.append('KahanSum::new is not a plain constructor')
            return
        fields = r[0].ret[3]
        self.k_sum = [i for i, x in enumerate(fields) if x == T.sym('v')]
        self.k_comp = [i for i, x in enumerate(fields) if x == ZERO]
        self.k_aux = [i for i, x in enumerate(fields) if x == T.AUX]      # auxiliary fields (sa/layout.py)
        if len(self.k_sum) != 1 or len(self.k_comp) != len(fields) - 1 - len(self.k_aux):
            self.problems.append('KahanSum::new: cannot identify running sum / compensation fields: %s' % T.show(r[0].ret))
            return
        self.k_sum = self.k_sum[0]
        self.k_n = len(fields)
        self.value_fn = val

    def kahan_value(self, s, comps=None):
        """Term of a register with running sum s and compensation c (default: real-invariant 0)."""
        fields = []
        j = 0
        for i in range(self.k_n):
            if i == self.k_sum:
                fields.append(s)
            elif i in self.k_aux:
                fields.append(T.AUX)
            else:
                fields.append(comps[j] if comps else ZERO)
                j += 1
        return ('adt', self.kahan['path'], 0, tuple(fields))

    def value_of(self, reg):
        """Real value() of a register term via the summary of the public accessor."""
        _, r = self.summ(self.value_fn, ['k'], args=[by_ref(reg)])
        if len(r) != 1 or not r[0].is_ret():
            raise Unsupported('KahanSum::value is not straight-line')
        return r[0].ret

    # ---------------------------------------------------------------- Arithmetic
    def _arith(self):
        if self.problems:
            return
        f = self.facts
        self.arith = self.adt('Arithmetic')
        if self.arith is None:
            self.problems.append('exported struct Arithmetic not found')
            return
        ap = self.arith['path']
        self.ops_trait = [t for t in f.raw['traits'] if t['path'].split('::')[-1] == 'StatisticsOps']
        if len(self.ops_trait) != 1:
            self.problems.append('trait StatisticsOps not found')
            return
        self.ops_trait = self.ops_trait[0]['path']
        append = f.trait_method(self.ops_trait, ap, 'append')
        default = f.trait_method('core::default::Default', ap, 'default')
        if not (append and default):
            self.problems.append('Arithmetic: StatisticsOps::append / Default not found')
            return
        self.arith_append = append
        self.arith_default = default
        _, r = self.summ(default, [])
        if len(r) != 1 or not r[0].is_ret() or r[0].ret[0] != 'adt' or r[0].ret[1] != ap:
            self.problems.append('Arithmetic::default is not a plain constructor')
            return
        d = r[0].ret
        self.arith_default_value = d
        kp = self.kahan['path']
        regs = [i for i, x in enumerate(d[3]) if x[0] == 'adt' and x[1] == kp]
        cnts = [i for i, x in enumerate(d[3]) if x[0] == 'int']
        self.a_aux = [i for i, x in enumerate(d[3]) if x == T.AUX]
        self.a_len = len(d[3])
        if len(regs) != 2 or len(cnts) != 1 or len(d[3]) - len(self.a_aux) != 3:
            self.problems.append('Arithmetic state is not (register, register, counter): %s' % T.show(d))
            return
        # roles from one append(x) on a symbolic state
        probe = list(d[3])
        names = {}
        for i in regs:
            probe[i] = self.kahan_value(T.sym('R%d' % i))
        probe[cnts[0]] = T.sym('n')
        st = ('adt', ap, 0, tuple(probe))
        _, r = self.summ(append, ['self', 'x'], args=[by_ref(st), None])
        ok = [p for p in r if p.is_ret()]
        if not ok or any('self' not in p.effects for p in ok):
            self.problems.append('Arithmetic append has no returning path')
            return
        x = T.sym('x')
        role = None
        for pth in ok:
            post = pth.effects['self']
            role_p = {}
            for i in regs:
                v = self.value_of(post[3][i])
                d1 = self.nf.sub(self.nf.of_term(v), self.nf.of_term(T.sym('R%d' % i)))
                if self.nf.equal(d1, self.nf.of_term(x)):
                    role_p['s1'] = i
                elif self.nf.equal(d1, self.nf.of_term(T.op('mul', x, x))):
                    role_p['s2'] = i
            if set(role_p) != {'s1', 's2'} or (role is not None and role != role_p):
                self.problems.append('Arithmetic append: cannot identify sum / sum-of-squares registers')
                return
            role = role_p
        self.a_s1, self.a_s2, self.a_n = role['s1'], role['s2'], cnts[0]

    def arith_state(self, s1, s2, n):
        f = [T.AUX] * self.a_len
        f[self.a_s1] = self.kahan_value(s1)
        f[self.a_s2] = self.kahan_value(s2)
        f[self.a_n] = n
        return ('adt', self.arith['path'], 0, tuple(f))

    def alpha(self, state, comp_zero=True):
        """(S1, S2, n) of an Arithmetic state term: value() of the registers, in real mode
        with every compensation replaced by its invariant 0 unless comp_zero is False."""
        if state[0] != 'adt' or state[1] != self.arith['path']:
            raise Unsupported('not an Arithmetic state: %s' % T.show(state))

        def reg(r):
            if r[0] != 'adt' or r[1] != self.kahan['path']:
                raise Unsupported('not a register: %s' % T.show(r))
            if comp_zero:
                r = self.kahan_value(r[3][self.k_sum])
            return self.value_of(r)
        return reg(state[3][self.a_s1]), reg(state[3][self.a_s2]), state[3][self.a_n]

    def comps(self, state):
        """Compensation terms of an Arithmetic state."""
        out = []
        for i in (self.a_s1, self.a_s2):
            r = state[3][i]
            out.extend(x for j, x in enumerate(r[3]) if j != self.k_sum and j not in self.k_aux)
        return out

    def wrapper_state(self, adt, inner):
        """State of a single-statistic-field wrapper (Harmonic, Geometric, Paired) around `inner` (auxiliary fields,
        if the type has any, hold AUX)."""
        aux = self.facts.aux_fields.get(adt['path']) or set()
        n = len(adt['variants'][0]['fields'])
        real = [i for i in range(n) if i not in aux]
        if len(real) != 1:
            raise Unsupported('%s is not a wrapper of one statistics state (%d statistic fields)' % (adt['path'], len(real)))
        return ('adt', adt['path'], 0, tuple(inner if i == real[0] else T.AUX for i in range(n)))

    def wrapper_inner(self, adt, state):
        """the wrapped statistics state of a wrapper state term"""
        aux = self.facts.aux_fields.get(adt['path']) or set()
        real = [i for i in range(len(state[3])) if i not in aux]
        if len(real) != 1:
            raise Unsupported('%s is not a wrapper of one statistics state' % adt['path'])
        return state[3][real[0]]
