"""Model / contract table for callees outside the crate (trusted base, see DESIGN §3.5).

Every entry states what the callee does in terms of the term algebra; each is justified by
the cited source of the vendored std / num-traits / statrs / arrayvec.  An external callee
without an entry produces ('unknown', path), which poisons exactly the paths that use it.
"""
from fractions import Fraction

from . import terms as T
from .terms import op, UNIT, TRUE, FALSE
from .facts import norm_path, strip_generics
from .types import OPTION, RESULT, CONTROL_FLOW, ORDERING, BOUND, adt_name, is_scalar, is_float, is_int


def some(v):
    return ('adt', OPTION, 1, (v,))


NONE = ('adt', OPTION, 0, ())


def ok(v):
    return ('adt', RESULT, 0, (v,))


def err(v):
    return ('adt', RESULT, 1, (v,))


class ModelTable:
    def __init__(self, sx):
        self.sx = sx
        self.unmodelled = {}

    # ------------------------------------------------------------------ helpers
    def deref(self, st, v, times=None):
        """Follow references down to a value."""
        n = 0
        while True:
            if times is not None and n >= times:
                return v
            if v[0] == 'ref':
                v = self.sx.read_cell(st, v[1], v[2])
            elif v[0] == 'op' and v[1] == 'ref':
                v = v[2][0]
            elif v[0] == 'sym' and (self.sx.symty.get(v[1]) or {}).get('k') == 'ref':
                ty = self.sx.symty[v[1]]
                v = self.sx.named(v[1] + '*', ty.get('inner'))
            else:
                return v
            n += 1

    def typed_result(self, st, term, dest_ty):
        """Opaque results of structured type become typed symbols so they can be matched on."""
        if dest_ty is None or is_scalar(dest_ty):
            return term
        k = dest_ty.get('k')
        if k in ('enum', 'struct', 'tuple', 'ref'):
            s = self.sx.fresh('r', dest_ty)
            self.sx.symdef[s[1]] = term
            return s
        return term

    def panic(self, st, fr, term, kind):
        st.done = ('panic', kind, self.sx.where(fr, term))
        return (st, None)

    def expand_enum(self, st, v, ty_hint=None):
        """Fork a symbolic enum value into its variants -> [(state, adt value)]."""
        if v[0] == 'adt':
            return [(st, v)]
        if v[0] != 'sym':
            raise_unsupported('enum value expected, got %s' % T.show(v))
        ty = self.sx.symty.get(v[1]) or ty_hint
        vs = self.sx.tenv.variants(ty) if ty else None
        if vs is None:
            raise_unsupported('cannot expand %s' % T.show(v))
        for i in range(len(vs)):
            if (('variant', v, i), True) in st.gset:
                return [(st, self.sx.expand_variant(st, v, ty, i))]
        out = []
        for i, (vn, dv, ftys) in enumerate(vs):
            if any(not self.sx.tenv.inhabited(f) for f in ftys):
                continue
            s2 = st.copy()
            out.append((s2, self.sx.expand_variant(s2, v, ty, i)))
        return out

    # ------------------------------------------------------------------ dispatch
    def key(self, callee):
        if 'trait' in callee:
            return norm_path(callee['trait']) + '::' + callee['method']
        return strip_generics(norm_path(callee['path']))

    def apply_aux(self, st, fr, callee, args, term, key):
        """An external function applied to auxiliary data (sa/layout.py), or None.  Its result is auxiliary; it can write
        only through the references it was given, which must all point into auxiliary data.  A callable argument of an
        Option / Result combinator on auxiliary data may or may not be run (once, on auxiliary arguments): both are
        explored, and join again when the callable touches nothing but auxiliary data."""
        sx = self.sx
        if not sx.aux_fields or not args or not any(sx.aux_arg(st, a) for a in args) or term.get('target') is None:
            return None
        def is_ref(a):
            return a[0] == 'ref' or (a[0] == 'op' and a[1] == 'ref')

        def is_callable(a):
            while a[0] == 'ref':
                try:
                    a = sx.read_cell(st, a[1], a[2])
                except Exception:
                    return False
            return a[0] in ('closure', 'fn')
        calls = [a for a in args if is_callable(a)]
        if not all(sx.aux_arg(st, a) for a in args if is_ref(a) and not is_callable(a)):
            return None
        if not calls:
            return [(st, T.AUX)]
        if len(calls) != 1 or not sx.aux_arg(st, args[0]) or not (key.startswith('core::option::Option') or key.startswith('core::result::Result')):
            return None
        clo = calls[0]
        cv = clo
        while cv[0] == 'ref':
            cv = sx.read_cell(st, cv[1], cv[2])
        if cv[0] == 'closure':
            body = sx.facts.bodies.get(cv[1])
            nparams = (body['arg_count'] - 1) if body else 1
        else:
            nparams = 1
        dest = sx.resolve_place(st, fr, term['dest'])
        target = term['target']
        s_skip = st.copy()
        out = [(s_skip, T.AUX)]

        def then(sx_, s2, v):
            sx_.write_cell(s2, dest[0], dest[1], T.AUX)
            return [sx_.goto(s2, s2.frames[-1], target)]
        tmp = sx.new_heap(None, None)
        r = sx.call_closure_value(st, fr, clo, ('tuple', tuple(T.AUX for _ in range(nparams))), (tmp, ()), ('then', then))
        if r is None:
            return None
        out.extend((s2, None) for s2 in r)
        return out

    def apply(self, st, fr, callee, args, dest_ty, term):
        key = self.key(callee)
        r_aux = self.apply_aux(st, fr, callee, args, term, key)
        if r_aux is not None:
            return r_aux
        fn = MODELS.get(key)
        if fn is None:
            for prefix, f in PREFIX_MODELS:
                if key.startswith(prefix):
                    fn = f
                    break
        if fn is None:
            self.unmodelled[key] = self.unmodelled.get(key, 0) + 1
            st.unknowns.append((key, self.sx.where(fr, term)))
            if term['target'] is None:
                return [self.panic(st, fr, term, 'diverging call ' + key)]
            return [(st, ('unknown', key))]
        res = fn(self, st, fr, callee, args, dest_ty, term)
        if isinstance(res, tuple) and res and isinstance(res[0], str):
            return [(st, res)]
        return res


def raise_unsupported(msg):
    from .symex import Unsupported
    raise Unsupported(msg)


# ---------------------------------------------------------------------------------------
# comparison

def _cmp(name):
    def f(m, st, fr, callee, args, dest_ty, term):
        peeled = callee.get('peeled')
        a, b = args
        if peeled and 'inst' in peeled:
            d = peeled['depth']
            a2, b2 = m.deref(st, a, d), m.deref(st, b, d)
            dest = m.sx.resolve_place(st, fr, term['dest'])
            m.sx.call_local(st, fr, fr.insts, peeled['inst'], [a2, b2], dest, term['target'])
            return [(st, None)]
        x, y = m.deref(st, a), m.deref(st, b)
        if _is_option(m, x) or _is_option(m, y):
            return _cmp_option(m, st, name, x, y)
        if x[0] == 'adt' and y[0] == 'adt' and x[1] == y[1] == 'core::mem::Discriminant' and name in ('eq', 'ne'):
            same = x[3] == y[3]
            return ('bool', same if name == 'eq' else not same)
        if name == 'partial_cmp':
            return _partial_cmp(m, st, x, y)
        if name == 'cmp':
            return _total_cmp(m, st, x, y)
        return op(name, x, y)
    return f


def _is_option(m, v):
    if v[0] == 'adt':
        return v[1] == OPTION
    if v[0] == 'sym':
        return adt_name(m.sx.symty.get(v[1]) or {}) == OPTION
    return False


def _cmp_option(m, st, name, x, y):
    """core's derived comparisons on Option<T>: None < Some(_), Some(a) ? Some(b) as a ? b (references peeled)"""
    out = []
    LESS, EQUAL, GREATER = (('adt', ORDERING, i, ()) for i in (0, 1, 2))
    for s2, a in m.expand_enum(st, x):
        for s3, b in m.expand_enum(s2, y):
            if a[2] == 1 and b[2] == 1:
                p, q = m.deref(s3, a[3][0]), m.deref(s3, b[3][0])
                if _is_option(m, p) or _is_option(m, q):
                    out.extend(_cmp_option(m, s3, name, p, q))
                elif name == 'partial_cmp':
                    out.extend(_partial_cmp(m, s3, p, q))
                elif name == 'cmp':
                    out.extend(_total_cmp(m, s3, p, q))
                else:
                    out.append((s3, op(name, p, q)))
                continue
            rel = (a[2] > b[2]) - (a[2] < b[2])       # None (0) sorts before Some (1)
            if name == 'partial_cmp':
                out.append((s3, some((LESS, EQUAL, GREATER)[rel + 1])))
            elif name == 'cmp':
                out.append((s3, (LESS, EQUAL, GREATER)[rel + 1]))
            else:
                out.append((s3, ('bool', {'lt': rel < 0, 'le': rel <= 0, 'gt': rel > 0, 'ge': rel >= 0, 'eq': rel == 0, 'ne': rel != 0}[name])))
    return out


def _partial_cmp(m, st, x, y):
    out = []
    rest = st
    for cond, res in ((op('lt', x, y), some(('adt', ORDERING, 0, ()))),
                      (op('eq', x, y), some(('adt', ORDERING, 1, ()))),
                      (op('gt', x, y), some(('adt', ORDERING, 2, ())))):
        kn = m.sx.known(rest, cond)
        if kn is True:
            out.append((rest, res))
            return out
        if kn is False:
            continue
        s2 = rest.copy()
        m.sx.assume(s2, cond, True)
        out.append((s2, res))
        m.sx.assume(rest, cond, False)
    out.append((rest, NONE))
    return out


def _total_cmp(m, st, x, y):
    out = []
    rest = st
    for cond, res in ((op('lt', x, y), ('adt', ORDERING, 0, ())),
                      (op('eq', x, y), ('adt', ORDERING, 1, ()))):
        kn = m.sx.known(rest, cond)
        if kn is True:
            out.append((rest, res))
            return out
        if kn is False:
            continue
        s2 = rest.copy()
        m.sx.assume(s2, cond, True)
        out.append((s2, res))
        m.sx.assume(rest, cond, False)
    out.append((rest, ('adt', ORDERING, 2, ())))
    return out


# ---------------------------------------------------------------------------------------
# arithmetic on type parameters / by-reference primitive impls

def _arith(name, arity=2):
    def f(m, st, fr, callee, args, dest_ty, term):
        vals = [m.deref(st, a) for a in args]
        return op(name, *vals)
    return f


def _float_fn(name):
    def f(m, st, fr, callee, args, dest_ty, term):
        vals = [m.deref(st, a) for a in args]
        return op(name, *vals)
    return f


def _const_flt(val):
    def f(m, st, fr, callee, args, dest_ty, term):
        return T.mk_flt(val)
    return f


def _int_kind(callee):
    import re
    mt = re.search(r'<impl (\w+)>', callee.get('full', '') or '')
    return mt.group(1) if mt else 'usize'


def _checked(m, st, name, a, callee=None):
    """checked_sub / checked_add: Some(result) unless the operation overflows"""
    kind = _int_kind(callee or {})
    if name == 'sub' and kind.startswith('u'):
        # unsigned: a - b overflows exactly when a < b
        flag = op('lt', a[0], a[1])
    else:
        flag = ('op', 'ovf_' + name, (a[0], a[1], ('str', kind)))
    out = []
    for s2, b in m.sx.fork_bool(st, flag):
        out.append((s2, NONE if b else some(op(name, a[0], a[1]))))
    return out


def _zero(m, st, fr, callee, args, dest_ty, term):
    return ('op', 'zero', ())


def _one(m, st, fr, callee, args, dest_ty, term):
    return ('op', 'one', ())


def _is_zero(m, st, fr, callee, args, dest_ty, term):
    return op('eq', m.deref(st, args[0]), ('op', 'zero', ()))


def _numcast_from(m, st, fr, callee, args, dest_ty, term):
    # num_traits::NumCast::from::<T>(n) -> Option<Self>.  cast.rs: float targets accept every
    # primitive source (always Some); contract row "NumCast::from into a Float is Some".
    src = callee['targs'][1] if len(callee.get('targs', [])) > 1 else None
    v = m.deref(st, args[0])
    if src is not None and is_int(src):
        return some(op('i2f', v))
    if src is not None and is_float(src):
        return some(op('f2f', v))
    return some(op('numcast', v))


def _to_f64(m, st, fr, callee, args, dest_ty, term):
    # ToPrimitive::to_f64 on a float is always Some (num-traits cast.rs float impls)
    return some(op('f2f', m.deref(st, args[0])))


def _min_value(m, st, fr, callee, args, dest_ty, term):
    return ('op', 'min_value', ())


def _max_value(m, st, fr, callee, args, dest_ty, term):
    return ('op', 'max_value', ())


# ---------------------------------------------------------------------------------------
# Option / Result / Try

def _opt_unwrap(m, st, fr, callee, args, dest_ty, term):
    out = []
    for s2, v in m.expand_enum(st, args[0]):
        if v[2] == 1:
            out.append((s2, v[3][0]))
        else:
            out.append(m.panic(s2, s2.frames[-1], term, 'unwrap on None'))
    return out


def _res_unwrap(m, st, fr, callee, args, dest_ty, term):
    out = []
    for s2, v in m.expand_enum(st, args[0]):
        if v[2] == 0:
            out.append((s2, v[3][0]))
        else:
            out.append(m.panic(s2, s2.frames[-1], term, 'unwrap on Err'))
    return out


def _opt_unwrap_or(m, st, fr, callee, args, dest_ty, term):
    out = []
    for s2, v in m.expand_enum(st, args[0]):
        out.append((s2, v[3][0] if v[2] == 1 else args[1]))
    return out


def _opt_cloned(m, st, fr, callee, args, dest_ty, term):
    out = []
    for s2, v in m.expand_enum(st, args[0]):
        if v[2] == 1:
            out.append((s2, some(m.deref(s2, v[3][0]))))
        else:
            out.append((s2, NONE))
    return out


def _call_closure_then(m, st, fr, term, clo, argtuple, wrap):
    """Call a closure value; `wrap` names how its result becomes the call's result."""
    sx = m.sx
    dest = sx.resolve_place(st, fr, term['dest'])
    if wrap is None:
        r = sx.call_closure_value(st, fr, clo, argtuple, dest, term['target'])
        if r is None:
            return [(st, ('unknown', 'call of non-closure %s' % T.show(clo)))]
        return [(st, None)]
    # result must be wrapped: run the closure into a temp cell and continue with a stub frame
    tmp = sx.new_heap(None, None)
    r = sx.call_closure_value(st, fr, clo, argtuple, (tmp, ()), ('wrap', wrap, dest, term['target']))
    if r is None:
        return [(st, ('unknown', 'call of non-closure %s' % T.show(clo)))]
    return [(st, None)]


def _opt_zip(m, st, fr, callee, args, dest_ty, term):
    out = []
    for s2, a in m.expand_enum(st, args[0]):
        for s3, b in m.expand_enum(s2, args[1]):
            out.append((s3, some(('tuple', (a[3][0], b[3][0]))) if (a[2] == 1 and b[2] == 1) else NONE))
    return out


def _opt_map_or(m, st, fr, callee, args, dest_ty, term):
    out = []
    for s2, v in m.expand_enum(st, args[0]):
        f2 = s2.frames[-1]
        if v[2] == 1:
            out.extend(_call_closure_then(m, s2, f2, term, args[2], ('tuple', (v[3][0],)), None))
        else:
            out.append((s2, args[1]))
    return out


def _opt_map(m, st, fr, callee, args, dest_ty, term):
    out = []
    for s2, v in m.expand_enum(st, args[0]):
        f2 = s2.frames[-1]
        if v[2] == 1:
            out.extend(_call_closure_then(m, s2, f2, term, args[1], ('tuple', (v[3][0],)), 'some'))
        else:
            out.append((s2, NONE))
    return out


def _opt_and_then(m, st, fr, callee, args, dest_ty, term):
    out = []
    for s2, v in m.expand_enum(st, args[0]):
        f2 = s2.frames[-1]
        if v[2] == 1:
            out.extend(_call_closure_then(m, s2, f2, term, args[1], ('tuple', (v[3][0],)), None))
        else:
            out.append((s2, NONE))
    return out


def _opt_unwrap_or_else(m, st, fr, callee, args, dest_ty, term):
    out = []
    for s2, v in m.expand_enum(st, args[0]):
        f2 = s2.frames[-1]
        if v[2] == 1:
            out.append((s2, v[3][0]))
        else:
            out.extend(_call_closure_then(m, s2, f2, term, args[1], UNIT, None))
    return out


def _default_of(ty):
    k = (ty or {}).get('k')
    if is_int(ty):
        return T.mk_int(0)
    if is_float(ty):
        return T.mk_flt(Fraction(0))
    if k == 'bool':
        return ('bool', False)
    if k == 'tuple' and not (ty.get('args') or ty.get('elems')):
        return UNIT
    return None


def _unwrap_or_default(okidx):
    def f(m, st, fr, callee, args, dest_ty, term):
        out = []
        for s2, v in m.expand_enum(st, args[0]):
            if v[2] == okidx:
                out.append((s2, v[3][0]))
            else:
                d = _default_of(dest_ty)
                out.append((s2, d if d is not None else ('unknown', 'Default::default of %s' % (dest_ty or {}).get('s'))))
        return out
    return f


def _opt_or(m, st, fr, callee, args, dest_ty, term):
    return [(s2, v if v[2] == 1 else args[1]) for s2, v in m.expand_enum(st, args[0])]


def _opt_and(m, st, fr, callee, args, dest_ty, term):
    return [(s2, args[1] if v[2] == 1 else NONE) for s2, v in m.expand_enum(st, args[0])]


def _opt_or_else(m, st, fr, callee, args, dest_ty, term):
    out = []
    for s2, v in m.expand_enum(st, args[0]):
        if v[2] == 1:
            out.append((s2, v))
        else:
            out.extend(_call_closure_then(m, s2, s2.frames[-1], term, args[1], UNIT, None))
    return out


def _opt_map_or_else(m, st, fr, callee, args, dest_ty, term):
    out = []
    for s2, v in m.expand_enum(st, args[0]):
        if v[2] == 1:
            out.extend(_call_closure_then(m, s2, s2.frames[-1], term, args[2], ('tuple', (v[3][0],)), None))
        else:
            out.extend(_call_closure_then(m, s2, s2.frames[-1], term, args[1], UNIT, None))
    return out


def _opt_is_and(none_value):
    """is_some_and (None -> false) / is_none_or (None -> true)"""
    def f(m, st, fr, callee, args, dest_ty, term):
        out = []
        for s2, v in m.expand_enum(st, args[0]):
            if v[2] == 1:
                out.extend(_call_closure_then(m, s2, s2.frames[-1], term, args[1], ('tuple', (v[3][0],)), None))
            else:
                out.append((s2, ('bool', none_value)))
        return out
    return f


def _opt_filter(m, st, fr, callee, args, dest_ty, term):
    out = []
    for s2, v in m.expand_enum(st, args[0]):
        if v[2] != 1:
            out.append((s2, NONE))
            continue
        x = v[3][0]
        cid = m.sx.new_heap(None, None)
        s2.cells[cid] = x

        def cont(sx, s3, keep, x=x):
            return [(s4, some(x) if b else NONE) for s4, b in sx.fork_bool(s3, keep)]
        out.extend(_call_closure_then(m, s2, s2.frames[-1], term, args[1], ('tuple', (('ref', cid, ()),)), cont))
    return out


def _opt_xor(m, st, fr, callee, args, dest_ty, term):
    out = []
    for s2, a in m.expand_enum(st, args[0]):
        for s3, b in m.expand_enum(s2, args[1]):
            out.append((s3, a if (a[2] == 1 and b[2] == 0) else (b if (a[2] == 0 and b[2] == 1) else NONE)))
    return out


def _opt_flatten(m, st, fr, callee, args, dest_ty, term):
    return [(s2, v[3][0] if v[2] == 1 else NONE) for s2, v in m.expand_enum(st, args[0])]


def _res_unwrap_or(m, st, fr, callee, args, dest_ty, term):
    return [(s2, v[3][0] if v[2] == 0 else args[1]) for s2, v in m.expand_enum(st, args[0])]


def _res_unwrap_or_else(m, st, fr, callee, args, dest_ty, term):
    out = []
    for s2, v in m.expand_enum(st, args[0]):
        if v[2] == 0:
            out.append((s2, v[3][0]))
        else:
            out.extend(_call_closure_then(m, s2, s2.frames[-1], term, args[1], ('tuple', (v[3][0],)), None))
    return out


def _res_or_else(m, st, fr, callee, args, dest_ty, term):
    out = []
    for s2, v in m.expand_enum(st, args[0]):
        if v[2] == 0:
            out.append((s2, v))
        else:
            out.extend(_call_closure_then(m, s2, s2.frames[-1], term, args[1], ('tuple', (v[3][0],)), None))
    return out


def _res_err(m, st, fr, callee, args, dest_ty, term):
    return [(s2, some(v[3][0]) if v[2] == 1 else NONE) for s2, v in m.expand_enum(st, args[0])]


def _res_and(m, st, fr, callee, args, dest_ty, term):
    return [(s2, args[1] if v[2] == 0 else v) for s2, v in m.expand_enum(st, args[0])]


def _res_or(m, st, fr, callee, args, dest_ty, term):
    return [(s2, v if v[2] == 0 else args[1]) for s2, v in m.expand_enum(st, args[0])]


def _res_map_or(m, st, fr, callee, args, dest_ty, term):
    out = []
    for s2, v in m.expand_enum(st, args[0]):
        if v[2] == 0:
            out.extend(_call_closure_then(m, s2, s2.frames[-1], term, args[2], ('tuple', (v[3][0],)), None))
        else:
            out.append((s2, args[1]))
    return out


def _res_map_or_else(m, st, fr, callee, args, dest_ty, term):
    out = []
    for s2, v in m.expand_enum(st, args[0]):
        which = args[2] if v[2] == 0 else args[1]
        out.extend(_call_closure_then(m, s2, s2.frames[-1], term, which, ('tuple', (v[3][0],)), None))
    return out


def _res_is_and(idx):
    """is_ok_and (idx 0) / is_err_and (idx 1)"""
    def f(m, st, fr, callee, args, dest_ty, term):
        out = []
        for s2, v in m.expand_enum(st, args[0]):
            if v[2] == idx:
                out.extend(_call_closure_then(m, s2, s2.frames[-1], term, args[1], ('tuple', (v[3][0],)), None))
            else:
                out.append((s2, ('bool', False)))
        return out
    return f


def _res_unwrap_err(m, st, fr, callee, args, dest_ty, term):
    out = []
    for s2, v in m.expand_enum(st, args[0]):
        if v[2] == 1:
            out.append((s2, v[3][0]))
        else:
            out.append(m.panic(s2, s2.frames[-1], term, 'unwrap_err on Ok'))
    return out


def _res_cloned(m, st, fr, callee, args, dest_ty, term):
    return [(s2, ok(m.deref(s2, v[3][0])) if v[2] == 0 else v) for s2, v in m.expand_enum(st, args[0])]


def _bool_then_some(m, st, fr, callee, args, dest_ty, term):
    return [(s2, some(args[1]) if b else NONE) for s2, b in m.sx.fork_bool(st, args[0])]


def _bool_then(m, st, fr, callee, args, dest_ty, term):
    out = []
    for s2, b in m.sx.fork_bool(st, args[0]):
        if b:
            out.extend(_call_closure_then(m, s2, s2.frames[-1], term, args[1], UNIT, 'some'))
        else:
            out.append((s2, NONE))
    return out


def _ordering_is(accept):
    """Ordering::is_lt / is_le / ...: `accept` = the variant indices (Less 0, Equal 1, Greater 2) that give true"""
    def f(m, st, fr, callee, args, dest_ty, term):
        return [(s2, ('bool', v[2] in accept)) for s2, v in m.expand_enum(st, m.deref(st, args[0]))]
    return f


def _ordering_reverse(m, st, fr, callee, args, dest_ty, term):
    return [(s2, ('adt', ORDERING, 2 - v[2], ())) for s2, v in m.expand_enum(st, args[0])]


def _ordering_then(m, st, fr, callee, args, dest_ty, term):
    return [(s2, args[1] if v[2] == 1 else v) for s2, v in m.expand_enum(st, args[0])]


def _ord_clamp(m, st, fr, callee, args, dest_ty, term):
    # Ord::clamp asserts min <= max, then max(min(self, max), min)
    out = []
    for s2, b in m.sx.fork_bool(st, op('le', args[1], args[2])):
        if b:
            out.append((s2, op('max', op('min', args[0], args[2]), args[1])))
        else:
            out.append(m.panic(s2, s2.frames[-1], term, 'clamp with min > max'))
    return out


def _mem_swap(m, st, fr, callee, args, dest_ty, term):
    a, b = args
    if a[0] != 'ref' or b[0] != 'ref':
        return ('unknown', 'mem::swap of non-references')
    va, vb = m.sx.read_cell(st, a[1], a[2]), m.sx.read_cell(st, b[1], b[2])
    m.sx.write_cell(st, a[1], a[2], vb)
    m.sx.write_cell(st, b[1], b[2], va)
    return UNIT


def _mem_take(m, st, fr, callee, args, dest_ty, term):
    """core::mem::take(&mut x): returns the old value and leaves T::default() behind"""
    a = args[0]
    if a[0] != 'ref':
        return ('unknown', 'mem::take of a non-reference')
    sx = m.sx
    old = sx.read_cell(st, a[1], a[2])
    targs = callee.get('targs') or []
    ty = targs[0] if targs else None
    d = _default_of(ty)
    if d is not None:
        sx.write_cell(st, a[1], a[2], d)
        return old
    if ty is not None and ty.get('adt') and ty.get('local'):
        imps = sx.facts.trait_impls('core::default::Default', self_adt=ty.get('adt'))
        defs = [it['def'] for imp in imps for it in imp['items'] if it['name'] == 'default' and it['def'] in sx.facts.fns]
        if len(defs) == 1:
            insts = sx.facts.root_instance(defs[0])
            dest = sx.resolve_place(st, fr, term['dest'])
            target = term['target']

            def then(sx_, s, v):
                sx_.write_cell(s, a[1], a[2], v)
                return sx_.continue_with(s, old, dest, target)
            tmp = sx.new_heap(None, None)
            sx.call_local(st, fr, insts, 0, [], (tmp, ()), ('then', then))
            return [(st, None)]
    return ('unknown', 'mem::take of %s' % (ty or {}).get('s'))


def _mem_discriminant(m, st, fr, callee, args, dest_ty, term):
    """core::mem::discriminant(&v): an opaque token that identifies the variant"""
    v = m.deref(st, args[0])
    targs = callee.get('targs') or []
    return [(s2, ('adt', 'core::mem::Discriminant', 0, (T.mk_int(e[2]),))) for s2, e in m.expand_enum(st, v, targs[0] if targs else None)]


def _mem_replace(m, st, fr, callee, args, dest_ty, term):
    a = args[0]
    if a[0] != 'ref':
        return ('unknown', 'mem::replace of a non-reference')
    old = m.sx.read_cell(st, a[1], a[2])
    m.sx.write_cell(st, a[1], a[2], args[1])
    return old


def _opt_is(which):
    def f(m, st, fr, callee, args, dest_ty, term):
        out = []
        v0 = m.deref(st, args[0])
        for s2, v in m.expand_enum(st, v0):
            out.append((s2, ('bool', (v[2] == 1) == which)))
        return out
    return f


def _opt_ok_or(m, st, fr, callee, args, dest_ty, term):
    out = []
    for s2, v in m.expand_enum(st, args[0]):
        out.append((s2, ok(v[3][0]) if v[2] == 1 else err(args[1])))
    return out


def _res_ok(m, st, fr, callee, args, dest_ty, term):
    out = []
    for s2, v in m.expand_enum(st, args[0]):
        out.append((s2, some(v[3][0]) if v[2] == 0 else NONE))
    return out


def _res_is(which):
    def f(m, st, fr, callee, args, dest_ty, term):
        out = []
        v0 = m.deref(st, args[0])
        for s2, v in m.expand_enum(st, v0):
            out.append((s2, ('bool', (v[2] == 0) == which)))
        return out
    return f


def _res_map(m, st, fr, callee, args, dest_ty, term):
    out = []
    for s2, v in m.expand_enum(st, args[0]):
        f2 = s2.frames[-1]
        if v[2] == 0:
            out.extend(_call_closure_then(m, s2, f2, term, args[1], ('tuple', (v[3][0],)), 'ok'))
        else:
            out.append((s2, v))
    return out


def _opt_ok_or_else(m, st, fr, callee, args, dest_ty, term):
    out = []
    for s2, v in m.expand_enum(st, args[0]):
        f2 = s2.frames[-1]
        if v[2] == 1:
            out.append((s2, ok(v[3][0])))
        else:
            out.extend(_call_closure_then(m, s2, f2, term, args[1], UNIT, 'err'))
    return out


def _res_map_err(m, st, fr, callee, args, dest_ty, term):
    out = []
    for s2, v in m.expand_enum(st, args[0]):
        f2 = s2.frames[-1]
        if v[2] == 0:
            out.append((s2, v))
        else:
            out.extend(_call_closure_then(m, s2, f2, term, args[1], ('tuple', (v[3][0],)), 'err'))
    return out


def _res_and_then(m, st, fr, callee, args, dest_ty, term):
    out = []
    for s2, v in m.expand_enum(st, args[0]):
        f2 = s2.frames[-1]
        if v[2] == 0:
            out.extend(_call_closure_then(m, s2, f2, term, args[1], ('tuple', (v[3][0],)), None))
        else:
            out.append((s2, v))
    return out


def _try_branch(m, st, fr, callee, args, dest_ty, term):
    out = []
    for s2, v in m.expand_enum(st, args[0]):
        if v[1] == RESULT:
            if v[2] == 0:
                out.append((s2, ('adt', CONTROL_FLOW, 0, (v[3][0],))))
            else:
                out.append((s2, ('adt', CONTROL_FLOW, 1, (err(v[3][0]),))))
        elif v[1] == OPTION:
            if v[2] == 1:
                out.append((s2, ('adt', CONTROL_FLOW, 0, (v[3][0],))))
            else:
                out.append((s2, ('adt', CONTROL_FLOW, 1, (NONE,))))
        else:
            raise_unsupported('Try::branch on %s' % v[1])
    return out


def _unify(pat, ty, mapping):
    """Match a (possibly generic) impl type against a concrete one."""
    if pat is None or ty is None:
        return False
    if pat.get('k') == 'param':
        n = pat.get('name')
        if n in mapping:
            return mapping[n].get('s') == ty.get('s')
        mapping[n] = ty
        return True
    if pat.get('k') != ty.get('k'):
        return False
    if pat.get('adt') != ty.get('adt'):
        return False
    for key in ('args', 'elems'):
        a, b = pat.get(key), ty.get(key)
        if (a is None) != (b is None):
            return pat.get('s') == ty.get('s')
        if a is not None:
            if len(a) != len(b):
                return False
            if not all(_unify(x, y, mapping) for x, y in zip(a, b)):
                return False
    if 'inner' in pat or 'inner' in ty:
        return _unify(pat.get('inner'), ty.get('inner'), mapping)
    if 'args' not in pat and 'elems' not in pat:
        return pat.get('s') == ty.get('s')
    return True


def _convert_value(m, st, fr, term, callee, v, src_ty, dst_ty, wrap):
    """From/Into between types: identity when equal, else the crate's own From impl."""
    if src_ty is None or dst_ty is None or src_ty.get('s') == dst_ty.get('s'):
        return None
    facts = m.sx.facts
    for imp in facts.trait_impls('core::convert::From'):
        mapping = {}
        targs = imp.get('trait_args', [])
        if len(targs) == 1 and _unify(imp['self_ty'], dst_ty, mapping) and _unify(targs[0], src_ty, mapping):
            for it in imp['items']:
                if it['name'] == 'from' and it['def'] in facts.fns:
                    return it['def']
    return False


def _from_residual(m, st, fr, callee, args, dest_ty, term):
    # <Result<T,F> as FromResidual<Result<Infallible,E>>>::from_residual(Err(e)) = Err(F::from(e))
    out = []
    targs = callee.get('targs', [])
    dst_e = src_e = None
    if len(targs) >= 2 and adt_name(targs[0]) == RESULT and adt_name(targs[1]) == RESULT:
        dst_e = (targs[0].get('args') or [None, None])[1]
        src_e = (targs[1].get('args') or [None, None])[1]
    for s2, v in m.expand_enum(st, args[0]):
        f2 = s2.frames[-1]
        if v[1] == OPTION:
            out.append((s2, NONE))
            continue
        e = v[3][0]
        conv = _convert_value(m, s2, f2, term, callee, e, src_e, dst_e, 'err')
        if conv is None:
            out.append((s2, err(e)))
        elif conv is False:
            out.append((s2, err(('unknown', 'From %s -> %s' % (src_e and src_e.get('s'), dst_e and dst_e.get('s'))))))
        else:
            sx = m.sx
            insts = sx.facts.root_instance(conv)
            dest = sx.resolve_place(s2, f2, term['dest'])
            tmp = sx.new_heap(None, None)
            sx.call_local(s2, f2, insts, 0, [e], (tmp, ()), ('wrap', 'err', dest, term['target']))
            out.append((s2, None))
    return out


def _into(m, st, fr, callee, args, dest_ty, term):
    targs = callee.get('targs', [])
    src = targs[0] if targs else None
    dst = targs[1] if len(targs) > 1 else None
    conv = _convert_value(m, st, fr, term, callee, args[0], src, dst, None)
    if conv is None:
        return args[0]
    if conv is False:
        w = _prim_widen(args[0], src, dst)
        if w is not None:
            return w
        return ('unknown', 'Into %s -> %s' % (src and src.get('s'), dst and dst.get('s')))
    sx = m.sx
    insts = sx.facts.root_instance(conv)
    dest = sx.resolve_place(st, fr, term['dest'])
    sx.call_local(st, fr, insts, 0, [args[0]], dest, term['target'])
    return [(st, None)]


def _prim_widen(v, src, dst):
    """core's lossless From impls between primitives are the `as` casts (core/convert/num.rs)"""
    if src is None or dst is None:
        return None
    if is_float(src) and is_float(dst):
        return op('f2f', v)
    if is_int(src) and is_float(dst):
        return op('i2f', v)
    if is_int(src) and is_int(dst):
        return v if v[0] == 'int' else op('i2i', v)
    return None


def _from(m, st, fr, callee, args, dest_ty, term):
    targs = callee.get('targs', [])
    dst = targs[0] if targs else None
    src = targs[1] if len(targs) > 1 else None
    if src is not None and dst is not None and src.get('s') == dst.get('s'):
        return args[0]
    w = _prim_widen(args[0], src, dst)
    if w is not None:
        return w
    return ('unknown', 'From %s -> %s' % (src and src.get('s'), dst and dst.get('s')))


def _clone(m, st, fr, callee, args, dest_ty, term):
    # contract: clone() returns a value equal to its argument (Copy types: bitwise copy)
    return m.deref(st, args[0], 1)


def _clone_from(m, st, fr, callee, args, dest_ty, term):
    # contract of the provided method: `*self = source.clone()` (a value equal to the source)
    a = args[0]
    if a[0] != 'ref':
        return ('unknown', 'clone_from on a non-reference')
    m.sx.write_cell(st, a[1], a[2], m.deref(st, args[1], 1))
    return UNIT


def _default(m, st, fr, callee, args, dest_ty, term):
    targs = callee.get('targs', [])
    t = targs[0] if targs else None
    if t is not None and is_int(t):
        return T.mk_int(0)
    if t is not None and is_float(t):
        return T.mk_flt(Fraction(0))
    if t is not None and t.get('k') == 'bool':
        return FALSE
    return ('unknown', 'Default for %s' % (t and t.get('s')))


# ---------------------------------------------------------------------------------------
# closures

def _fn_call(m, st, fr, callee, args, dest_ty, term):
    sx = m.sx
    dest = sx.resolve_place(st, fr, term['dest'])
    r = sx.call_closure_value(st, fr, args[0], args[1] if len(args) > 1 else UNIT, dest, term['target'])
    if r is None:
        # opaque callable (a caller-supplied predicate): pure function of its arguments
        f = m.deref(st, args[0])
        a = args[1] if len(args) > 1 else UNIT
        vals = tuple(sx.resolve_deep(st, x) for x in (a[1] if a[0] == 'tuple' else ()))
        return ('call', 'apply', (f,) + vals)
    return [(st, None)]


# ---------------------------------------------------------------------------------------
# panics

def _panic(kind):
    def f(m, st, fr, callee, args, dest_ty, term):
        msg = kind
        if args and args[0][0] == 'op' and args[0][1] == 'ref' and args[0][2][0][0] == 'str':
            msg = kind + ': ' + args[0][2][0][1]
        elif args and args[0][0] == 'call' and args[0][1] == 'fmt_args':
            msg = kind + ': ' + T.show(args[0])
        return [m.panic(st, fr, term, msg)]
    return f


# ---------------------------------------------------------------------------------------
# formatting (opaque; templates are checked from the AST facts)

def _opaque(name):
    def f(m, st, fr, callee, args, dest_ty, term):
        vals = tuple(m.sx.resolve_deep(st, a) for a in args)
        return m.typed_result(st, ('call', name, vals), dest_ty if name not in ('fmt_args', 'fmt_arg', 'format') else None)
    return f


def _identity(m, st, fr, callee, args, dest_ty, term):
    return args[0]


def _fmt_write(m, st, fr, callee, args, dest_ty, term):
    st.events.append(('fmt_write', m.sx.resolve_deep(st, args[1]) if len(args) > 1 else None, term['line']))
    return ok(UNIT)


def _hash(m, st, fr, callee, args, dest_ty, term):
    st.events.append(('hash', m.sx.resolve_deep(st, m.deref(st, args[0]))))
    return UNIT


# ---------------------------------------------------------------------------------------
# statrs (contract rows; statrs-0.18.0 src/distribution/{normal,students_t}.rs)

def _normal_new(m, st, fr, callee, args, dest_ty, term):
    # normal.rs:71-81  Err iff mean is NaN or std_dev is NaN or std_dev <= 0
    mean, sd = args
    if mean[0] == 'flt' and sd[0] == 'flt' and not isinstance(mean[1], str) and not isinstance(sd[1], str) and sd[1] > 0:
        return ok(('adt', 'statrs::Normal', 0, (mean, sd)))
    valid = op('and', op('not', op('is_nan', mean)), op('gt', sd, T.mk_flt(Fraction(0))))
    out = []
    for s2, b in m.sx.fork_bool(st, valid):
        if b:
            out.append((s2, ok(('adt', 'statrs::Normal', 0, (mean, sd)))))
        else:
            out.append((s2, err(('call', 'NormalError', (mean, sd)))))
    return out


def _students_new(m, st, fr, callee, args, dest_ty, term):
    # students_t.rs:76-94  Err iff location NaN, scale NaN or <= 0, freedom NaN or <= 0
    loc, scale, dof = args
    conds = []
    for c in (op('not', op('is_nan', loc)), op('gt', scale, T.mk_flt(Fraction(0))), op('gt', dof, T.mk_flt(Fraction(0)))):
        conds.append(c)
    out = []
    rest = st
    for c in conds:
        kn = m.sx.known(rest, c)
        if kn is True:
            continue
        if kn is False:
            return out + [(rest, err(('call', 'StudentsTError', (loc, scale, dof))))]
        if c[0] == 'bool':
            continue
        bad = rest.copy()
        m.sx.assume(bad, c, False)
        out.append((bad, err(('call', 'StudentsTError', (loc, scale, dof)))))
        m.sx.assume(rest, c, True)
    out.append((rest, ok(('adt', 'statrs::StudentsT', 0, (loc, scale, dof)))))
    return out


def _inverse_cdf(m, st, fr, callee, args, dest_ty, term):
    # normal.rs:172-178 panics iff x not in [0,1]; students_t.rs:229 asserts the same
    dist = m.deref(st, args[0])
    x = args[1]
    inside = [op('le', T.mk_flt(Fraction(0)), x), op('le', x, T.mk_flt(Fraction(1)))]
    out = []
    rest = st
    for c in inside:
        kn = m.sx.known(rest, c)
        if kn is True:
            continue
        if kn is False:
            out.append(m.panic(rest, rest.frames[-1], term, 'inverse_cdf argument outside [0,1]'))
            return out
        bad = rest.copy()
        m.sx.assume(bad, c, False)
        out.append(m.panic(bad, bad.frames[-1], term, 'inverse_cdf argument outside [0,1]'))
        m.sx.assume(rest, c, True)
    out.append((rest, ('call', 'inverse_cdf', (dist, x))))
    return out


def _lazy_get(m, st, fr, callee, args, dest_ty, term):
    # lazy_static::lazy::Lazy<T>::get(&self, f): runs `f` once and returns &'static T.
    # Initialiser is a local fn item; it is evaluated symbolically each time (it is pure).
    sx = m.sx
    f = args[1]
    if f[0] != 'fn':
        return ('unknown', 'Lazy::get with non-fn initialiser')
    cands = [x for x in sx.facts.raw['fns'] if norm_path(x['path']) == f[1]]
    if len(cands) != 1:
        return ('unknown', 'Lazy::get initialiser %s not found' % f[1])
    insts = sx.facts.root_instance(cands[0]['id'])
    dest = sx.resolve_place(st, fr, term['dest'])
    tmp = sx.new_heap(None, None)
    sx.call_local(st, fr, insts, 0, [], (tmp, ()), ('wrap', 'ref', dest, term['target']))
    return [(st, None)]


# ---------------------------------------------------------------------------------------
# iterators and containers

def _is_iterator_value(m, v):
    from . import iters
    while v[0] == 'op' and v[1] == 'ref':
        v = v[2][0]
    if iters.kind_of(v) is not None:
        return True
    if v[0] == 'sym':
        d = m.sx.symdef.get(v[1])
        return d is not None and d[0] == 'call' and d[1] in ('into_iter', 'advance', 'copied')
    return False


def _into_iter(m, st, fr, callee, args, dest_ty, term):
    from . import iters
    if iters.kind_of(args[0]) is not None:
        return args[0]      # `impl<I: Iterator> IntoIterator for I` is the identity
    targs = callee.get('targs', [])
    if targs and targs[0].get('k') == 'array' and args[0][0] == 'tuple':
        return iters.mk('Array', args[0], T.mk_int(0))
    if targs and adt_name(targs[0]) == OPTION:
        # Option<T> iterates over its zero or one element
        return [(s2, iters.mk('Array', ('tuple', (v[3][0],) if v[2] == 1 else ()), T.mk_int(0))) for s2, v in m.expand_enum(st, args[0], targs[0])]
    src = m.sx.resolve_deep(st, args[0])
    it = m.sx.fresh('iter', None)
    m.sx.symdef[it[1]] = ('call', 'into_iter', (src,))
    st.events.append(('into_iter', it, src))
    return it


def _iter_next(m, st, fr, callee, args, dest_ty, term):
    # Iterator::next: either exhausted or yields one element; the iterator cell advances
    from . import iters
    sx = m.sx
    itref = args[0]
    elem_ty = None
    if dest_ty is not None and dest_ty.get('args'):
        elem_ty = dest_ty['args'][0]
    dest = sx.resolve_place(st, fr, term['dest'])
    target = term['target']

    def k(s, e, nit):
        return sx.continue_with(s, some(e) if e is not None else NONE, dest, target)
    if itref[0] != 'ref':
        raise_unsupported('next() on a non-reference %s' % T.show(itref)[:60])
    states = iters.step(sx, st, itref, k, elem_ty)
    return [(s, None) for s in states]


def _iter_map(m, st, fr, callee, args, dest_ty, term):
    from . import iters
    return iters.mk('Map', args[0], args[1])


def _iter_copied(m, st, fr, callee, args, dest_ty, term):
    from . import iters
    if iters.kind_of(args[0]) is not None:
        return iters.mk('Copied', args[0])
    return _iter_adapter('copied')(m, st, fr, callee, args, dest_ty, term)


def _second_iter(m, st, fr, callee, other, term):
    """zip / chain take `U: IntoIterator`: the std body calls into_iter on it -> [(state, iterator)]"""
    if _is_iterator_value(m, other) or other[0] == 'ref':
        return [(st, other)]
    r = _into_iter(m, st, fr, {'targs': (callee.get('targs') or [None, None])[1:2]}, [other], None, term)
    return r if isinstance(r, list) else [(st, r)]


def _iter_zip(m, st, fr, callee, args, dest_ty, term):
    from . import iters
    return [(s2, iters.mk('Zip', args[0], o)) for s2, o in _second_iter(m, st, fr, callee, args[1], term)]


def _iter_chain(m, st, fr, callee, args, dest_ty, term):
    from . import iters
    return [(s2, iters.mk('Chain', args[0], o)) for s2, o in _second_iter(m, st, fr, callee, args[1], term)]


def _iter_filter(kind):
    def f(m, st, fr, callee, args, dest_ty, term):
        from . import iters
        return iters.mk(kind, args[0], args[1])
    return f


def _iter_count_model(m, st, fr, callee, args, dest_ty, term):
    from . import iters
    it = args[0]
    if iters.kind_of(it) == 'Array':
        return T.mk_int(len(it[3][0][1]) - it[3][1][1])
    return _iter_count(m, st, fr, callee, args, dest_ty, term)


def _iter_enumerate(m, st, fr, callee, args, dest_ty, term):
    from . import iters
    return iters.mk('Enumerate', args[0], T.mk_int(0))


def _iter_rev(m, st, fr, callee, args, dest_ty, term):
    from . import iters
    return iters.mk('Rev', args[0])


def _iter_by_ref(m, st, fr, callee, args, dest_ty, term):
    return args[0]


def _iter_adapter(name):
    def f(m, st, fr, callee, args, dest_ty, term):
        vals = tuple(m.sx.resolve_deep(st, a) for a in args)
        r = m.sx.fresh(name, dest_ty)
        m.sx.symdef[r[1]] = ('call', name, vals)
        st.events.append((name, r) + vals)
        return r
    return f


def _closure_loop(mode):
    def f(m, st, fr, callee, args, dest_ty, term):
        from .loops import closure_loop
        if mode in ('fold', 'try_fold'):
            return closure_loop(m.sx, st, fr, term, args[0], args[2], args[1], mode, dest_ty)
        return closure_loop(m.sx, st, fr, term, args[0], args[1], None, mode, dest_ty)
    return f


def _iter_count(m, st, fr, callee, args, dest_ty, term):
    return ('call', 'iter_count', (m.sx.resolve_deep(st, args[0]),))


def _sort_by(m, st, fr, callee, args, dest_ty, term):
    # slice::sort_by(&mut [T], cmp): contract - rearranges the slice into the ascending
    # arrangement for the comparator's order (std docs); recorded as an event + new value
    sl = args[0]
    cur = m.deref(st, sl)
    new = ('call', 'sorted_by', (cur, m.sx.resolve_deep(st, args[1])))
    if sl[0] == 'ref':
        m.sx.write_cell(st, sl[1], sl[2], new)
    st.events.append(('sort_by', cur, m.sx.resolve_deep(st, args[1])))
    return UNIT


def _deref_container(m, st, fr, callee, args, dest_ty, term):
    # <Vec<T> as Deref>::deref / <ArrayVec as Deref>::deref: the slice view of the same elements
    return args[0]


def _slice_len(m, st, fr, callee, args, dest_ty, term):
    return op('len', m.deref(st, args[0]))


def _ord_pick(which):
    def f(m, st, fr, callee, args, dest_ty, term):
        # Ord::min / Ord::max of a local field-less enum with a *derived* Ord: declaration order of the variants
        # (max returns the second argument on ties, min the first - indistinguishable for field-less variants)
        targs = callee.get('targs') or []
        ty = targs[0] if targs else None
        if ty is not None and ty.get('k') == 'enum' and ty.get('local'):
            imps = m.sx.facts.trait_impls('core::cmp::Ord', self_adt=ty.get('adt'))
            vs = m.sx.tenv.variants(ty)
            if len(imps) == 1 and imps[0].get('derived') and vs and all(not ftys for vn, dv, ftys in vs):
                out = []
                for s2, a in m.expand_enum(st, args[0], ty):
                    for s3, b in m.expand_enum(s2, args[1], ty):
                        pick = (a if a[2] < b[2] else b) if which == 'min' else (a if a[2] > b[2] else b)
                        out.append((s3, pick))
                return out
        return op(which, args[0], args[1])
    return f


_ord_min = _ord_pick('min')
_ord_max = _ord_pick('max')


def _range_new_inclusive(m, st, fr, callee, args, dest_ty, term):
    return ('adt', 'core::ops::RangeInclusive', 0, (args[0], args[1], ('bool', False)))


def _range_contains(m, st, fr, callee, args, dest_ty, term):
    """`contains` of the std ranges and of a pair of `Bound`s (the provided method of RangeBounds and the inherent ones):
    the conjunction of the comparisons with the present bounds (IEEE comparisons: NaN belongs to no range)"""
    rng, item = m.deref(st, args[0]), m.deref(st, args[1])
    lo = hi = None     # (inclusive?, value)

    def bound(b):
        if b[0] == 'adt' and b[1] in (BOUND, 'core::ops::range::Bound'):
            if b[2] == 2:
                return ('none',)
            return ('inc' if b[2] == 0 else 'exc', m.deref(st, b[3][0]))
        return None
    if rng[0] == 'tuple' and len(rng[1]) == 2:
        lo, hi = bound(m.deref(st, rng[1][0])), bound(m.deref(st, rng[1][1]))
    elif rng[0] == 'adt' and isinstance(rng[1], str):
        nm = rng[1].replace('core::ops::range::', 'core::ops::')
        f = rng[3]
        if nm == 'core::ops::RangeInclusive' and len(f) == 3 and f[2] == ('bool', False):
            lo, hi = ('inc', f[0]), ('inc', f[1])
        elif nm == 'core::ops::Range' and len(f) == 2:
            lo, hi = ('inc', f[0]), ('exc', f[1])
        elif nm == 'core::ops::RangeFrom' and len(f) == 1:
            lo, hi = ('inc', f[0]), ('none',)
        elif nm == 'core::ops::RangeTo' and len(f) == 1:
            lo, hi = ('none',), ('exc', f[0])
        elif nm == 'core::ops::RangeToInclusive' and len(f) == 1:
            lo, hi = ('none',), ('inc', f[0])
    if lo is None or hi is None:
        raise_unsupported('contains on %s' % T.show(rng)[:80])
    conds = []
    if lo[0] != 'none':
        conds.append(op('le' if lo[0] == 'inc' else 'lt', lo[1], item))
    if hi[0] != 'none':
        conds.append(op('le' if hi[0] == 'inc' else 'lt', item, hi[1]))
    if not conds:
        return ('bool', True)
    # decided like the short-circuit `lo <= x && x <= hi` it stands for: one atomic comparison per branch
    out = []
    work = [(st, 0)]
    while work:
        s_, i_ = work.pop()
        if i_ == len(conds):
            out.append((s_, ('bool', True)))
            continue
        for s2, b_ in m.sx.fork_bool(s_, conds[i_]):
            if b_:
                work.append((s2, i_ + 1))
            else:
                out.append((s2, ('bool', False)))
    return out


def _rangebounds_contains(m, st, fr, callee, args, dest_ty, term):
    """the provided RangeBounds::contains: decided for the std ranges / Bound pairs, an unmodelled callee otherwise"""
    from .symex import Unsupported
    try:
        return _range_contains(m, st, fr, callee, args, dest_ty, term)
    except Unsupported:
        key = m.key(callee)
        st.unknowns.append((key, m.sx.where(fr, term)))
        return ('unknown', key)


def _into_inner(m, st, fr, callee, args, dest_ty, term):
    v = args[0]
    if v[0] == 'sym':
        ty = m.sx.symty.get(v[1]) or {}
        a = (ty.get('args') or [None])[0]
        return ('tuple', (m.sx.named(v[1] + '.start', a), m.sx.named(v[1] + '.end', a)))
    return ('unknown', 'into_inner of %s' % T.show(v))


def _approx(name):
    def f(m, st, fr, callee, args, dest_ty, term):
        vals = tuple(m.deref(st, a) if i < 2 else a for i, a in enumerate(args))
        return ('call', name, vals)
    return f


def _approx_default(name):
    def f(m, st, fr, callee, args, dest_ty, term):
        return ('call', name, ())
    return f


def _deref_trait(m, st, fr, callee, args, dest_ty, term):
    return ('unknown', 'Deref::deref of %s' % (callee.get('full'),))


MODELS = {
    'core::cmp::PartialOrd::lt': _cmp('lt'),
    'core::cmp::PartialOrd::le': _cmp('le'),
    'core::cmp::PartialOrd::gt': _cmp('gt'),
    'core::cmp::PartialOrd::ge': _cmp('ge'),
    'core::cmp::PartialEq::eq': _cmp('eq'),
    'core::cmp::PartialEq::ne': _cmp('ne'),
    'core::cmp::PartialOrd::partial_cmp': _cmp('partial_cmp'),
    'core::cmp::Ord::cmp': _cmp('cmp'),
    'core::cmp::Ord::min': _ord_min,
    'core::cmp::Ord::max': _ord_max,
    'core::cmp::min': _ord_min,   # the free functions are `a.min(b)` / `a.max(b)` of Ord
    'core::cmp::max': _ord_max,
    'core::ops::Add::add': _arith('add'),
    'core::ops::Sub::sub': _arith('sub'),
    'core::ops::Mul::mul': _arith('mul'),
    'core::ops::Div::div': _arith('div'),
    'core::ops::Neg::neg': _arith('neg'),
    'num_traits::Float::sqrt': _float_fn('sqrt'),
    'num_traits::Float::ln': _float_fn('ln'),
    'num_traits::Float::exp': _float_fn('exp'),
    'num_traits::Float::abs': _float_fn('abs'),
    'num_traits::Float::floor': _float_fn('floor'),
    'num_traits::Float::round': _float_fn('round'),
    'num_traits::Float::powi': _float_fn('powi'),
    'num_traits::Float::recip': lambda m, st, fr, c, a, d, t: op('div', ('op', 'one', ()), m.deref(st, a[0])),
    'num_traits::Float::is_nan': _float_fn('is_nan'),
    'num_traits::Float::is_finite': _float_fn('is_finite'),
    'num_traits::Float::is_infinite': _float_fn('is_infinite'),
    'num_traits::Float::epsilon': lambda m, st, fr, c, a, d, t: ('call', 'epsilon', ()),
    'num_traits::Float::min_positive_value': lambda m, st, fr, c, a, d, t: ('call', 'min_positive_value', ()),
    'num_traits::Float::max_value': lambda m, st, fr, c, a, d, t: ('call', 'float_max_value', ()),
    'num_traits::Float::min_value': lambda m, st, fr, c, a, d, t: ('call', 'float_min_value', ()),
    'num_traits::Float::ceil': _float_fn('ceil'),
    'num_traits::Float::trunc': _float_fn('trunc'),
    'num_traits::Float::signum': _float_fn('signum'),
    'num_traits::Float::powf': _float_fn('powf'),
    'num_traits::Float::max': _float_fn('fmax'),
    'num_traits::Float::min': _float_fn('fmin'),
    'num_traits::Float::mul_add': lambda m, st, fr, c, a, d, t: op('add', op('mul', m.deref(st, a[0]), m.deref(st, a[1])), m.deref(st, a[2])),
    'core::f64::round_ties_even': _float_fn('round_ties_even'),
    'core::f64::ceil': _float_fn('ceil'),
    'core::f64::trunc': _float_fn('trunc'),
    'core::f64::signum': _float_fn('signum'),
    'core::f64::powf': _float_fn('powf'),
    'core::f64::mul_add': lambda m, st, fr, c, a, d, t: op('add', op('mul', a[0], a[1]), a[2]),
    'core::f64::clamp': lambda m, st, fr, c, a, d, t: op('fmin', op('fmax', a[0], a[1]), a[2]),
    'core::f32::sqrt': _float_fn('sqrt'),
    'core::f32::abs': _float_fn('abs'),
    'num_traits::Float::infinity': _const_flt('inf'),
    'num_traits::Float::neg_infinity': _const_flt('-inf'),
    'num_traits::Float::nan': _const_flt('nan'),
    'num_traits::float::FloatCore::infinity': _const_flt('inf'),
    'num_traits::float::FloatCore::neg_infinity': _const_flt('-inf'),
    'num_traits::Zero::zero': _zero,
    'num_traits::One::one': _one,
    'num_traits::Zero::is_zero': _is_zero,
    'num_traits::NumCast::from': _numcast_from,
    'num_traits::ToPrimitive::to_f64': _to_f64,
    'num_traits::Bounded::min_value': _min_value,
    'num_traits::Bounded::max_value': _max_value,
    'core::num::saturating_sub': lambda m, st, fr, c, a, d, t: op('ssub', a[0], a[1]),
    'core::num::wrapping_sub': lambda m, st, fr, c, a, d, t: op('wsub', a[0], a[1]),
    'core::num::checked_sub': lambda m, st, fr, c, a, d, t: _checked(m, st, 'sub', a, c),
    'core::num::checked_add': lambda m, st, fr, c, a, d, t: _checked(m, st, 'add', a, c),
    'core::num::abs_diff': lambda m, st, fr, c, a, d, t: op('abs', op('sub', a[0], a[1])),
    'core::num::pow': lambda m, st, fr, c, a, d, t: op('powi', a[0], a[1]),
    'core::f64::powi': _float_fn('powi'),
    'core::f64::recip': lambda m, st, fr, c, a, d, t: op('div', T.mk_flt(Fraction(1)), a[0]),
    'core::f64::sqrt': _float_fn('sqrt'),
    'core::f64::floor': _float_fn('floor'),
    'core::f64::round': _float_fn('round'),
    'core::f64::abs': _float_fn('abs'),
    'core::f64::ln': _float_fn('ln'),
    'core::f64::exp': _float_fn('exp'),
    'core::f64::powi': _float_fn('powi'),
    'core::f64::is_nan': _float_fn('is_nan'),
    'core::f64::is_finite': _float_fn('is_finite'),
    'core::f64::is_infinite': _float_fn('is_infinite'),
    'core::f64::max': _float_fn('fmax'),
    'core::f64::min': _float_fn('fmin'),
    'core::option::Option::unwrap': _opt_unwrap,
    'core::option::Option::expect': _opt_unwrap,
    'core::option::Option::unwrap_or': _opt_unwrap_or,
    'core::option::Option::cloned': _opt_cloned,
    'core::option::Option::copied': _opt_cloned,
    'core::option::Option::ok_or_else': _opt_ok_or_else,
    'core::option::Option::zip': _opt_zip,
    'core::option::Option::unwrap_or_default': _unwrap_or_default(1),
    'core::option::Option::or': _opt_or,
    'core::option::Option::and': _opt_and,
    'core::option::Option::or_else': _opt_or_else,
    'core::option::Option::map_or_else': _opt_map_or_else,
    'core::option::Option::is_some_and': _opt_is_and(False),
    'core::option::Option::is_none_or': _opt_is_and(True),
    'core::option::Option::filter': _opt_filter,
    'core::option::Option::xor': _opt_xor,
    'core::option::Option::flatten': _opt_flatten,
    'core::result::Result::unwrap_or': _res_unwrap_or,
    'core::result::Result::unwrap_or_else': _res_unwrap_or_else,
    'core::result::Result::unwrap_or_default': _unwrap_or_default(0),
    'core::result::Result::or_else': _res_or_else,
    'core::result::Result::err': _res_err,
    'core::result::Result::and': _res_and,
    'core::result::Result::or': _res_or,
    'core::result::Result::map_or': _res_map_or,
    'core::result::Result::map_or_else': _res_map_or_else,
    'core::result::Result::is_ok_and': _res_is_and(0),
    'core::result::Result::is_err_and': _res_is_and(1),
    'core::result::Result::unwrap_err': _res_unwrap_err,
    'core::result::Result::expect_err': _res_unwrap_err,
    'core::result::Result::cloned': _res_cloned,
    'core::result::Result::copied': _res_cloned,
    'core::bool::then_some': _bool_then_some,
    'core::bool::then': _bool_then,
    'core::cmp::Ordering::is_lt': _ordering_is((0,)),
    'core::cmp::Ordering::is_le': _ordering_is((0, 1)),
    'core::cmp::Ordering::is_gt': _ordering_is((2,)),
    'core::cmp::Ordering::is_ge': _ordering_is((1, 2)),
    'core::cmp::Ordering::is_eq': _ordering_is((1,)),
    'core::cmp::Ordering::is_ne': _ordering_is((0, 2)),
    'core::cmp::Ordering::reverse': _ordering_reverse,
    'core::cmp::Ordering::then': _ordering_then,
    'core::cmp::Ord::clamp': _ord_clamp,
    'core::mem::swap': _mem_swap,
    'core::mem::replace': _mem_replace,
    'core::mem::take': _mem_take,
    'core::mem::discriminant': _mem_discriminant,
    'core::option::Option::map_or': _opt_map_or,
    'core::option::Option::map': _opt_map,
    'core::option::Option::and_then': _opt_and_then,
    'core::option::Option::unwrap_or_else': _opt_unwrap_or_else,
    'core::option::Option::is_some': _opt_is(True),
    'core::option::Option::is_none': _opt_is(False),
    'core::option::Option::ok_or': _opt_ok_or,
    'core::result::Result::ok': _res_ok,
    'core::result::Result::is_ok': _res_is(True),
    'core::result::Result::is_err': _res_is(False),
    'core::result::Result::map': _res_map,
    'core::result::Result::unwrap': _res_unwrap,
    'core::result::Result::expect': _res_unwrap,
    'core::result::Result::map_err': _res_map_err,
    'core::result::Result::and_then': _res_and_then,
    'core::ops::Try::branch': _try_branch,
    'core::ops::FromResidual::from_residual': _from_residual,
    'core::convert::Into::into': _into,
    'core::convert::From::from': _from,
    'core::clone::Clone::clone': _clone,
    'core::clone::Clone::clone_from': _clone_from,
    'core::default::Default::default': _default,
    'core::ops::FnOnce::call_once': _fn_call,
    'core::ops::FnMut::call_mut': _fn_call,
    'core::ops::Fn::call': _fn_call,
    'core::panicking::panic': _panic('panic'),
    'core::panicking::panic_fmt': _panic('panic'),
    'core::panicking::panic_explicit': _panic('panic'),
    'core::panicking::assert_failed': _panic('assert'),
    'core::rt::begin_panic': _panic('panic'),
    'core::fmt::Arguments::new': _opaque('fmt_args'),
    'core::fmt::Arguments::from_str': _opaque('fmt_args'),
    'core::fmt::Arguments::new_const': _opaque('fmt_args'),
    'core::fmt::Arguments::new_v1': _opaque('fmt_args'),
    'core::fmt::rt::Argument::new_display': _opaque('fmt_arg'),
    'core::fmt::rt::Argument::new_debug': _opaque('fmt_arg'),
    'core::fmt::format': _opaque('format'),
    'core::hint::must_use': _identity,
    'core::any::type_name': _opaque('type_name'),
    'core::fmt::Formatter::write_fmt': _fmt_write,
    'core::fmt::Formatter::write_str': _fmt_write,
    'core::fmt::Display::fmt': _fmt_write,
    'core::hash::Hash::hash': _hash,
    'statrs::distribution::Normal::new': _normal_new,
    'statrs::distribution::StudentsT::new': _students_new,
    'statrs::distribution::ContinuousCDF::inverse_cdf': _inverse_cdf,
    'lazy_static::lazy::Lazy::get': _lazy_get,
    'core::iter::IntoIterator::into_iter': _into_iter,
    'core::iter::Iterator::next': _iter_next,
    'core::iter::Iterator::copied': _iter_copied,
    'core::iter::Iterator::cloned': _iter_copied,
    'core::iter::Iterator::map': _iter_map,
    'core::iter::Iterator::zip': _iter_zip,
    'core::iter::Iterator::chain': _iter_chain,
    'core::iter::Iterator::filter': _iter_filter('Filter'),
    'core::iter::Iterator::filter_map': _iter_filter('FilterMap'),
    'core::iter::Iterator::enumerate': _iter_enumerate,
    'core::iter::Iterator::rev': _iter_rev,
    'core::iter::Iterator::by_ref': _iter_by_ref,
    'core::iter::Iterator::try_fold': _closure_loop('try_fold'),
    'core::iter::Iterator::any': _closure_loop('any'),
    'core::iter::Iterator::all': _closure_loop('all'),
    'core::iter::Iterator::find': _closure_loop('find'),
    'core::iter::Iterator::find_map': _closure_loop('find_map'),
    'core::iter::Iterator::collect': _iter_adapter('collect'),
    'core::iter::Iterator::count': _iter_count_model,
    'core::iter::Iterator::for_each': _closure_loop('for_each'),
    'core::iter::Iterator::try_for_each': _closure_loop('try_for_each'),
    'core::iter::Iterator::fold': _closure_loop('fold'),
    'core::slice::sort_by': _sort_by,
    'core::slice::len': _slice_len,
    'core::ops::Deref::deref': _deref_container,
    'core::ops::DerefMut::deref_mut': _deref_container,
    'core::ops::RangeInclusive::into_inner': _into_inner,
    'core::ops::RangeInclusive::new': _range_new_inclusive,
    'core::ops::RangeBounds::contains': _rangebounds_contains,
    'core::ops::RangeInclusive::contains': _range_contains,
    'core::ops::Range::contains': _range_contains,
    'core::ops::RangeFrom::contains': _range_contains,
    'core::ops::RangeTo::contains': _range_contains,
    'core::ops::RangeToInclusive::contains': _range_contains,
    'approx::AbsDiffEq::abs_diff_eq': _approx('abs_diff_eq'),
    'approx::AbsDiffEq::abs_diff_ne': _approx('abs_diff_ne'),
    'approx::RelativeEq::relative_ne': _approx('relative_ne'),
    'approx::UlpsEq::ulps_ne': _approx('ulps_ne'),
    'approx::RelativeEq::relative_eq': _approx('relative_eq'),
    'approx::UlpsEq::ulps_eq': _approx('ulps_eq'),
    'approx::AbsDiffEq::default_epsilon': _approx_default('default_epsilon'),
    'approx::RelativeEq::default_max_relative': _approx_default('default_max_relative'),
    'approx::UlpsEq::default_max_ulps': _approx_default('default_max_ulps'),
    'thiserror::__private20::AsDisplay::as_display': _identity,
}

PREFIX_MODELS = [
    ('core::fmt::Formatter::debug_', _opaque('debug_fmt')),
    ('core::panicking::panic_const', _panic('panic')),
    ('thiserror::', _identity),
]
