"""Fold obligations shared by the accumulating front-ends (C01, C04, C05, C09)."""
from . import terms as T
from .nf import NotReal
from .statsmodel import ZERO
from .symex import Unsupported


def find_ariths(sm, v, path=()):
    """[(path, Arithmetic term)] of the Arithmetic states embedded in a value."""
    out = []
    if v[0] == 'adt':
        if v[1] == sm.arith['path']:
            return [(path, v)]
        for i, f in enumerate(v[3]):
            out.extend(find_ariths(sm, f, path + (i,)))
    elif v[0] == 'tuple':
        for i, f in enumerate(v[1]):
            out.extend(find_ariths(sm, f, path + (i,)))
    elif v[0] == 'op' and v[1] == 'ref':
        out.extend(find_ariths(sm, v[2][0], path))
    return out


def get_at(v, path):
    for i in path:
        while v[0] == 'op' and v[1] == 'ref':
            v = v[2][0]
        v = v[3][i] if v[0] == 'adt' else v[1][i]
    return v


def step_increment(sm, pre, post, comps_zero=True):
    """(dS1, dS2, dn) normal forms of one update pre -> post of an Arithmetic state, plus the
    list of problems (compensation not real-invariant 0)."""
    nf = sm.nf
    probs = []
    post0 = T.subst(post, {x: ZERO for x in sm.comps(pre)})
    if any(not nf.is_zero(nf.of_term(x)) for x in sm.comps(post0)):
        probs.append('compensation is not real-invariant 0 after the update')
    a0, a1 = sm.alpha(pre), sm.alpha(post0)
    d = tuple(nf.sub(nf.of_term(y), nf.of_term(x)) for x, y in zip(a0, a1))
    return d, probs


def is_increment(sm, d, g):
    """d == (g, g^2, 1) as normal forms."""
    nf = sm.nf
    try:
        gg = nf.of_term(g)
        return nf.equal(d[0], gg) and nf.equal(d[1], nf.mul(gg, gg)) and nf.equal(d[2], nf.of_term(T.mk_int(1)))
    except NotReal:
        return False


def is_unchanged(sm, d):
    return all(sm.nf.is_zero(x) for x in d)


def havoc_subst(sm, hav, s1, s2, n):
    """Substitution havocked Arithmetic state -> named statistics (compensation -> 0)."""
    sub = {hav[3][sm.a_s1][3][sm.k_sum]: s1, hav[3][sm.a_s2][3][sm.k_sum]: s2, hav[3][sm.a_n]: n}
    for x in sm.comps(hav):
        sub[x] = ZERO
    return sub
