"""Engine E6: IEEE-class / range abstract interpretation of summary terms.

Abstract value of a numeric term: the set of possible values as
  finite part  [lo, hi]  (Fractions, None = unbounded on that side; empty when lo > hi),
  may be -inf / +inf / NaN  (three flags).
Nothing is assumed about inputs (floats are `top`, counters are [0, 2^64-1]); guards refine
the abstract value of the *term* they test (terms are hash-consed tuples, so a later use of the
same term sees the refinement).  Transfer functions follow IEEE 754: NaN is produced only by
inf-inf, 0*inf, 0/0, inf/inf, sqrt / ln of a possibly negative value, or a NaN operand;
rounding is monotone, so real interval endpoints widened outward bound the rounded result;
overflow to +-inf is admitted whenever the magnitude may exceed the f32 range (F is generic).
External contracts used: inverse_cdf(valid distribution, q) is finite for q strictly inside
(0,1) (statrs normal.rs:176 / students_t.rs:230-242), its sign is that of q - 1/2 for a
zero-location distribution."""
from fractions import Fraction

from . import terms as T

U64MAX = (1 << 64) - 1
F32MAX = Fraction(34028234663852886, 1) * 10 ** 22   # ~3.4e38
BIG = Fraction(10) ** 30                               # magnitudes beyond this may overflow in f32 products


class AV:
    __slots__ = ('lo', 'hi', 'ninf', 'pinf', 'nan', 'empty')

    def __init__(self, lo=None, hi=None, ninf=False, pinf=False, nan=False, empty=False):
        self.lo, self.hi, self.ninf, self.pinf, self.nan, self.empty = lo, hi, ninf, pinf, nan, empty
        if lo is not None and hi is not None and lo > hi:
            self.empty = True

    def copy(self):
        return AV(self.lo, self.hi, self.ninf, self.pinf, self.nan, self.empty)

    def is_bottom(self):
        return self.empty and not (self.ninf or self.pinf or self.nan)

    def has_finite(self):
        return not self.empty

    def may_neg(self):
        return self.ninf or (self.has_finite() and (self.lo is None or self.lo < 0))

    def may_pos(self):
        return self.pinf or (self.has_finite() and (self.hi is None or self.hi > 0))

    def may_zero(self):
        return self.has_finite() and (self.lo is None or self.lo <= 0) and (self.hi is None or self.hi >= 0)

    def may_inf(self):
        return self.ninf or self.pinf

    def __repr__(self):
        if self.is_bottom():
            return 'bottom'
        parts = []
        if self.has_finite():
            parts.append('[%s, %s]' % ('-oo' if self.lo is None else float(self.lo), '+oo' if self.hi is None else float(self.hi)))
        for f, n in ((self.ninf, '-inf'), (self.pinf, '+inf'), (self.nan, 'NaN')):
            if f:
                parts.append(n)
        return ' | '.join(parts)


def top_float():
    return AV(None, None, True, True, True)


def finite_top():
    return AV(None, None)


def const(c):
    if c == 'nan':
        return AV(empty=True, nan=True)
    if c == 'inf':
        return AV(empty=True, pinf=True)
    if c == '-inf':
        return AV(empty=True, ninf=True)
    c = Fraction(c)
    return AV(c, c)


def meet(a, b):
    lo = a.lo if b.lo is None else (b.lo if a.lo is None else max(a.lo, b.lo))
    hi = a.hi if b.hi is None else (b.hi if a.hi is None else min(a.hi, b.hi))
    return AV(lo, hi, a.ninf and b.ninf, a.pinf and b.pinf, a.nan and b.nan, a.empty or b.empty)


def _min(*xs):
    return None if any(x is None for x in xs) else min(xs)


def _max(*xs):
    return None if any(x is None for x in xs) else max(xs)


CURRENT_BIG = [BIG]


def _overflow(v):
    """after an arithmetic operation: magnitudes beyond the threshold may round to +-inf
    (1e30 when the float type is generic and may be f32, 1e300 for concrete f64 code)"""
    big = CURRENT_BIG[0]
    if v.has_finite():
        if v.hi is None or v.hi > big:
            v.pinf = True
        if v.lo is None or v.lo < -big:
            v.ninf = True
    return v


def add(a, b, sign=1):
    if sign < 0:
        b = neg(b)
    r = AV(empty=a.empty or b.empty)
    if not r.empty:
        r.lo = None if (a.lo is None or b.lo is None) else a.lo + b.lo
        r.hi = None if (a.hi is None or b.hi is None) else a.hi + b.hi
    r.nan = a.nan or b.nan or (a.pinf and b.ninf) or (a.ninf and b.pinf)
    r.pinf = (a.pinf and (b.pinf or b.has_finite())) or (b.pinf and a.has_finite())
    r.ninf = (a.ninf and (b.ninf or b.has_finite())) or (b.ninf and a.has_finite())
    return _overflow(r)


def neg(a):
    return AV(None if a.hi is None else -a.hi, None if a.lo is None else -a.lo, a.pinf, a.ninf, a.nan, a.empty)


def mul(a, b):
    r = AV(empty=a.empty or b.empty)
    if not r.empty:
        cands = []
        unb_lo = unb_hi = False
        for x, xs in ((a.lo, -1), (a.hi, 1)):
            for y, ys in ((b.lo, -1), (b.hi, 1)):
                if x is None or y is None:
                    # unbounded factor: the product is unbounded in the direction given by the signs that are possible
                    unb_lo = unb_hi = True
                else:
                    cands.append(x * y)
        if unb_lo or unb_hi:
            # refine using sign information
            if not a.may_neg() and not b.may_neg():
                r.lo, r.hi = Fraction(0) if cands == [] else min([Fraction(0)] + [c for c in cands if c >= 0] or [Fraction(0)]), None
                r.lo = Fraction(0)
            elif (not a.may_pos() and not b.may_pos()):
                r.lo, r.hi = Fraction(0), None
            elif (not a.may_neg() and not b.may_pos()) or (not a.may_pos() and not b.may_neg()):
                r.lo, r.hi = None, Fraction(0)
            else:
                r.lo, r.hi = None, None
        else:
            r.lo, r.hi = min(cands), max(cands)
    ainf, binf = a.may_inf(), b.may_inf()
    r.nan = a.nan or b.nan or (ainf and b.may_zero()) or (binf and a.may_zero())
    apos, aneg = a.may_pos(), a.may_neg()
    bpos, bneg = b.may_pos(), b.may_neg()
    if ainf or binf:
        r.pinf = (a.pinf and bpos) or (a.ninf and bneg) or (b.pinf and apos) or (b.ninf and aneg)
        r.ninf = (a.pinf and bneg) or (a.ninf and bpos) or (b.pinf and aneg) or (b.ninf and apos)
    return _overflow(r)


def recip(b):
    """1/b"""
    r = AV(empty=True)
    if b.has_finite():
        pos = b.hi is None or b.hi > 0
        negv = b.lo is None or b.lo < 0
        lo_c, hi_c = [], []
        r.empty = False
        if pos and negv or b.may_zero():
            r.lo, r.hi = None, None
        elif pos:
            r.lo = Fraction(0) if b.hi is None else 1 / b.hi
            r.hi = None if (b.lo is None or b.lo <= 0) else 1 / b.lo
        else:
            r.hi = Fraction(0) if b.lo is None else 1 / b.lo
            r.lo = None if (b.hi is None or b.hi >= 0) else 1 / b.hi
        if b.may_zero():
            r.pinf = r.ninf = True
        # tiny denominators overflow
        if b.lo is None or b.hi is None or (b.lo < 1 / BIG and b.hi > -1 / BIG):
            if pos:
                r.pinf = True
            if negv:
                r.ninf = True
    if b.may_inf():
        r.empty = False if r.empty and False else r.empty
        z = AV(Fraction(0), Fraction(0))
        r = join(r, z)
    r.nan = b.nan
    return r


def div(a, b):
    # division by a magnitude >= 1 cannot create an overflow: |a/b| <= |a|
    if b.has_finite() and not b.nan and not b.may_inf() and ((b.lo is not None and b.lo >= 1) or (b.hi is not None and b.hi <= -1)):
        neg_div = not (b.lo is not None and b.lo >= 1)
        if neg_div:
            a2 = neg(a)
            bl, bh = -b.hi, (None if b.lo is None else -b.lo)
        else:
            a2 = a
            bl, bh = b.lo, b.hi
        r = AV(empty=a2.empty)
        if not a2.empty:
            if a2.lo is None:
                lo = None
            elif a2.lo < 0:
                lo = a2.lo / bl
            else:
                lo = a2.lo / bh if bh is not None else Fraction(0)
            if a2.hi is None:
                hi = None
            elif a2.hi > 0:
                hi = a2.hi / bl
            else:
                hi = a2.hi / bh if bh is not None else Fraction(0)
            r.lo, r.hi = lo, hi
        r.pinf, r.ninf, r.nan = a2.pinf, a2.ninf, a2.nan
        return r
    r = mul(a, recip(b))
    # 0/0 and inf/inf
    if (a.may_zero() and b.may_zero()) or (a.may_inf() and b.may_inf()):
        r.nan = True
    # x / inf = 0 is fine; mul(a, recip) may have flagged inf*0: recompute NaN precisely
    r.nan = a.nan or b.nan or (a.may_zero() and b.may_zero()) or (a.may_inf() and b.may_inf())
    return r


def join(a, b):
    if a.empty and b.empty:
        r = AV(empty=True)
    elif a.empty:
        r = AV(b.lo, b.hi)
    elif b.empty:
        r = AV(a.lo, a.hi)
    else:
        r = AV(_min(a.lo, b.lo), _max(a.hi, b.hi))
    r.ninf, r.pinf, r.nan = a.ninf or b.ninf, a.pinf or b.pinf, a.nan or b.nan
    return r


def sqrt(a):
    r = AV(empty=True)
    if a.has_finite() and (a.hi is None or a.hi >= 0):
        lo = Fraction(0) if (a.lo is None or a.lo <= 0) else _fsqrt(a.lo, False)
        hi = None if a.hi is None else _fsqrt(a.hi, True)
        r = AV(lo, hi)
    r.pinf = a.pinf
    r.nan = a.nan or a.ninf or (a.has_finite() and (a.lo is None or a.lo < 0))
    return r


def _fsqrt(x, up):
    import math
    n, d = x.numerator, x.denominator
    # rational bounds of sqrt(n/d)
    s = Fraction(math.isqrt(n * d), d)
    return s + Fraction(1, d) if up else s


def ln(a):
    r = AV(None, None) if (a.has_finite() and (a.hi is None or a.hi > 0)) else AV(empty=True)
    if not r.empty:
        if a.lo is not None and a.lo >= 1:
            r.lo = Fraction(0)
        if a.hi is not None and a.hi <= 1:
            r.hi = Fraction(0)
    r.ninf = a.may_zero()
    r.pinf = a.pinf
    r.nan = a.nan or a.may_neg()
    return r


def exp(a):
    r = AV(Fraction(0), None) if a.has_finite() else AV(empty=True)
    if a.ninf:
        r = join(r, AV(Fraction(0), Fraction(0)))
    r.pinf = a.pinf or (a.has_finite() and (a.hi is None or a.hi > 80))
    r.nan = a.nan
    return r


class Env:
    """term -> refined abstract value; inputs default to top by type."""

    def __init__(self, base=None):
        self.ref = dict(base or {})
        self.int_syms = set()
        self.bottom = False
        self.ge = set()          # relational facts a >= b between terms (from NaN-free comparisons)
        self.big = BIG           # magnitude beyond which an arithmetic result may round to +-inf

    def copy(self):
        e = Env(self.ref)
        e.int_syms = set(self.int_syms)
        e.bottom = self.bottom
        e.ge = set(self.ge)
        e.big = self.big
        return e

    def set(self, t, v):
        old = self.ref.get(t)
        v = meet(old, v) if old is not None else v
        if v.is_bottom():
            self.bottom = True
        self.ref[t] = v


def eval_av(t, env, is_int=None, depth=0):
    """Abstract value of a numeric term."""
    CURRENT_BIG[0] = env.big
    r = _eval(t, env, depth)
    ref = env.ref.get(t)
    if ref is not None:
        r = meet(r, ref)
    return r


def _eval(t, env, depth):
    k = t[0]
    if k == 'int':
        return const(t[1])
    if k == 'flt':
        return const(t[1])
    if k == 'sym':
        if t in env.ref:
            return env.ref[t]
        if t[1] in env.int_syms:
            return AV(Fraction(0), Fraction(U64MAX))
        return top_float()
    if k == 'op':
        n, a = t[1], t[2]
        if n == 'zero':
            return const(0)
        if n == 'one':
            return const(1)
        if n == 'mul' and len(a) == 2 and a[0] == a[1]:
            x = eval_av(a[0], env)
            r = AV(empty=x.empty)
            if not x.empty:
                m = None if (x.lo is None or x.hi is None) else max(abs(x.lo), abs(x.hi))
                lo = Fraction(0)
                if x.lo is not None and x.lo > 0:
                    lo = x.lo * x.lo
                elif x.hi is not None and x.hi < 0:
                    lo = x.hi * x.hi
                r.lo, r.hi = lo, (None if m is None else m * m)
            r.pinf = x.may_inf()
            r.nan = x.nan
            return _overflow(r)
        if n in ('add', 'sub', 'mul', 'div') and len(a) == 2:
            x, y = eval_av(a[0], env), eval_av(a[1], env)
            if n == 'add':
                return add(x, y)
            if n == 'sub':
                r = add(x, y, -1)
                # relational fact a >= b (also through exact int->float embeddings)
                def strip(t):
                    while t[0] == 'op' and t[1] in ('i2f', 'i2i') and len(t[2]) == 1:
                        t = t[2][0]
                    return t
                if (a[0], a[1]) in env.ge or (strip(a[0]), strip(a[1])) in env.ge:
                    if not r.empty and (r.lo is None or r.lo < 0):
                        r = AV(Fraction(0), r.hi, False, r.pinf, r.nan, r.empty)
                return r
            if n == 'mul':
                return mul(x, y)
            r = div(x, y)
            def strip2(t):
                while t[0] == 'op' and t[1] in ('i2f', 'i2i') and len(t[2]) == 1:
                    t = t[2][0]
                return t
            if ((a[1], a[0]) in env.ge or (strip2(a[1]), strip2(a[0])) in env.ge) and x.lo is not None and x.lo >= 0 and not x.nan and not y.nan:
                # 0 <= num <= den: the quotient is in [0, 1] (or NaN for 0/0), never infinite
                r = AV(Fraction(0), Fraction(1), False, False, r.nan, False)
            return r
        if n == 'neg':
            return neg(eval_av(a[0], env))
        if n == 'i2f':
            x = eval_av(a[0], env)
            return AV(x.lo, x.hi)
        if n in ('i2i', 'ref'):
            return eval_av(a[0], env)
        if n == 'wrap_int':
            # narrowing / sign-changing integer cast: the operand's own range if it fits, else the target's range
            x = eval_av(a[0], env)
            kind = a[1][1] if len(a) > 1 and a[1][0] == 'str' else 'usize'
            bits = {'u8': 8, 'u16': 16, 'u32': 32, 'u64': 64, 'usize': 64, 'u128': 128, 'i8': 8, 'i16': 16, 'i32': 32, 'i64': 64, 'isize': 64, 'i128': 128}.get(kind, 64)
            lo, hi = (-(1 << (bits - 1)), (1 << (bits - 1)) - 1) if kind.startswith('i') else (0, (1 << bits) - 1)
            if x.lo is not None and x.hi is not None and x.lo >= lo and x.hi <= hi and not x.nan:
                return AV(x.lo, x.hi)
            return AV(Fraction(lo), Fraction(hi))
        if n in ('f2f', 'numcast'):
            x = eval_av(a[0], env).copy()
            # narrowing to f32 may overflow to +-inf, never creates NaN
            if x.has_finite():
                if x.hi is None or x.hi > F32MAX:
                    x.pinf = True
                if x.lo is None or x.lo < -F32MAX:
                    x.ninf = True
            return x
        if n == 'f2i':
            x = eval_av(a[0], env)
            lo = Fraction(0)
            hi = Fraction(U64MAX)
            if x.has_finite() and not x.nan and not x.ninf:
                if x.lo is not None and x.lo > 0:
                    lo = Fraction(int(x.lo))
            if x.has_finite() and not x.pinf and x.hi is not None:
                hi = max(Fraction(0), Fraction(int(x.hi)))
            elif not x.has_finite() and not x.pinf:
                hi = Fraction(0)
            return AV(lo, min(hi, Fraction(U64MAX)))
        if n in ('floor', 'round'):
            x = eval_av(a[0], env)
            return AV(None if x.lo is None else x.lo - 1, None if x.hi is None else x.hi + 1, x.ninf, x.pinf, x.nan, x.empty)
        if n == 'sqrt':
            return sqrt(eval_av(a[0], env))
        if n == 'ln':
            return ln(eval_av(a[0], env))
        if n == 'exp':
            return exp(eval_av(a[0], env))
        if n == 'abs':
            x = eval_av(a[0], env)
            j = join(x, neg(x))
            return AV(Fraction(0) if j.has_finite() else None, j.hi, False, x.pinf or x.ninf, x.nan, j.empty)
        if n in ('min', 'max'):
            x, y = eval_av(a[0], env), eval_av(a[1], env)
            if n == 'min':
                return AV(_min(x.lo, y.lo) if (x.lo is not None and y.lo is not None) else None, x.hi if y.hi is None else (y.hi if x.hi is None else min(x.hi, y.hi)))
            return AV(x.lo if y.lo is None else (y.lo if x.lo is None else max(x.lo, y.lo)), _max(x.hi, y.hi) if (x.hi is not None and y.hi is not None) else None)
        if n == 'ssub':
            r = add(eval_av(a[0], env), eval_av(a[1], env), -1)
            return AV(Fraction(0) if (r.lo is None or r.lo < 0) else r.lo, None if r.hi is None else max(Fraction(0), r.hi))
        if n == 'powi' and len(a) == 2 and a[1][0] == 'int' and a[1][1] == 2:
            return _eval(('op', 'mul', (a[0], a[0])), env, depth)
        if n == 'len':
            return AV(Fraction(0), Fraction(U64MAX))
        if n == 'index':
            return top_float()
        return top_float()
    if k == 'call':
        if t[1] == 'inverse_cdf':
            dist, q = t[2]
            qv = eval_av(q, env)
            inside = (not qv.nan and not qv.may_inf() and qv.has_finite() and qv.lo is not None and qv.hi is not None and qv.lo > 0 and qv.hi < 1)
            if inside:
                r = AV(None, None)
                loc = dist[3][0] if dist[0] == 'adt' and dist[3] else None
                if dist[0] == 'adt' and dist[1] == 'statrs::Normal' and T.const_num(dist[3][0]) == 0 and T.const_num(dist[3][1]) == 1:
                    # |Phi^-1(q)| <= sqrt(-2 ln(min(q, 1-q)))  (Mills-ratio bound on the normal tail)
                    import math
                    m = min(float(qv.lo), 1 - float(qv.hi))
                    bnd = Fraction(math.sqrt(-2 * math.log(m)) * 1.01 + 0.01).limit_denominator(1000)
                    r = AV(-bnd, bnd)
                if loc is not None and T.const_num(loc) == 0:
                    if qv.lo >= Fraction(1, 2):
                        r.lo = Fraction(0)
                    if qv.hi <= Fraction(1, 2):
                        r.hi = Fraction(0)
                return r
            return top_float()
        if t[1] == 'iter_count':
            return AV(Fraction(0), Fraction(U64MAX))
        return top_float()
    return top_float()


SWAP = {'lt': 'gt', 'gt': 'lt', 'le': 'ge', 'ge': 'le', 'eq': 'eq', 'ne': 'ne'}


def cmp_av(op, x, y):
    """True / False / None (unknown) for x op y under IEEE semantics."""
    if x.is_bottom() or y.is_bottom():
        return None
    may_nan = x.nan or y.nan
    only_nan = (x.empty and not x.may_inf() and x.nan) or (y.empty and not y.may_inf() and y.nan)
    if only_nan:
        return op == 'ne'
    # extended-real bounds
    NEG, POS = float('-inf'), float('inf')

    def lo_of(v):
        if v.ninf:
            return NEG
        if v.has_finite():
            return NEG if v.lo is None else v.lo
        return POS if v.pinf else None

    def hi_of(v):
        if v.pinf:
            return POS
        if v.has_finite():
            return POS if v.hi is None else v.hi
        return NEG if v.ninf else None
    xl, xh, yl, yh = lo_of(x), hi_of(x), lo_of(y), hi_of(y)
    if None in (xl, xh, yl, yh):
        return None
    if op in ('gt', 'ge'):
        op = SWAP[op]
        xl, xh, yl, yh = yl, yh, xl, xh
    if op == 'lt':
        if xh < yl:
            return None if may_nan else True
        if xl >= yh:
            return False
        return None
    if op == 'le':
        if xh <= yl:
            return None if may_nan else True
        if xl > yh:
            return False
        return None
    if op == 'eq':
        if xh < yl or yh < xl:
            return False
        if xl == xh == yl == yh and not may_nan:
            return True
        return None
    if op == 'ne':
        if xh < yl or yh < xl:
            return True
        if xl == xh == yl == yh and not may_nan:
            return False
        return None
    return None


def literal_value(atom, env):
    """Truth value of a boolean atom under env: True / False / None."""
    if atom[0] == 'bool':
        return atom[1]
    if atom[0] != 'op':
        return None
    n, a = atom[1], atom[2]
    if n == 'not':
        v = literal_value(a[0], env)
        return None if v is None else not v
    if n in ('lt', 'le', 'gt', 'ge', 'eq', 'ne') and len(a) == 2:
        sp = special_cmp(n, a[0], a[1], env)
        if sp is not None:
            return sp
        return cmp_av(n, eval_av(a[0], env), eval_av(a[1], env))
    if n == 'is_nan':
        x = eval_av(a[0], env)
        if not x.nan:
            return False
        if x.empty and not x.may_inf():
            return True
        return None
    if n == 'is_finite':
        x = eval_av(a[0], env)
        if not x.nan and not x.may_inf():
            return True
        if x.empty:
            return False
        return None
    if n == 'ovf_sub' and (a[0], a[1]) in env.ge:
        return False
    if n.startswith('ovf_'):
        x, y = eval_av(a[0], env), eval_av(a[1], env)
        kind = a[2][1] if len(a) > 2 and a[2][0] == 'str' else 'usize'
        if kind.startswith('u'):
            lo_lim, hi_lim = Fraction(0), Fraction(U64MAX)
        else:
            lo_lim, hi_lim = -Fraction(1 << 63), Fraction((1 << 63) - 1)
        r = add(x, y) if n == 'ovf_add' else (add(x, y, -1) if n == 'ovf_sub' else mul(x, y))
        if r.lo is not None and r.hi is not None and r.lo >= lo_lim and r.hi <= hi_lim:
            return False
        if (r.hi is not None and r.hi < lo_lim) or (r.lo is not None and r.lo > hi_lim):
            return True
        return None
    if n == 'and':
        x, y = literal_value(a[0], env), literal_value(a[1], env)
        if x is False or y is False:
            return False
        if x is True and y is True:
            return True
        return None
    return None


def special_cmp(n, a, b, env):
    """Relational patterns the non-relational domain cannot see."""
    # min(_, N - 1) < N  (index cap) when N >= 1
    if n == 'lt' and a[0] == 'op' and a[1] == 'min':
        for x in a[2]:
            if x == T.op('sub', b, T.mk_int(1)):
                nb = eval_av(b, env)
                if nb.lo is not None and nb.lo >= 1:
                    return True
    return None


def refine(env, atom, pol):
    """Refine env with the literal (atom, pol); sets env.bottom on contradiction."""
    v = literal_value(atom, env)
    if v is not None and v != pol:
        env.bottom = True
        return
    if atom[0] != 'op':
        return
    n, a = atom[1], atom[2]
    if n == 'not':
        return refine(env, a[0], not pol)
    if n in ('is_finite',):
        x = eval_av(a[0], env)
        if pol:
            env.set(a[0], AV(x.lo, x.hi, False, False, False, x.empty))
        return
    if n == 'is_nan':
        x = eval_av(a[0], env)
        if not pol:
            env.set(a[0], AV(x.lo, x.hi, x.ninf, x.pinf, False, x.empty))
        else:
            env.set(a[0], AV(empty=True, nan=True))
        return
    if n.startswith('ovf_') and not pol:
        # the checked operation did not overflow: its result is in range
        opn = n[4:]
        res = T.op(opn, a[0], a[1])
        env.set(res, AV(Fraction(0), Fraction(U64MAX)))
        if opn == 'sub':
            # a - b >= 0  =>  a >= b
            x, y = eval_av(a[0], env), eval_av(a[1], env)
            if y.lo is not None:
                env.set(a[0], AV(y.lo, None))
            if x.hi is not None:
                env.set(a[1], AV(None, x.hi))
        return
    if n in ('lt', 'le', 'gt', 'ge', 'eq') and len(a) == 2:
        x, y = eval_av(a[0], env), eval_av(a[1], env)
        op = n
        l, r = a[0], a[1]
        if op in ('gt', 'ge'):
            op, l, r, x, y = SWAP[op], r, l, y, x
        if op == 'eq' and pol:
            m = meet(x, y)
            m.nan = False
            env.set(l, m)
            env.set(r, m)
            return
        if op == 'eq':
            # x != c for an integer-valued x at the edge of its range tightens the range
            for u, v, ut in ((x, y, l), (y, x, r)):
                if ut[0] == 'sym' and ut[1] in env.int_syms and v.lo is not None and v.lo == v.hi and not v.nan:
                    c = v.lo
                    if u.lo is not None and u.lo == c:
                        env.set(ut, AV(c + 1, u.hi))
                    elif u.hi is not None and u.hi == c:
                        env.set(ut, AV(u.lo, c - 1))
            return
        if pol:
            env.ge.add((r, l))
        elif not x.nan and not y.nan:
            env.ge.add((l, r))
        if pol:
            # l < r (or <=) holds: neither is NaN, l is not +inf, r is not -inf
            nx = AV(x.lo, x.hi if y.hi is None else (y.hi if x.hi is None else min(x.hi, y.hi)), x.ninf, x.pinf and y.pinf and op == 'le', False, x.empty)
            ny = AV(y.lo if x.lo is None else (x.lo if y.lo is None else max(x.lo, y.lo)), y.hi, y.ninf and x.ninf and op == 'le', y.pinf, False, y.empty)
            if not y.pinf and y.hi is None and False:
                pass
            # if y cannot be finite-unbounded above and is not +inf, x is bounded by y.hi (done above)
            env.set(l, nx)
            env.set(r, ny)
            _propagate(env, l)
            _propagate(env, r)
        else:
            # !(l < r): NaN possible; if neither can be NaN then l >= r
            if not x.nan and not y.nan:
                nx = AV(x.lo if y.lo is None else (y.lo if x.lo is None else max(x.lo, y.lo)), x.hi, x.ninf and y.ninf, x.pinf, False, x.empty)
                ny = AV(y.lo, y.hi if x.hi is None else (x.hi if y.hi is None else min(x.hi, y.hi)), y.ninf, y.pinf and x.pinf, False, y.empty)
                env.set(l, nx)
                env.set(r, ny)
                _propagate(env, l)
                _propagate(env, r)


def _propagate(env, t):
    """Push a refinement of a compound term down to its operands (i2f, x - c, x + c, a - b)."""
    v = env.ref.get(t)
    if v is None or t[0] != 'op':
        return
    n, a = t[1], t[2]
    if n in ('add', 'sub', 'mul', 'div') and len(a) == 2 and not v.nan:
        # a NaN operand would have produced NaN
        for o in a:
            ov = eval_av(o, env)
            if ov.nan:
                env.set(o, AV(ov.lo, ov.hi, ov.ninf, ov.pinf, False, ov.empty))
                _propagate(env, o)
    if n == 'mul' and len(a) == 2 and v.lo is not None and v.lo > 0 and not v.nan:
        for xi, yi in ((0, 1), (1, 0)):
            y = eval_av(a[yi], env)
            x = eval_av(a[xi], env)
            if y.has_finite() and not y.may_inf() and y.lo is not None and y.lo >= 0 and y.hi is not None and y.hi > 0:
                env.set(a[xi], AV(v.lo / y.hi, x.hi, x.ninf, x.pinf, False, x.empty))
                _propagate(env, a[xi])
    if n in ('i2f', 'f2f', 'i2i') and len(a) == 1 and n != 'f2f':
        x = eval_av(a[0], env)
        env.set(a[0], AV(v.lo, v.hi, x.ninf, x.pinf, x.nan, v.empty))
        _propagate(env, a[0])
    elif n in ('sub', 'add') and len(a) == 2:
        x, y = eval_av(a[0], env), eval_av(a[1], env)
        s = 1 if n == 'add' else -1
        # t = x + s*y  =>  x = t - s*y ;  y = s*(t - x)
        if not y.nan and not y.may_inf() and y.has_finite():
            lo = None if (v.lo is None or (y.hi if s > 0 else y.lo) is None) else v.lo - (y.hi if s > 0 else -y.lo)
            hi = None if (v.hi is None or (y.lo if s > 0 else y.hi) is None) else v.hi - (y.lo if s > 0 else -y.hi)
            if not v.nan:
                env.set(a[0], AV(lo, hi, x.ninf, x.pinf, False if not v.nan else x.nan, x.empty))
                _propagate(env, a[0])
        if not x.nan and not x.may_inf() and x.has_finite() and not v.nan:
            if s > 0:
                lo = None if (v.lo is None or x.hi is None) else v.lo - x.hi
                hi = None if (v.hi is None or x.lo is None) else v.hi - x.lo
            else:
                # y = x - t
                lo = None if (x.lo is None or v.hi is None) else x.lo - v.hi
                hi = None if (x.hi is None or v.lo is None) else x.hi - v.lo
            env.set(a[1], AV(lo, hi, y.ninf, y.pinf, False, y.empty))
            _propagate(env, a[1])


def feasible(guard, env0, passes=2):
    """Refine env0 with all literals; returns (env | None if contradictory)."""
    env = env0.copy()
    for _ in range(passes):
        for atom, pol in guard:
            if atom[0] == 'variant':
                continue
            refine(env, atom, pol)
            if env.bottom:
                return None
    for atom, pol in guard:
        if atom[0] == 'variant':
            continue
        v = literal_value(atom, env)
        if v is not None and v != pol:
            return None
    return env
