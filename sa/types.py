"""Type helpers over the driver's type JSON ({'s','k',...})."""
from .facts import norm_path

INT_BITS = {'i8': 8, 'i16': 16, 'i32': 32, 'i64': 64, 'i128': 128, 'isize': 64,
            'u8': 8, 'u16': 16, 'u32': 32, 'u64': 64, 'u128': 128, 'usize': 64}


def is_int(ty):
    return ty is not None and ty.get('k') in INT_BITS


def is_signed(ty):
    return ty.get('k', '').startswith('i') and ty.get('k') in INT_BITS


def is_float(ty):
    return ty is not None and ty.get('k') in ('f32', 'f64')


def is_scalar(ty):
    return ty is not None and (ty.get('k') in INT_BITS or ty.get('k') in ('f32', 'f64', 'bool', 'char', 'param'))


# external enums/structs the summariser has to look inside: name -> list of
# (variant name, discriminant value as printed by SwitchInt, field type selector)
def _arg(i):
    return lambda ty: (ty.get('args') or [None] * (i + 1))[i] if len(ty.get('args') or []) > i else None


EXTERNAL_ADTS = {
    'core::option::Option': [('None', 0, []), ('Some', 1, [_arg(0)])],
    'core::result::Result': [('Ok', 0, [_arg(0)]), ('Err', 1, [_arg(1)])],
    'core::ops::ControlFlow': [('Continue', 0, [_arg(1)]), ('Break', 1, [_arg(0)])],
    'core::ops::control_flow::ControlFlow': [('Continue', 0, [_arg(1)]), ('Break', 1, [_arg(0)])],
    'core::cmp::Ordering': [('Less', 255, []), ('Equal', 0, []), ('Greater', 1, [])],
    'core::ops::Bound': [('Included', 0, [_arg(0)]), ('Excluded', 1, [_arg(0)]), ('Unbounded', 2, [])],
    'core::ops::range::Bound': [('Included', 0, [_arg(0)]), ('Excluded', 1, [_arg(0)]), ('Unbounded', 2, [])],
    'core::ops::RangeFrom': [('RangeFrom', 0, [_arg(0)])],
    'core::ops::RangeToInclusive': [('RangeToInclusive', 0, [_arg(0)])],
    'core::ops::range::RangeFrom': [('RangeFrom', 0, [_arg(0)])],
    'core::ops::range::RangeToInclusive': [('RangeToInclusive', 0, [_arg(0)])],
    'core::convert::Infallible': [],
}

OPTION = 'core::option::Option'
RESULT = 'core::result::Result'
CONTROL_FLOW = 'core::ops::ControlFlow'
ORDERING = 'core::cmp::Ordering'
BOUND = 'core::ops::Bound'


def adt_name(ty):
    if ty is None or 'adt' not in ty:
        return None
    p = norm_path(ty['adt'])
    if p == 'core::ops::control_flow::ControlFlow':
        p = CONTROL_FLOW
    if p == 'core::ops::range::Bound':
        p = BOUND
    return p


def subst_ty(ty, mapping):
    if ty is None:
        return None
    if ty.get('k') == 'param' and ty.get('name') in mapping:
        return mapping[ty['name']]
    out = dict(ty)
    changed = False
    for key in ('args', 'elems'):
        if key in ty:
            new = [subst_ty(t, mapping) for t in ty[key]]
            if new != ty[key]:
                out[key] = new
                changed = True
    if 'inner' in ty:
        new = subst_ty(ty['inner'], mapping)
        if new is not ty['inner']:
            out['inner'] = new
            changed = True
    return out if changed else ty


class TypeEnv:
    def __init__(self, facts):
        self.facts = facts

    def variants(self, ty):
        """[(variant name, discriminant value, [field types])] for an ADT type, or None."""
        name = adt_name(ty)
        if name is None:
            return None
        if name in EXTERNAL_ADTS:
            return [(vn, dv, [sel(ty) for sel in sels]) for vn, dv, sels in EXTERNAL_ADTS[name]]
        adt = self.facts.adts.get(ty['adt'])
        if adt is None:
            return None
        mapping = {}
        args = ty.get('args') or []
        for g, a in zip(adt['generics'], args):
            mapping[g] = a
        out = []
        for i, v in enumerate(adt['variants']):
            out.append((v['name'], i, [subst_ty(f['ty'], mapping) for f in v['fields']]))
        return out

    def field_names(self, ty, variant):
        name = adt_name(ty)
        adt = self.facts.adts.get(ty.get('adt')) if ty else None
        if adt is None:
            return None
        return [f['name'] for f in adt['variants'][variant]['fields']]

    def inhabited(self, ty, depth=0):
        if ty is None or depth > 4:
            return True
        if ty.get('k') == 'never':
            return False
        name = adt_name(ty)
        if name == 'core::convert::Infallible':
            return False
        return True

    def project(self, ty, elem, variant=None):
        """Type of a projection of `ty`; None when unknown."""
        if ty is None:
            return None
        if elem == '*':
            return ty.get('inner')
        k = elem[0]
        if k == 'v':
            return ty
        if k == 'f':
            i = elem[1]
            if ty.get('k') == 'tuple':
                el = ty.get('elems')
                return el[i] if el and i < len(el) else None
            vs = self.variants(ty)
            if vs is None:
                return None
            v = variant if variant is not None else 0
            for vn, dv, ftys in vs:
                pass
            if v < len(vs):
                ftys = vs[v][2]
                return ftys[i] if i < len(ftys) else None
            return None
        if k in ('idx', 'ci'):
            return ty.get('inner')
        return None
