"""Engine E5: decision tables over (variant tuple x weak order of the bound symbols).

By parametricity, safe code generic in T: PartialOrd can only compare, move and clone T
values, so on a totally ordered T its behaviour is a function of the variants and of the
weak order of the bounds involved.  `weak_orders` enumerates all of them; `eval_term`
evaluates a summary's guards / result under one class.  A term that does anything else
with a T value (arithmetic, opaque call) raises NotParametric, which the rules report as
an undecided construct rather than guessing.
"""
from . import terms as T


class NotParametric(Exception):
    pass


def weak_orders(names):
    """All weak orders (ordered set partitions) of `names` as dicts name -> rank."""
    names = list(names)
    if not names:
        yield {}
        return
    first, rest = names[0], names[1:]
    for sub in weak_orders(rest):
        k = (max(sub.values()) + 1) if sub else 0
        # tie with an existing class
        for r in range(k):
            d = dict(sub)
            d[first] = r
            yield d
        # new class inserted at position p (shifting the others)
        for p in range(k + 1):
            d = {n: (r + 1 if r >= p else r) for n, r in sub.items()}
            d[first] = p
            yield d


NEG_INF = -10 ** 9
POS_INF = 10 ** 9


def eval_term(t, env):
    """Evaluate a boolean / order term under env: {sym name -> rank}; returns bool, rank
    or a structural value (adt/tuple with evaluated leaves)."""
    k = t[0]
    if k == 'bool':
        return t[1]
    if k == 'int':
        return ('int', t[1])
    if k == 'sym':
        if t[1] in env:
            return env[t[1]]
        raise NotParametric('free symbol %s' % t[1])
    if k == 'flt':
        if t[1] == 'inf':
            return POS_INF
        if t[1] == '-inf':
            return NEG_INF
        return ('flt', t[1])   # a finite (or NaN) constant: only comparable for equality with the expected stand-in
    if k == 'op':
        n = t[1]
        if n == 'ref':
            return eval_term(t[2][0], env)
        if n in ('lt', 'le', 'gt', 'ge', 'eq', 'ne'):
            a = eval_term(t[2][0], env)
            b = eval_term(t[2][1], env)
            if isinstance(a, bool) or isinstance(b, bool):
                if n == 'eq':
                    return a == b
                if n == 'ne':
                    return a != b
                raise NotParametric('ordering of booleans')
            if not isinstance(a, int) or not isinstance(b, int):
                raise NotParametric('comparison of structured values')
            return {'lt': a < b, 'le': a <= b, 'gt': a > b, 'ge': a >= b, 'eq': a == b, 'ne': a != b}[n]
        if n == 'not':
            return not eval_term(t[2][0], env)
        if n == 'and':
            return eval_term(t[2][0], env) and eval_term(t[2][1], env)
        if n == 'or':
            return eval_term(t[2][0], env) or eval_term(t[2][1], env)
        if n in ('min_value',):
            return NEG_INF
        if n in ('max_value',):
            return POS_INF
        raise NotParametric('operation %s on element values' % n)
    if k == 'adt':
        return ('adt', t[1], t[2], tuple(eval_term(a, env) for a in t[3]))
    if k == 'tuple':
        return ('tuple', tuple(eval_term(a, env) for a in t[1]))
    if k == 'unit':
        return ('unit',)
    if k == 'str':
        return t
    raise NotParametric('term %s' % T.show(t))


def guard_holds(guard, variants, env):
    """variants: {sym term -> variant index}.  Literals about other symbols are evaluated
    with eval_term."""
    for atom, pol in guard:
        if atom[0] == 'variant':
            want = variants.get(atom[1])
            if want is None:
                raise NotParametric('variant test on unexpected value %s' % T.show(atom[1]))
            if (want == atom[2]) != pol:
                return False
        else:
            if eval_term(atom, env) != pol:
                return False
    return True


def select_path(paths, variants, env):
    """The unique path whose guard holds in this class (determinism is itself checked)."""
    hits = [p for p in paths if guard_holds(p.guard, variants, env)]
    return hits
