#!/bin/bash
# usage: rundriver.sh <repo dir> <config name> <out json> [cargo feature args...]
set -e
REPO=$1; CFG=$2; OUT=$3; shift 3
export LD_LIBRARY_PATH=$(rustc +nightly --print sysroot)/lib
TD=/verif/.cache/target-$CFG
mkdir -p /verif/.cache
rm -rf $TD/debug/.fingerprint/stats-ci-* 2>/dev/null || true
rm -f $OUT
cd $REPO
VERIF_FACTS_OUT=$OUT RUSTFLAGS="-Zmir-opt-level=0 -Awarnings" RUSTC_WORKSPACE_WRAPPER=/verif/driver/target/release/sci-facts CARGO_TARGET_DIR=$TD CARGO_NET_OFFLINE=true cargo +nightly check --offline --lib "$@" >$OUT.log 2>&1 || { cat $OUT.log; exit 2; }
test -s $OUT || { echo "fact file not produced"; cat $OUT.log; exit 3; }
