"""Debug helper: python3 -m sa.dbg <facts> <fn path substring>"""
import sys
from .facts import Facts
from .symex import Summarizer, Unsupported
from . import terms as T

def show_guard(g):
    out=[]
    for atom,pol in g:
        if atom[0]=='variant':
            out.append('%s is #%d'%(T.show(atom[1]),atom[2]))
        else:
            out.append(('' if pol else '!')+T.show(atom))
    return ' & '.join(out)

def main():
    facts=Facts(sys.argv[1])
    pat=sys.argv[2]
    for f in facts.raw['fns']:
        if pat in f['path'] and f['kind']!='Closure':
            print('=====',f['path'])
            sx=Summarizer(facts, assume_no_overflow=('--real' in sys.argv))
            try:
                res=sx.summarize(f['id'])
            except Unsupported as e:
                print('  UNSUPPORTED',e); continue
            for r in res:
                print('  [%s] => %s %s'%(show_guard(r.guard), r.outcome, T.show(r.ret) if r.ret is not None else ''))
                for k,v in r.effects.items(): print('       effect',k,'=',T.show(v))
                if r.events: print('       events',[ (e[0],)+tuple(T.show(x) if isinstance(x,tuple) else x for x in e[1:]) for e in r.events])
                if r.unknowns: print('       unknowns',r.unknowns)
                if r.loops: print('       loops',r.loops)
            for rec in sx.loop_records:
                print('  LOOP',rec['id'],rec['where'])
                for loc,v in rec['init'].items(): print('     init',rec['labels'].get(loc),'=',T.show(v),' havoc',T.show(rec['havoc'][loc]))
                for s in rec['steps']:
                    print('     step [%s]'%show_guard(s['guard']))
                    for loc,v in s['post'].items(): print('         ',rec['labels'].get(loc),"' =",T.show(v))
                    print('          events',[ (e[0],)+tuple(T.show(x) if isinstance(x,tuple) else x for x in e[1:]) for e in s['events']])
if __name__ == '__main__':
    main()
