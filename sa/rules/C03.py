"""C03 - quantile CI is the order statistics at the Wilson ranks, whatever the data order.

Modular (callee contracts proved elsewhere are plugged in as stubs, DESIGN E3 "summaries"):
D1 Stats::ci guards: q <= 0 or q >= 1 => InvalidQuantile(q); n < 4 => TooFewSamples(n);
   the Wilson interval is requested for (confidence, n, round(q*n)); its errors propagate
   unchanged.
D2 ranks: index(p) = min(floor(p*n), n-1) of the Wilson low / high bound (cap present);
   lo <= hi by monotonicity of p -> index(p).
D3 kind table: two-sided -> both ranks (checked constructor), upper -> low rank only,
   lower -> high rank only.
D4 ci_sorted_unchecked returns sorted[rank] for exactly the ranks of ci_indices(len, q) and
   rejects q outside (0,1) with InvalidQuantile (no panic).
D5 ci / ci_max_size pass on sort_by(collect(copied(data)), ascending comparator); data has no
   other use => the result depends on data only through its sorted arrangement.
D6 ci_indices(n) == Stats::new(n).ci.
D7 the ranks bracket round(q*n) to within one position: composition of D2 with the sign certificate
   "ci_wilson's bounds contain k/n for z >= 0" (DESIGN 16) and monotonicity of floor / min."""
from fractions import Fraction

from .. import terms as T
from ..ivl import IvlModel
from ..meanci import ConfModel, KINDS, F0, F1, unwrap_ok
from ..nf import Ctx as NF, NotReal
from ..order import weak_orders, guard_holds, eval_term, NotParametric
from ..realmode import Domain, prune
from ..statsmodel import by_ref
from ..symex import Summarizer, Unsupported
from ..types import RESULT, OPTION, ORDERING
from .C02 import err_variant

PID = 'C03'
N, Q, L = T.sym('n'), T.sym('q'), T.sym('L')
WLO, WHI = T.sym('wlo'), T.sym('whi')
FN = T.op('i2f', N)


def ok(v):
    return ('adt', RESULT, 0, (v,))


def err(v):
    return ('adt', RESULT, 1, (v,))


def monotone_in(t, s):
    """t is a non-decreasing function of symbol s built from floor/round/casts/min/max with
    constants and multiplication/addition by non-negative terms free of s."""
    if t == s:
        return True
    if T.syms_of(t).isdisjoint({s[1]}):
        return False
    if t[0] == 'op':
        n, a = t[1], t[2]
        if n in ('floor', 'round', 'f2i', 'i2f', 'f2f', 'i2i', 'exp', 'ln', 'sqrt') and len(a) == 1:
            return monotone_in(a[0], s)
        if n in ('min', 'max', 'fmin', 'fmax', 'add') and len(a) == 2:
            x, y = a
            if s[1] not in T.syms_of(y):
                return monotone_in(x, s)
            if s[1] not in T.syms_of(x):
                return monotone_in(y, s)
        if n == 'mul' and len(a) == 2:
            x, y = a
            for u, v in ((x, y), (y, x)):
                if s[1] not in T.syms_of(v) and nonneg_count(v):
                    return monotone_in(u, s)
    return False


def nonneg_count(v):
    """i2f of a count symbol / non-negative constant."""
    c = T.const_num(v)
    if c is not None and not isinstance(c, str):
        return c >= 0
    if v[0] == 'op' and v[1] in ('i2f', 'f2f'):
        return nonneg_count(v[2][0])
    return v == N or (v[0] == 'op' and v[1] == 'len')


class RegionCheck:
    def __init__(self, chk, facts, key, where, desc):
        self.chk, self.facts, self.key, self.where, self.desc = chk, facts, key, where, desc
        self.problems = []
        self.regions = 0

    def region(self, name, paths, dom, expect, select=None, extra_literal=None):
        """Every feasible path of the region must satisfy `expect(path) -> problem | None`."""
        cand = [p for p in paths if select is None or select(p)]
        feas = []
        for p, residual in prune(cand, dom):
            keep = True
            for atom, pol in residual:
                if extra_literal is not None:
                    v = extra_literal(atom, pol)
                    if v is False:
                        keep = False
            if keep:
                feas.append((p, residual))
        self.regions += 1
        if not feas:
            self.problems.append('%s: no feasible path' % name)
            return
        for p, residual in feas:
            if p.unknowns:
                self.problems.append('%s: unmodelled callee %s' % (name, p.unknowns[0][0]))
                continue
            pr = expect(p, residual)
            if pr:
                self.problems.append('%s: %s' % (name, pr))

    def done(self, sample=None):
        self.chk.ob(self.key, 'E3-regions', self.desc + ' (%d regions)' % self.regions, not self.problems, '; '.join(self.problems[:3]), self.where, sample=sample)


def run(chk, ctx):
    for cfg in ctx.configs():
        facts = ctx.facts(cfg)
        if 'std' not in facts.meta['features']:
            continue
        run_cfg(chk, facts, cfg)


def run_cfg(chk, facts, cfg):
    sfx = '' if cfg == 'default' else '[%s]' % cfg
    im = IvlModel(facts)
    cm = ConfModel(facts)
    if not chk.anchor('Interval / Confidence models' + sfx, im if (im.ok() and cm.ok) else None):
        return
    nf = NF(nonneg=['n'])
    wil = facts.free_fn('proportion::ci_wilson')
    sci = facts.inherent('quantile::Stats', 'ci')
    sidx = facts.inherent('quantile::Stats', 'index')
    snew = facts.inherent('quantile::Stats', 'new')
    cind = facts.free_fn('quantile::ci_indices')
    cso = facts.free_fn('quantile::ci_sorted_unchecked')
    cnt = {'sort': 0, 'index': 0, 'cap': 0}
    if not all(chk.anchor(nm + sfx, f) for nm, f in (('proportion::ci_wilson', wil), ('quantile::Stats::ci', sci), ('quantile::Stats::index', sidx),
                                                       ('quantile::Stats::new', snew), ('quantile::ci_indices', cind), ('quantile::ci_sorted_unchecked', cso))):
        return

    def qstate(n):
        v = facts.struct_state('quantile::Stats', [n])
        if v is None:
            raise Unsupported('quantile::Stats does not consist of the population count')
        return v

    def two(lo, hi):
        return im.value('A', 'two') if False else ('adt', im.path, im.kinds['two'][0], tuple(x for _, x in sorted([(im.kinds['two'][1], lo), (im.kinds['two'][2], hi)])))

    def idx_ref(p):
        return T.op('min', T.op('f2i', T.op('floor', T.op('mul', p, FN))), T.op('sub', N, T.mk_int(1)))

    def same_idx(t, p):
        """t is min(floor(p*n) as usize, n-1) (either argument order of min / mul)."""
        if t[0] != 'op' or t[1] != 'min':
            return False
        for a, b in (t[2], t[2][::-1]):
            if b == T.op('sub', N, T.mk_int(1)) and a[0] == 'op' and a[1] == 'f2i' and a[2][0][0] == 'op' and a[2][0][1] == 'floor':
                try:
                    if nf.term_equal(a[2][0][2][0], T.op('mul', p, FN)):
                        return True
                except NotReal:
                    return False
        return False

    # ------------------------------------------------------------------ A. Stats::ci
    for kind, kname in KINDS:
        key = '%s:Stats::ci:%s%s' % (PID, kname, sfx)
        where = facts.loc(sci['id'])
        conf = cm.value(kind, L)
        werr = T.sym('werr')
        try:
            sx = Summarizer(facts, assume_no_overflow=True)
            sx.stubs[wil['id']] = lambda sx_, st, args, ty: [ok(two(WLO, WHI)), err(werr)]
            paths = sx.summarize(sci['id'], args=[by_ref(qstate(N)), conf, None], arg_names=['self', 'confidence', 'q'])
            chk.saw(facts, sci, paths=len(paths))
        except Unsupported as e:
            chk.ob(key, 'E3-regions', 'Stats::ci', None, 'undecided: %s' % e, where)
            continue
        rc = RegionCheck(chk, facts, key, where, 'Stats::ci(%s): guards, Wilson request, rank mapping and kind table' % kname)

        def stub_of(p):
            evs = [e for e in p.events if e[0] == 'stub']
            return evs[0] if evs else None

        def expect_err(name, payload=None):
            def f(p, residual):
                ev = err_variant(facts, p.ret) if p.is_ret() else None
                if ev != name:
                    return 'outcome %s instead of %s' % (ev or p.outcome, name)
                if payload is not None and p.ret[3][0][3] != (payload,):
                    return '%s carries %s' % (name, T.show(p.ret[3][0]))
                if stub_of(p) is not None:
                    return 'the Wilson interval is computed before the input is rejected'
                return None
            return f
        inf = None
        rc.region('q <= 0', paths, Domain(nf, {'q': (inf, Fraction(0), True, False), 'n': (Fraction(0), inf, False, True)}), expect_err('InvalidQuantile', Q))
        rc.region('q >= 1', paths, Domain(nf, {'q': (Fraction(1), inf, False, True), 'n': (Fraction(0), inf, False, True)}), expect_err('InvalidQuantile', Q))
        rc.region('n < 4', paths, Domain(nf, {'q': (Fraction(0), Fraction(1), True, True), 'n': (Fraction(0), Fraction(3), False, False)}), expect_err('TooFewSamples', N))
        dmain = {'q': (Fraction(0), Fraction(1), True, True), 'n': (Fraction(4), inf, False, True), 'L': (Fraction(0), Fraction(1), True, True)}

        def request_ok(p):
            ev = stub_of(p)
            if ev is None:
                return 'no Wilson interval requested'
            a = ev[2]
            k_ok = a[2][0] == 'op' and a[2][1] == 'f2i' and a[2][2][0][0] == 'op' and a[2][2][0][1] == 'round' and nf.term_equal(a[2][2][0][2][0], T.op('mul', Q, FN))
            if not (a[0] == conf and a[1] == N and k_ok):
                return 'Wilson interval requested for (%s, %s, %s) instead of (confidence, n, round(q*n))' % tuple(T.show(x)[:60] for x in a)
            return None

        def exp_wilson_err(p, residual):
            r = request_ok(p)
            if r:
                return r
            if not (p.is_ret() and p.ret == err(werr)):
                return 'Wilson error not propagated unchanged: %s' % (T.show(p.ret) if p.ret else p.outcome,)
            return None
        rc.region('Wilson error', paths, Domain(nf, dmain), exp_wilson_err, select=lambda p: stub_of(p) is not None and stub_of(p)[3][2] == 1)
        okp = lambda p: stub_of(p) is not None and stub_of(p)[3][2] == 0
        d = dict(dmain)
        d.update({'wlo': (inf, Fraction(0), True, True), 'whi': (inf, inf, True, True)})
        rc.region('Wilson low < 0', paths, Domain(nf, d), lambda p, r: None if err_variant(facts, p.ret) == 'IndexError' else 'outcome %s' % (T.show(p.ret)[:80] if p.ret else p.outcome,), select=okp)
        d = dict(dmain)
        d.update({'wlo': (Fraction(0), Fraction(1), False, False), 'whi': (Fraction(1), inf, True, True)})
        rc.region('Wilson high > 1', paths, Domain(nf, d), lambda p, r: None if err_variant(facts, p.ret) == 'IndexError' else 'outcome %s' % (T.show(p.ret)[:80] if p.ret else p.outcome,), select=okp)
        d = dict(dmain)
        d.update({'wlo': (Fraction(0), Fraction(1), False, False), 'whi': (Fraction(0), Fraction(1), False, False)})

        def order_literal(atom, pol):
            # lt(f(whi), f(wlo)) with f monotone is false because wlo <= whi (Wilson contract)
            if atom[0] == 'op' and atom[1] == 'lt' and pol:
                a, b = atom[2]
                if T.subst(b, {WLO: WHI}) == a and monotone_in(b, WLO):
                    return False
            return None

        def exp_main(p, residual):
            r = request_ok(p)
            if r:
                return r
            if not p.is_ret() or unwrap_ok(p.ret) is None:
                return 'outcome %s on the admissible domain' % (err_variant(facts, p.ret) or p.outcome,)
            dec = im.decode(unwrap_ok(p.ret))
            if dec is None or dec[0] != kind:
                return 'returns %s for %s confidence' % (T.show(p.ret)[:100], kname)
            _, lo, hi = dec
            if kind in ('two', 'upper') and not same_idx(lo, WLO):
                return 'low rank is %s, not min(floor(low*n), n-1)' % T.show(lo)[:120]
            if kind in ('two', 'lower') and not same_idx(hi, WHI):
                return 'high rank is %s, not min(floor(high*n), n-1)' % T.show(hi)[:120]
            for atom, pol in residual:
                if order_literal(atom, not pol) is not False and order_literal(atom, pol) is not False:
                    return 'undecided guard %s' % T.show(atom)[:120]
            return None
        rc.region('admissible', paths, Domain(nf, d), exp_main, select=okp, extra_literal=order_literal)
        rc.done(sample={'fn': 'Stats::ci', 'kind': kname, 'paths': len(paths)})
        cnt['index'] += 2 if kind == 'two' else 1

    # ------------------------------------------------------------------ A'. the ranks bracket round(q*n)
    # composition: (1) the obligation above: the ranks are min(floor(w*n), n-1) of the Wilson bounds w requested for
    # k = round(q*n); (2) sign certificate on ci_wilson's own bounds: w_lo <= k/n <= w_hi for z >= 0 (two-sided; one-sided
    # at a level of at least 1/2); (3) floor and min are monotone and k is an integer <= n:
    # low rank <= floor(k) = k and high rank >= min(k, n-1) >= k - 1.
    try:
        from .C17 import ok_interval, wilson_theorems
        from .C02 import mk_domain, K as K2, N as N2, L as L2
        from ..meanci import NORMAL, crit
        from ..nf import Ctx as NF2
        nf2 = NF2(nonneg=['n', 'k'])
        dom2 = mk_domain(nf2)
        for kind, kname in KINDS:
            key = '%s:bracket:%s%s' % (PID, kname, sfx)
            shape = [o for o in chk.obligations if o['key'] == '%s:Stats::ci:%s%s' % (PID, kname, sfx)]
            probs = []
            if not shape or shape[0]['status'] != 'ok':
                probs.append('premise (1) failed: rank mapping / Wilson request of Stats::ci(%s)' % kname)
            (k1, lo1, hi1), _np = ok_interval(facts, nf2, im, cm, wil, kind, None, dom2)
            z = crit(NORMAL, cm.quantile(kind, L2))
            res = wilson_theorems(chk, nf2, 'ci_wilson', sfx, facts.loc(wil['id']), kind, kname, z, lo1, hi1, emit=False)
            probs += ['premise (2): ' + x for x in res['contains']]
            chk.ob(key, 'composition', 'Stats::ci(%s): low rank <= round(q*n) and high rank >= round(q*n) - 1 (two-sided; one-sided at level >= 1/2): monotone rank map of Wilson bounds that contain k/n (sign certificate)' % kname,
                   not probs, '; '.join(probs[:3]), facts.loc(sci['id']))
    except (Unsupported, NotReal) as e:
        chk.ob('%s:bracket%s' % (PID, sfx), 'composition', 'ranks bracket round(q*n)', None, 'undecided: %s' % e, facts.loc(sci['id']))

    # ------------------------------------------------------------------ B. Stats::index
    where = facts.loc(sidx['id'])
    try:
        sx = Summarizer(facts, assume_no_overflow=True)
        P = T.sym('p')
        paths = sx.summarize(sidx['id'], args=[by_ref(qstate(N)), None], arg_names=['self', 'p'])
        chk.saw(facts, sidx, paths=len(paths))
        rc = RegionCheck(chk, facts, '%s:Stats::index%s' % (PID, sfx), where, 'Stats::index(p) = min(floor(p*n), n-1) on [0,1], documented errors otherwise')
        inf = None

        def e_err(name):
            return lambda p, r: None if err_variant(facts, p.ret) == name else 'outcome %s instead of %s' % (err_variant(facts, p.ret) or p.outcome, name)
        rc.region('n = 0', paths, Domain(nf, {'n': (Fraction(0), Fraction(0), False, False)}), e_err('TooFewSamples'))
        rc.region('p < 0', paths, Domain(nf, {'n': (Fraction(1), inf, False, True), 'p': (inf, Fraction(0), True, True)}), e_err('InvalidQuantile'))
        rc.region('p > 1', paths, Domain(nf, {'n': (Fraction(1), inf, False, True), 'p': (Fraction(1), inf, True, True)}), e_err('InvalidQuantile'))

        def e_ok(p, r):
            v = unwrap_ok(p.ret) if p.is_ret() else None
            if v is None or not same_idx(v, P):
                return 'returns %s' % (T.show(p.ret)[:120] if p.ret else p.outcome,)
            return None
        rc.region('0 <= p <= 1', paths, Domain(nf, {'n': (Fraction(1), inf, False, True), 'p': (Fraction(0), Fraction(1), False, False)}), e_ok)
        rc.done()
        cnt['index'] += 1
        cnt['cap'] += 1
    except Unsupported as e:
        chk.ob('%s:Stats::index%s' % (PID, sfx), 'E3-regions', 'Stats::index', None, 'undecided: %s' % e, where)

    # ------------------------------------------------------------------ E. ci_indices == Stats::new(n).ci
    where = facts.loc(cind['id'])
    try:
        sx = Summarizer(facts, assume_no_overflow=True)
        sx.stubs[sci['id']] = lambda sx_, st, args, ty: [T.sym('res')]
        paths = sx.summarize(cind['id'], args=[cm.value('two', L), None, None], arg_names=['confidence', 'n', 'q'])
        chk.saw(facts, cind, paths=len(paths))
        good = len(paths) == 1 and paths[0].is_ret() and paths[0].ret == T.sym('res')
        ev = [e for e in paths[0].events if e[0] == 'stub'] if paths else []
        if good:
            a = ev[0][2]
            st_arg = a[0][2][0] if a[0][0] == 'op' and a[0][1] == 'ref' else a[0]
            good = st_arg == qstate(N) and a[1] == cm.value('two', L) and a[2] == Q
        chk.ob('%s:ci_indices%s' % (PID, sfx), 'E3', 'ci_indices(confidence, n, q) is Stats::new(n).ci(confidence, q), result unchanged', good,
               '' if good else 'calls: %s' % [tuple(T.show(x)[:60] for x in e[2]) for e in ev], where)
    except Unsupported as e:
        chk.ob('%s:ci_indices%s' % (PID, sfx), 'E3', 'ci_indices', None, 'undecided: %s' % e, where)

    # ------------------------------------------------------------------ E'. the running Stats: Default is the empty sample, + / += add the
    # populations - a Stats built by accumulating partial counts is Stats::new(total), hence answers like ci_indices(total)
    qp = 'quantile::Stats'
    N1, N2 = T.sym('n1'), T.sym('n2')
    try:
        zero_state = qstate(T.mk_int(0))
        dfn = facts.trait_method('core::default::Default', qp, 'default')
        if chk.anchor('Default for quantile::Stats' + sfx, dfn):
            sx = Summarizer(facts, assume_no_overflow=True)
            ps = sx.summarize(dfn['id'])
            chk.saw(facts, dfn, paths=len(ps))
            good = len(ps) == 1 and ps[0].is_ret() and ps[0].ret == zero_state
            chk.ob('%s:running:default%s' % (PID, sfx), 'E3', 'the default running Stats is the empty sample (population 0)', good, '' if good else 'default is %s' % [T.show(p.ret)[:80] for p in ps if p.ret], facts.loc(dfn['id']))
        for tr, meth, mode in (('core::ops::Add', 'add', 'value'), ('core::ops::AddAssign', 'add_assign', 'effect')):
            fn = facts.trait_method(tr, qp, meth, trait_args=lambda imp: [t.get('adt') for t in imp.get('trait_args', [])] in ([qp], []))
            if not chk.anchor('%s for quantile::Stats%s' % (tr.split('::')[-1], sfx), fn):
                continue
            sx = Summarizer(facts, assume_no_overflow=True)
            ps = sx.summarize(fn['id'], args=[qstate(N1) if mode == 'value' else by_ref(qstate(N1)), qstate(N2)], arg_names=['a', 'b'])
            chk.saw(facts, fn, paths=len(ps))
            want = qstate(T.op('add', N1, N2))
            outs = [(p.ret if mode == 'value' else p.effects.get('a')) for p in ps if p.is_ret()]
            good = len(outs) == len(ps) >= 1 and all(o == want for o in outs)
            chk.ob('%s:running:%s%s' % (PID, meth, sfx), 'E3', 'merging two running Stats adds their populations (whatever the operands)', good,
                   '' if good else 'merge gives %s' % [T.show(o)[:80] if o else None for o in outs][:3], facts.loc(fn['id']))
    except Unsupported as e:
        chk.ob('%s:running%s' % (PID, sfx), 'E3', 'running Stats', None, 'undecided: %s' % e, where)

    # ------------------------------------------------------------------ C. ci_sorted_unchecked
    where = facts.loc(cso['id'])
    ILO, IHI, IERR = T.sym('ilo'), T.sym('ihi'), T.sym('ierr')
    S = T.sym('sorted')
    uix = ('adt', im.path, im.kinds['upper'][0], (ILO,))
    lix = ('adt', im.path, im.kinds['lower'][0], (IHI,))
    try:
        for kind, kname in KINDS:
            sx = Summarizer(facts, assume_no_overflow=True)
            alts = {'two': ok(two(ILO, IHI)), 'upper': ok(uix), 'lower': ok(lix)}
            sx.stubs[cind['id']] = lambda sx_, st, args, ty, kind=kind: [alts[kind], err(IERR)]
            paths = sx.summarize(cso['id'], args=[cm.value(kind, L), None, None], arg_names=['confidence', 'sorted', 'q'])
            chk.saw(facts, cso, paths=len(paths))
            rc = RegionCheck(chk, facts, '%s:ci_sorted_unchecked:%s%s' % (PID, kname, sfx), where,
                             'ci_sorted_unchecked(%s) selects sorted[rank] for exactly the ranks of ci_indices(len, q); q outside (0,1) is rejected with an error' % kname)
            inf = None

            def e_inv(p, r):
                if p.is_panic():
                    return 'panics (%s) instead of returning InvalidQuantile' % (p.outcome[1][:60],)
                return None if err_variant(facts, p.ret) == 'InvalidQuantile' else 'outcome %s' % (err_variant(facts, p.ret),)
            rc.region('q <= 0', paths, Domain(nf, {'q': (inf, Fraction(0), True, False)}), e_inv)
            rc.region('q >= 1', paths, Domain(nf, {'q': (Fraction(1), inf, False, True)}), e_inv)
            dm = Domain(nf, {'q': (Fraction(0), Fraction(1), True, True)})

            def stub_of(p):
                evs = [e for e in p.events if e[0] == 'stub']
                return evs[0] if evs else None

            def e_req(p):
                ev = stub_of(p)
                if ev is None:
                    return 'ci_indices not consulted'
                a = ev[2]
                if not (a[0] == cm.value(kind, L) and a[1] == T.op('len', S) and a[2] == Q):
                    return 'ranks requested for (%s) instead of (confidence, sorted.len(), q)' % ', '.join(T.show(x)[:50] for x in a)
                return None

            def e_err2(p, r):
                return e_req(p) or (None if (p.is_ret() and p.ret == err(IERR)) else 'rank error not propagated unchanged')

            def sel(i):
                return T.op('index', S, i)

            def e_ok2(p, r):
                q = e_req(p)
                if q:
                    return q
                if p.is_panic():
                    # bounds checks: only reachable if a returned rank is >= len (excluded by the rank cap, D2)
                    if p.outcome[1] == 'BoundsCheck' and any(a[0] == 'op' and a[1] == 'lt' and not pol and a[2][1] == T.op('len', S) and a[2][0] in (ILO, IHI) for a, pol in p.guard):
                        return None
                    return 'panic %s' % (p.outcome[1][:60],)
                v = unwrap_ok(p.ret)
                if v is None:
                    if err_variant(facts, p.ret) == 'IntervalError/InvalidBounds' and kind == 'two':
                        return None  # sorted[lo] > sorted[hi]: only for unsorted input (the caller's contract)
                    return 'outcome %s' % (err_variant(facts, p.ret),)
                dec = im.decode(v)
                want = {'two': ('two', sel(ILO), sel(IHI)), 'upper': ('upper', sel(ILO)), 'lower': ('lower', sel(IHI))}[kind]
                got = (dec[0],) + tuple(x for x in dec[1:] if not isinstance(x, int))
                return None if got == want else 'returns %s' % T.show(v)[:120]
            rc.region('rank error', paths, dm, e_err2, select=lambda p: stub_of(p) is not None and stub_of(p)[3][2] == 1)
            rc.region('ranks', paths, dm, e_ok2, select=lambda p: stub_of(p) is not None and stub_of(p)[3][2] == 0)
            rc.done(sample={'fn': 'ci_sorted_unchecked', 'kind': kname})
    except Unsupported as e:
        chk.ob('%s:ci_sorted_unchecked%s' % (PID, sfx), 'E3-regions', 'ci_sorted_unchecked', None, 'undecided: %s' % e, where)

    # ------------------------------------------------------------------ D. ci / ci_max_size: sort dominance + ascending comparator
    for name in ('ci', 'ci_max_size'):
        fn = facts.free_fn('quantile::' + name)
        if not chk.anchor('quantile::%s%s' % (name, sfx), fn):
            continue
        where = facts.loc(fn['id'])
        key = '%s:%s:sorted-view%s' % (PID, name, sfx)
        try:
            sx = Summarizer(facts, assume_no_overflow=True)
            sx.stubs[cso['id']] = lambda sx_, st, args, ty: [T.sym('res')]
            paths = sx.summarize(fn['id'], args=[cm.value('two', L), None, None], arg_names=['confidence', 'data', 'q'])
            chk.saw(facts, fn, paths=len(paths))
            probs = []
            if len(paths) != 1 or not paths[0].is_ret() or paths[0].ret != T.sym('res') or paths[0].unknowns:
                probs.append('not a single straight-line path returning the callee result unchanged')
            else:
                evs = paths[0].events
                kinds_ = [e[0] for e in evs]
                if kinds_ != ['into_iter', 'copied', 'collect', 'sort_by', 'stub']:
                    probs.append('data flow is %s, expected into_iter, copied, collect, sort_by, ci_sorted_unchecked' % kinds_)
                else:
                    it, cp, co, so, stb = evs
                    data = it[2]
                    chain = it[2] == ('op', 'ref', (T.sym('data'),)) and cp[2] == it[1] and co[2] == cp[1] and so[1] == co[1]
                    if not chain:
                        probs.append('the sorted buffer is not collect(copied(data))')
                    arg = stb[2][1]
                    while arg[0] == 'op' and arg[1] == 'ref':
                        arg = arg[2][0]
                    if not (arg[0] == 'call' and arg[1] == 'sorted_by' and arg[2][0] == co[1]):
                        probs.append('the slice handed on is not the sorted buffer: %s' % T.show(arg)[:100])
                    if stb[2][0] != cm.value('two', L) or stb[2][2] != Q:
                        probs.append('confidence / quantile not passed through unchanged')
                    clo = so[2]
                    # comparator: ascending on the three orderings of (a, b)
                    if clo[0] not in ('closure', 'fn') or (clo[0] == 'closure' and clo[2] is None) or (clo[0] == 'fn' and len(clo) < 3):
                        probs.append('comparator is not a closure or function of this crate')
                    else:
                        # the comparator (a closure or a named function), run on references to two fresh elements
                        sx2 = Summarizer(facts, assume_no_overflow=True)
                        ca, cb = sx2.new_heap(None, None), sx2.new_heap(None, None)
                        cps = sx2.run_callable(fn['id'], clo, [('ref', ca, ()), ('ref', cb, ())], cells={ca: T.sym('a'), cb: T.sym('b')})
                        cdef = None
                        chk.analysed['paths'] += len(cps)
                        for env in weak_orders(['a', 'b']):
                            hits = [p for p in cps if guard_holds(p.guard, {}, env)]
                            outs = set(p.ret if p.is_ret() else ('panic',) for p in hits)
                            want = ('adt', ORDERING, 0 if env['a'] < env['b'] else (1 if env['a'] == env['b'] else 2), ())
                            if outs != {want}:
                                probs.append('comparator is not ascending: for %s it yields %s' % (env, [T.show(o) if o != ('panic',) else 'panic' for o in outs]))
                        cnt['sort'] += 1
            chk.ob(key, 'E3+events', '%s hands ci_sorted_unchecked the ascending sort of a copy of the data and nothing else of the data' % name, not probs, '; '.join(probs[:3]), where,
                   sample={'fn': name, 'events': [e[0] for e in paths[0].events] if paths else None})
        except (Unsupported, NotParametric) as e:
            chk.ob(key, 'E3+events', name, None, 'undecided: %s' % e, where)
    # the ranks are "floor of the Wilson bounds": the ci_wilson contract plugged in above as a stub is C02's - its
    # obligations (domain table, signed formula, unit interval, exact guards, radicand) are re-established here on the
    # same facts and reported under this property (seed C03-k: the sign of z lost under a square root moves one-sided
    # ranks below level 1/2 by two positions, and only C02 / C10 / C17 said so)
    n_w = 0
    try:
        from .. import core as core_
        from . import C02 as R2
        sub = core_.Check('C02', chk.tier)
        R2.run_cfg(sub, facts, cfg)
        for o in sub.obligations:
            if ':ci_wilson:' in o['key']:
                n_w += 1
                chk.ob('%s:wilson-contract:%s' % (PID, o['key'].split(':', 1)[1]), 'composition ' + o['rule'],
                       'contract of the stubbed callee: ' + (o.get('desc') or o['key']),
                       None if o['status'] == 'undecided' else o['status'] == 'ok', o.get('detail') or '', o.get('where') or 'proportion::ci_wilson')
    except Exception as e:
        chk.ob('%s:wilson-contract%s' % (PID, sfx), 'composition', 'contract of ci_wilson', None, 'undecided: %r' % (e,), 'proportion::ci_wilson')
    if cfg == 'default':
        chk.floor('wilson-contract-obligations', n_w, 15)
        chk.floor('sort-sites', cnt['sort'], 2)
        chk.floor('index-sites', cnt['index'], 4)
        chk.floor('rank-cap', cnt['cap'], 1)
    chk.rules.append('E3-regions: per region of the documented domain every feasible path (sign-certificate pruning) has the documented outcome; callees replaced by their proved contracts (stubs)')
    chk.notes.append('contracts used as stubs: ci_wilson returns Ok(two-sided [lo,hi], lo <= hi) or a documented error (C02); slice::sort_by yields the ascending arrangement for the comparator')


ASSUMPTIONS = ['floats as reals for the rank formula; NaN quantile decided under C11', 'elements mutually comparable (partial_cmp never None)']
