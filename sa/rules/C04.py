"""C04 - paired CI = mean CI of the differences; unpaired CI = documented Welch-type interval.

D1 Paired: append_pair, extend_tuple (fold), extend (lock-step fold) feed exactly a - b (in
   that order) once per pair into the wrapped arithmetic state; ci_mean is the C01 formula of
   that state; ci(a,b) = ci_mean(fold).
D2 length mismatch (stream algebra of the lock-step loop): the pair counter is the iteration
   index (0, +1); exit (None, Some) => DifferentSampleSizes(count, count+1+rest(b)), exit
   (Some, None) => DifferentSampleSizes(count+1+rest(a), count); nothing is appended after a
   mismatch; exit (None, None) => Ok.
D3 Unpaired::ci_mean: d = mean_a - mean_b, se = sqrt(va/na + vb/nb),
   nu = (va/na + vb/nb)^2 / ((va/na)^2/(na+1) + (vb/nb)^2/(nb+1)) - 2, bounds d -/+ c*se with the
   t(nu) quantile (normal above the constant threshold), C01 kind table.
D4 every Unpaired feeder routes sample A only into component A and B only into B.
D5 exchanging the samples negates and mirrors the interval (substitution a <-> b).
U: rounding."""
from fractions import Fraction

from .. import terms as T
from .. import iters as iters_mod
from ..folds import find_ariths, get_at, step_increment, is_increment, is_unchanged, havoc_subst
from ..ivl import IvlModel
from ..sqrtdom import check_paths as check_sqrt_domain
from ..meanci import ConfModel, KINDS, check_mean_interval, F0, F1, F2, unwrap_ok, SubstPath, V, V_RANGE, s2_from_variance
from ..nf import NotReal
from ..realmode import Domain, prune, quantile_hook
from ..statsmodel import StatsModel, by_ref, ZERO
from ..symex import Summarizer, Unsupported
from ..types import RESULT
from .C02 import err_variant

PID = 'C04'
L = T.sym('L')
S1, S2, N = T.sym('S1'), T.sym('S2'), T.sym('n')


def arith_refs(s1, s2, n):
    fn = T.op('i2f', n)
    mean = T.op('div', s1, fn)
    var = T.op('div', T.op('sub', s2, T.op('mul', mean, s1)), T.op('sub', fn, F1))   # today's scaling: S2 - mean*S1 (see C01.refs)
    return mean, var, fn


def mv_state(sm, m, v, n):
    """Arithmetic state parametrised by (mean, variance, n): S1 = n m, S2 = (n-1) v + n m^2
    (a bijection with (S1,S2) for n >= 2; v >= 0 is Cauchy-Schwarz for real data)."""
    fn = T.op('i2f', n)
    s1 = T.op('mul', fn, m)
    s2 = T.op('add', T.op('mul', T.op('sub', fn, F1), v), T.op('mul', fn, T.op('mul', m, m)))
    return sm.arith_state(s1, s2, n)


def run(chk, ctx):
    for cfg in ctx.configs():
        run_cfg(chk, ctx.facts(cfg), cfg)


def run_cfg(chk, facts, cfg):
    sfx = '' if cfg == 'default' else '[%s]' % cfg
    sm = StatsModel(facts)
    im = IvlModel(facts)
    cm = ConfModel(facts)
    if not chk.anchor('state layouts' + sfx, sm if sm.ok() else None):
        chk.notes.extend(sm.problems)
        return
    if not chk.anchor('Interval / Confidence models' + sfx, im if (im.ok() and cm.ok) else None):
        return
    nf = sm.nf
    padt, uadt = sm.adt('Paired'), sm.adt('Unpaired')
    if not (chk.anchor('Paired' + sfx, padt) and chk.anchor('Unpaired' + sfx, uadt)):
        return
    pp, up = padt['path'], uadt['path']
    cnt = {'paired': 0, 'unpaired': 0}

    def summ(fn, names, args):
        sx = Summarizer(facts, assume_no_overflow=True)
        return sx, sx.summarize(fn['id'], args=args, arg_names=names)

    # ------------------------------------------------------------------ Paired
    try:
        pstate = sm.wrapper_state(padt, sm.arith_state(S1, S2, N))
    except Unsupported as e:
        chk.ob('%s:Paired-layout%s' % (PID, sfx), 'layout', 'Paired is the statistics state of the differences', False, str(e), padt['span'][0])
        return
    A, B = T.sym('a'), T.sym('b')
    f = facts.inherent(pp, 'append_pair')
    if chk.anchor('Paired::append_pair' + sfx, f):
        where = facts.loc(f['id'])
        try:
            sx, paths = summ(f, ['self', 'a', 'b'], [by_ref(pstate), None, None])
            chk.saw(facts, f, paths=len(paths))
            probs = []
            oks = [p for p in paths if p.is_ret() and unwrap_ok(p.ret) is not None]
            if not oks or len(oks) != len(paths):
                probs.append('%d paths, %d returning Ok' % (len(paths), len(oks)))
            for pth in oks:
                post = find_ariths(sm, pth.effects['self'])
                d, pr = step_increment(sm, pstate[3][0], post[0][1])
                probs += pr
                if not is_increment(sm, d, T.op('sub', A, B)):
                    probs.append('the wrapped state does not receive a - b')
            chk.ob('%s:Paired::append_pair%s' % (PID, sfx), 'E3+E4', 'append_pair(a, b) appends the difference a - b (in that order)', not probs, '; '.join(probs), where)
            cnt['paired'] += 1
        except (Unsupported, NotReal) as e:
            chk.ob('%s:Paired::append_pair%s' % (PID, sfx), 'E3+E4', 'append_pair', None, 'undecided: %s' % e, where)

    def frame_ok(initial_state, final_state, rec, c, apath, hav):
        """final = initial (+) fold: alpha(final) - alpha(initial) == alpha(carried at exit) - alpha(carried at entry)."""
        try:
            fa = find_ariths(sm, final_state)
            ia = find_ariths(sm, initial_state)
            if len(fa) != 1 or len(ia) != 1:
                return 'cannot locate the state before/after the call'
            sub0 = {x: ZERO for x in sm.comps(hav)}
            a_fin = sm.alpha(T.subst(fa[0][1], sub0))
            a_ini = sm.alpha(ia[0][1])
            a_hav = sm.alpha(T.subst(hav, sub0))
            a_c0 = sm.alpha(get_at(rec['cell_init'][c], apath))
            for x, y, u, v in zip(a_fin, a_ini, a_hav, a_c0):
                if not nf.equal(nf.sub(nf.of_term(x), nf.of_term(y)), nf.sub(nf.of_term(u), nf.of_term(v))):
                    return 'the state after the call is not the state before it plus the folded observations (earlier observations lost or counted twice)'
        except (Unsupported, NotReal) as e:
            return 'frame condition undecided: %s' % e
        return None

    def paired_loop(key, where, sx, lockstep):
        """fold obligations for extend_tuple (one iterator of pairs) / extend (two iterators)."""
        if len(sx.loop_records) != 1:
            chk.ob(key, 'T-fold', 'paired loop', None, 'undecided: %d loops' % len(sx.loop_records), where)
            return None
        rec = sx.loop_records[0]
        cells = [(c, find_ariths(sm, v)) for c, v in rec['cell_havoc'].items()]
        cells = [(c, a) for c, a in cells if a]
        if len(cells) != 1 or len(cells[0][1]) != 1:
            chk.ob(key, 'T-fold', 'paired loop carries one state', None, 'undecided: %d carried states' % len(cells), where)
            return None
        c, (apath, hav) = cells[0][0], cells[0][1][0]
        probs = []
        if not rec['steps']:
            probs.append('no continuing path through the loop body')
        for st in rec['steps']:
            nexts = [e for e in st['events'] if e[0] == 'next']
            want_n = 2 if lockstep else 1
            if len(nexts) != want_n or any(e[2] is None for e in nexts):
                probs.append('an iteration consumes %d elements (expected %d)' % (len(nexts), want_n))
                continue
            if lockstep:
                if nexts[0][1] == nexts[1][1]:
                    probs.append('both elements come from the same iterator')
                x, y = nexts[0][2], nexts[1][2]
                first_src = nexts[0][1]
            else:
                e = nexts[0][2]
                x, y = T.sym(e[1] + '.0'), T.sym(e[1] + '.1')
            post = get_at(st['cell_post'][c], apath)
            d, pr = step_increment(sm, hav, post)
            probs += pr
            if not is_increment(sm, d, T.op('sub', x, y)):
                probs.append('an iteration does not append first - second')
        chk.analysed['loops'] += 1
        return rec, c, apath, hav, probs

    f = facts.inherent(pp, 'extend_tuple')
    if chk.anchor('Paired::extend_tuple' + sfx, f):
        where = facts.loc(f['id'])
        key = '%s:Paired::extend_tuple%s' % (PID, sfx)
        try:
            sx, paths = summ(f, ['self', 'pairs'], [by_ref(pstate), None])
            chk.saw(facts, f, paths=len(paths))
            r = paired_loop(key, where, sx, False)
            if r:
                rec, c, apath, hav, probs = r
                for ev in rec['exit_events']:
                    nx = [e for e in ev if e[0] == 'next']
                    if len(nx) != 1 or nx[0][2] is not None:
                        probs.append('loop left other than by exhausting the pairs')
                if not all(p.is_ret() and unwrap_ok(p.ret) is not None for p in paths):
                    probs.append('does not return Ok(())')
                for p in paths:
                    if p.is_ret() and p.effects.get('self') is not None:
                        fr_ = frame_ok(pstate, p.effects['self'], rec, c, apath, hav)
                        if fr_:
                            probs.append(fr_)
                chk.ob(key, 'T-fold', 'extend_tuple appends x - y for every pair (x, y), once', not probs, '; '.join(probs[:3]), where)
                cnt['paired'] += 1
        except (Unsupported, NotReal) as e:
            chk.ob(key, 'T-fold', 'extend_tuple', None, 'undecided: %s' % e, where)

    def check_lockstep(key, where, sx, paths, a_sym, b_sym, require_init_empty=False, initial_state=None):
        r = paired_loop(key, where, sx, True)
        if not r:
            return None
        rec, c, apath, hav, probs = r
        # the pair counter: a carried integer cell with init 0 and step +1
        counters = [cc for cc, v in rec['cell_havoc'].items() if v[0] == 'sym' and rec['cell_init'].get(cc) == T.mk_int(0)
                    and all(st['cell_post'][cc] == T.op('add', v, T.mk_int(1)) for st in rec['steps'])]
        iters = {}
        for ev in sx_events_into_iter(paths):
            iters[ev[1]] = ev[2]
        if len(counters) != 1:
            probs.append('no pair counter (0, +1 per iteration) found')
            cnt_sym = None
        else:
            cnt_sym = rec['cell_havoc'][counters[0]]
        # which havocked iterator walks which input
        src = {}
        for cc, v in rec['cell_havoc'].items():
            init = rec['cell_init'].get(cc)
            if init is not None and init[0] == 'sym' and init in iters:
                src[v] = iters[init]
        seen = set()
        for p in paths:
            nx = [e for e in p.events if e[0] == 'next'][-2:]
            if len(nx) != 2:
                probs.append('an exit path does not advance both iterators')
                continue
            pat = tuple('Some' if e[2] is not None else 'None' for e in nx)
            order = [src.get(e[1]) or iters_mod.source(sx, e[1], sx.loop_records) for e in nx]
            if order != [('op', 'ref', (a_sym,)), ('op', 'ref', (b_sym,))]:
                probs.append('iterators are not advanced in the order (first sample, second sample)')
                continue
            seen.add(pat)
            if pat == ('None', 'None'):
                if not (p.is_ret() and unwrap_ok(p.ret) is not None):
                    probs.append('equal lengths do not return Ok')
                elif initial_state is not None and p.effects.get('self') is not None:
                    fr_ = frame_ok(initial_state, p.effects['self'], rec, c, apath, hav)
                    if fr_:
                        probs.append(fr_)
                continue
            if err_variant(facts, p.ret) != 'DifferentSampleSizes' or cnt_sym is None:
                probs.append('length mismatch %s is not reported as DifferentSampleSizes' % (pat,))
                continue
            la, lb = p.ret[3][0][3]

            def rest_of(it_sym):
                # iter_count(advance(it)) : elements remaining after this iteration's next()
                return lambda t: (t[0] == 'call' and t[1] == 'iter_count' and t[2][0][0] == 'sym'
                                  and sx.symdef.get(t[2][0][1]) == ('call', 'advance', (it_sym,)))

            def is_len_long(t, it_sym):
                # count + 1 + rest
                try:
                    parts = flatten_add(t)
                except ValueError:
                    return False
                rest = [x for x in parts if rest_of(it_sym)(x)]
                others = [x for x in parts if not rest_of(it_sym)(x)]
                return len(rest) == 1 and nf.term_equal(sum_terms(others), T.op('add', cnt_sym, T.mk_int(1)))
            if pat == ('Some', 'None'):
                good = is_len_long(la, nx[0][1]) and lb == cnt_sym
            else:
                good = la == cnt_sym and is_len_long(lb, nx[1][1])
            if not good:
                probs.append('DifferentSampleSizes(%s, %s) does not carry (len a, len b) for exit %s' % (T.show(la)[:60], T.show(lb)[:60], pat))
            # nothing appended after the mismatch: state at exit == havocked state
            eff = find_ariths(sm, p.effects.get('self')) if p.effects.get('self') is not None else []
            if eff and eff[0][1] != hav and not require_init_empty:
                probs.append('the state is modified after a length mismatch was detected')
        if seen != {('None', 'None'), ('Some', 'None'), ('None', 'Some')}:
            probs.append('exit patterns %s' % sorted(seen))
        return rec, hav, probs

    f = facts.inherent(pp, 'extend')
    if chk.anchor('Paired::extend' + sfx, f):
        where = facts.loc(f['id'])
        key = '%s:Paired::extend%s' % (PID, sfx)
        try:
            sx, paths = summ(f, ['self', 'a', 'b'], [by_ref(pstate), None, None])
            chk.saw(facts, f, paths=len(paths))
            r = check_lockstep(key, where, sx, paths, A, B, initial_state=pstate)
            if r:
                rec, hav, probs = r
                chk.ob(key, 'T2-lockstep', 'extend appends a_i - b_i pair by pair; unequal lengths => DifferentSampleSizes(len a, len b), nothing appended afterwards',
                       not probs, '; '.join(probs[:3]), where, sample={'loop': rec['where'], 'exits': rec['n_exits']})
                cnt['paired'] += 1
        except (Unsupported, NotReal) as e:
            chk.ob(key, 'T2-lockstep', 'Paired::extend', None, 'undecided: %s' % e, where)

    # Paired::ci_mean / sample_* delegate; Paired::ci = fold + ci_mean
    S2V = s2_from_variance(S1, V, N)
    pstate_any, pstate = pstate, sm.wrapper_state(padt, sm.arith_state(S1, S2V, N))
    mean, var, fn_ = arith_refs(S1, S2V, N)
    se = T.op('div', T.op('sqrt', var), T.op('sqrt', fn_))
    nu = T.op('sub', fn_, F1)
    dom = Domain(nf, {'n': (Fraction(2), None, False, True), 'L': (Fraction(0), Fraction(1), True, True), 'v': V_RANGE})
    dom.hooks.append(quantile_hook())
    f = facts.inherent(pp, 'ci_mean')
    if chk.anchor('Paired::ci_mean' + sfx, f):
        where = facts.loc(f['id'])
        for kind, kname in KINDS:
            key = '%s:Paired::ci_mean:%s%s' % (PID, kname, sfx)
            try:
                sx, paths = summ(f, ['self', 'confidence'], [by_ref(pstate), cm.value(kind, L)])
                chk.saw(facts, f, paths=len(paths))
                check_sqrt_domain(chk, key, where, paths, 'Paired::ci_mean(%s)' % kname, cnt)
                check_mean_interval(chk, PID, key, where, sm, im, cm, paths, kind, L, mean, se, nu, dom,
                                    'Paired::ci_mean(%s) is the arithmetic-mean interval of the accumulated differences' % kname, stat_atoms=[(S2V, 'S2')])
            except (Unsupported, NotReal) as e:
                chk.ob(key, 'E3+E4 formula', 'Paired::ci_mean', None, 'undecided: %s' % e, where)
    for name, ref in (('sample_mean', mean), ('sample_count', N)):
        f = facts.inherent(pp, name)
        if chk.anchor('Paired::%s%s' % (name, sfx), f):
            try:
                sx, paths = summ(f, ['self'], [by_ref(pstate)])
                chk.saw(facts, f, paths=len(paths))
                feas = prune(paths, dom)
                good = len(feas) == 1 and feas[0][0].is_ret() and nf.term_equal(feas[0][0].ret, ref)
                chk.ob('%s:Paired::%s%s' % (PID, name, sfx), 'E4', 'Paired::%s is that of the differences' % name, good, '', facts.loc(f['id']))
            except (Unsupported, NotReal) as e:
                chk.ob('%s:Paired::%s%s' % (PID, name, sfx), 'E4', name, None, 'undecided: %s' % e, facts.loc(f['id']))
    f = facts.inherent(pp, 'ci')
    if chk.anchor('Paired::ci' + sfx, f):
        where = facts.loc(f['id'])
        for kind, kname in KINDS:
            key = '%s:Paired::ci:%s%s' % (PID, kname, sfx)
            try:
                sx, paths = summ(f, ['confidence', 'a', 'b'], [cm.value(kind, L), None, None])
                chk.saw(facts, f, paths=len(paths))
                mism = [p for p in paths if err_variant(facts, p.ret) == 'DifferentSampleSizes']
                rest = [p for p in paths if p not in mism]
                r = check_lockstep(key + ':fold', where, sx, mism + [p for p in rest[:0]], A, B, require_init_empty=True) if False else None
                # fold obligations on the loop record (the exits are re-checked structurally)
                rl = paired_loop(key + ':fold', where, sx, True)
                if not rl:
                    continue
                rec, c, apath, hav, probs = rl
                init = get_at(rec['cell_init'][c], apath)
                if init != sm.arith_default_value:
                    probs.append('does not start from the empty state')
                if len(mism) != 2:
                    probs.append('%d length-mismatch exits' % len(mism))
                chk.ob(key + ':fold', 'T2-lockstep', 'Paired::ci folds a_i - b_i from the empty state; mismatching lengths are rejected', not probs, '; '.join(probs[:3]), where)
                if probs:
                    continue
                sub = havoc_subst(sm, hav, S1, S2V, N)
                check_mean_interval(chk, PID, key, where, sm, im, cm, rest, kind, L, mean, se, nu, dom,
                                    'Paired::ci(%s) == Arithmetic::ci_mean of the differences' % kname, subst=sub, stat_atoms=[(S2V, 'S2')])
            except (Unsupported, NotReal) as e:
                chk.ob(key, 'E3+E4 formula', 'Paired::ci', None, 'undecided: %s' % e, where)

    # ------------------------------------------------------------------ Unpaired
    unew = facts.inherent(up, 'new')
    roles = None
    if chk.anchor('Unpaired::new' + sfx, unew):
        try:
            sx, paths = summ(unew, ['sa', 'sb'], None)
            rets = [p.ret for p in paths if p.is_ret()]
            if len(rets) == 1 and rets[0][0] == 'adt' and set(rets[0][3]) - {T.AUX} == {T.sym('sa'), T.sym('sb')}:
                roles = (rets[0][3].index(T.sym('sa')), rets[0][3].index(T.sym('sb')), len(rets[0][3]))
        except Unsupported:
            pass
        chk.ob('%s:Unpaired::new%s' % (PID, sfx), 'layout', 'Unpaired::new(stats_a, stats_b) stores the two states', roles is not None, '', facts.loc(unew['id']))
        cnt['unpaired'] += 1
    if roles is None:
        return

    def ustate(a, b):
        f = [T.AUX] * roles[2]       # auxiliary fields (sa/layout.py), if any
        f[roles[0]] = a
        f[roles[1]] = b
        return ('adt', up, 0, tuple(f))
    S1a, S2a, Na, S1b, S2b, Nb = (T.sym(x) for x in ('S1a', 'S2a', 'na', 'S1b', 'S2b', 'nb'))
    sa, sb = sm.arith_state(S1a, S2a, Na), sm.arith_state(S1b, S2b, Nb)
    ust = ustate(sa, sb)
    X = T.sym('x')

    def feeder(name, names, args, expect):
        """expect: list of (component 'a'|'b', increment term | None for unchanged)"""
        f = facts.inherent(up, name)
        if not chk.anchor('Unpaired::%s%s' % (name, sfx), f):
            return
        where = facts.loc(f['id'])
        key = '%s:Unpaired::%s%s' % (PID, name, sfx)
        try:
            sx, paths = summ(f, names, args)
            chk.saw(facts, f, paths=len(paths))
            probs = []
            oks = [p for p in paths if p.is_ret() and unwrap_ok(p.ret) is not None]
            if not oks or len(oks) != len(paths):
                probs.append('%d paths (%d Ok)' % (len(paths), len(oks)))
            for pth in oks:
                post = pth.effects['self']
                for comp, inc in expect:
                    pre = sa if comp == 'a' else sb
                    po = post[3][roles[0] if comp == 'a' else roles[1]]
                    d, pr = step_increment(sm, pre, po)
                    probs += pr
                    if inc is None:
                        if not is_unchanged(sm, d):
                            probs.append('component %s is modified' % comp.upper())
                    elif not is_increment(sm, d, inc):
                        probs.append('component %s does not receive the %s observation' % (comp.upper(), comp.upper()))
            chk.ob(key, 'E3+E4', 'Unpaired::%s routes sample A only to component A and sample B only to component B' % name, not probs, '; '.join(probs), where)
            cnt['unpaired'] += 1
        except (Unsupported, NotReal) as e:
            chk.ob(key, 'E3+E4', name, None, 'undecided: %s' % e, where)
    feeder('append_a', ['self', 'x'], [by_ref(ust), None], [('a', X), ('b', None)])
    feeder('append_b', ['self', 'x'], [by_ref(ust), None], [('a', None), ('b', X)])
    feeder('append_pair', ['self', 'a', 'b'], [by_ref(ust), None, None], [('a', A), ('b', B)])

    def loop_feeder(name, names, args, order, ret_state=False):
        """extend_a / extend_b / extend / from_iter: sequence of folds, each over one input into one component."""
        f = facts.inherent(up, name)
        if not chk.anchor('Unpaired::%s%s' % (name, sfx), f):
            return
        where = facts.loc(f['id'])
        key = '%s:Unpaired::%s%s' % (PID, name, sfx)
        try:
            sx, paths = summ(f, names, args)
            chk.saw(facts, f, paths=len(paths))
            probs = []
            recs = sx.loop_records
            if len(recs) != len(order):
                probs.append('%d loops, expected %d' % (len(recs), len(order)))
            else:
                iters = {ev[1]: ev[2] for ev in sx_events_into_iter(paths)}
                for rec, (comp, inp) in zip(recs, order):
                    carried = [(c, find_ariths(sm, v)) for c, v in rec['cell_havoc'].items()]
                    carried = [(c, a) for c, a in carried if a]
                    # the loop must carry (modify) exactly one arithmetic state
                    mods = []
                    for c, ariths in carried:
                        for apath, hav in ariths:
                            for st in rec['steps']:
                                post = get_at(st['cell_post'][c], apath)
                                if post == hav:
                                    continue  # carried but untouched by this loop
                                d, pr = step_increment(sm, hav, post)
                                probs.extend(pr)
                                nx = [e for e in st['events'] if e[0] == 'next']
                                if len(nx) != 1 or nx[0][2] is None:
                                    probs.append('an iteration does not consume exactly one element')
                                    continue
                                if is_increment(sm, d, nx[0][2]):
                                    # a closure-driven loop (for_each / try_for_each / fold) consumes the iterator
                                    # value itself; a `for`/`while let` loop keeps it in a carried cell
                                    itv = nx[0][1]
                                    while itv[0] == 'op' and itv[1] == 'ref':   # try_for_each takes the iterator by &mut
                                        itv = itv[2][0]
                                    src = iters.get(itv)
                                    for cc, v in rec['cell_havoc'].items():
                                        if v == nx[0][1]:
                                            src = iters.get(rec['cell_init'].get(cc))
                                    # copied / adapted / re-wrapped / loop-carried iterators: follow the chain to its input
                                    deep = iters_mod.source(sx, nx[0][1], sx.loop_records)
                                    if deep is not None:
                                        src = deep
                                    mods.append((c, apath, hav, src))
                                elif not is_unchanged(sm, d):
                                    probs.append('a state is updated by something else than the element')
                    uniq = {}
                    for mm in mods:
                        uniq.setdefault((mm[0], mm[1]), mm)
                    mods = list(uniq.values())
                    if len(mods) != 1:
                        probs.append('loop at %s updates %d states' % (rec['where'], len(mods)))
                        continue
                    c, apath, hav, src = mods[0]
                    if src != ('op', 'ref', (T.sym(inp),)):
                        probs.append('loop for component %s iterates over %s' % (comp.upper(), T.show(src) if src else '?'))
                    # which component is it?  compare the initial value with the symbolic A / B state
                    init = get_at(rec['cell_init'][c], apath)
                    init_s = set(T.syms_of(init))
                    want_syms = {'a': {'S1a', 'S2a', 'na'}, 'b': {'S1b', 'S2b', 'nb'}}[comp]
                    if ret_state:
                        pass
                    elif not (init_s & want_syms) or (init_s & ({'S1a', 'S2a', 'na', 'S1b', 'S2b', 'nb'} - want_syms)):
                        probs.append('data of sample %s is folded into the wrong component' % comp.upper())
                    rec['_comp'] = (comp, c, apath, hav)
                    chk.analysed['loops'] += 1
                    # frame condition: the component after the call is the component before it plus the fold
                    if not ret_state:
                        for pth in paths:
                            fin = pth.effects.get('self') if pth.is_ret() else None
                            if fin is None or unwrap_ok(pth.ret) is None:
                                continue
                            comp_fin = fin[3][roles[0] if comp == 'a' else roles[1]]
                            comp_ini = sa if comp == 'a' else sb
                            # other loops of the same call may have havocked this component too: compare through the last record only
                            if rec is recs[-1] or len(recs) == 1 or comp_fin == hav:
                                fr_ = frame_ok(comp_ini, comp_fin, rec, c, apath, hav)
                                if fr_:
                                    probs.append(fr_)
            if ret_state and not probs:
                # from_iter: result state = Unpaired(fold a, fold b)
                oks = [p for p in paths if p.is_ret() and unwrap_ok(p.ret) is not None]
                if len(oks) != 1:
                    probs.append('%d Ok paths' % len(oks))
                else:
                    v = unwrap_ok(oks[0].ret)
                    for rec, (comp, inp) in zip(recs, order):
                        hav = rec['_comp'][3]
                        got = v[3][roles[0] if comp == 'a' else roles[1]]
                        if got != hav:
                            probs.append('the fold over %s does not end up in component %s' % (inp, comp.upper()))
            chk.ob(key, 'T1-fold', 'Unpaired::%s folds each input into its own component, element by element' % name, not probs, '; '.join(probs[:3]), where)
            cnt['unpaired'] += 1
        except (Unsupported, NotReal) as e:
            chk.ob(key, 'T1-fold', name, None, 'undecided: %s' % e, where)
    loop_feeder('extend_a', ['self', 'da'], [by_ref(ust), None], [('a', 'da')])
    loop_feeder('extend_b', ['self', 'db'], [by_ref(ust), None], [('b', 'db')])
    loop_feeder('extend', ['self', 'da', 'db'], [by_ref(ust), None, None], [('a', 'da'), ('b', 'db')])
    loop_feeder('from_iter', ['da', 'db'], [None, None], [('a', 'da'), ('b', 'db')], ret_state=True)
    for name, comp in (('stats_a_mut', 'a'), ('stats_b_mut', 'b'), ('stats_a', 'a'), ('stats_b', 'b')):
        f = facts.inherent(up, name)
        if chk.anchor('Unpaired::%s%s' % (name, sfx), f):
            try:
                sx, paths = summ(f, ['self'], [by_ref(ust)])
                chk.saw(facts, f, paths=len(paths))
                want = ('op', 'ref', (sa if comp == 'a' else sb,))
                good = len(paths) == 1 and paths[0].is_ret() and paths[0].ret == want
                chk.ob('%s:Unpaired::%s%s' % (PID, name, sfx), 'E3', '%s hands out exactly component %s' % (name, comp.upper()), good, '', facts.loc(f['id']))
                if name.endswith('_mut'):
                    cnt['unpaired'] += 1
            except Unsupported as e:
                chk.ob('%s:Unpaired::%s%s' % (PID, name, sfx), 'E3', name, None, 'undecided: %s' % e, facts.loc(f['id']))

    # ---- D3 + D5 formula in the (mean, variance, n) parametrisation
    Ma, Va, Mb, Vb = (T.sym(x) for x in ('ma', 'va', 'mb', 'vb'))
    fna, fnb = T.op('i2f', Na), T.op('i2f', Nb)
    A_ = T.op('div', Va, fna)
    B_ = T.op('div', Vb, fnb)
    d_ref = T.op('sub', Ma, Mb)
    se_ref = T.op('sqrt', T.op('add', A_, B_))
    nu_ref = T.op('sub', T.op('div', T.op('mul', T.op('add', A_, B_), T.op('add', A_, B_)),
                               T.op('add', T.op('div', T.op('mul', A_, A_), T.op('add', fna, F1)), T.op('div', T.op('mul', B_, B_), T.op('add', fnb, F1)))), F2)
    f = facts.inherent(up, 'ci_mean')
    results = {}
    if chk.anchor('Unpaired::ci_mean' + sfx, f):
        where = facts.loc(f['id'])
        st_mv = ustate(mv_state(sm, Ma, Va, Na), mv_state(sm, Mb, Vb, Nb))
        for kind, kname in KINDS:
            for region, rng in (('va>0', {'va': (Fraction(0), None, True, True), 'vb': (Fraction(0), None, False, True)}),
                                ('vb>0', {'va': (Fraction(0), None, False, True), 'vb': (Fraction(0), None, True, True)})):
                key = '%s:Unpaired::ci_mean:%s:%s%s' % (PID, kname, region, sfx)
                ranges = {'na': (Fraction(2), None, False, True), 'nb': (Fraction(2), None, False, True), 'L': (Fraction(0), Fraction(1), True, True)}
                ranges.update(rng)
                dmu = Domain(nf, ranges)
                dmu.hooks.append(quantile_hook())
                try:
                    sx, paths = summ(f, ['self', 'confidence'], [by_ref(st_mv), cm.value(kind, L)])
                    chk.saw(facts, f, paths=len(paths))
                    if region == 'va>0':
                        check_sqrt_domain(chk, '%s:Unpaired::ci_mean:%s%s' % (PID, kname, sfx), where, paths, 'Unpaired::ci_mean(%s)' % kname, cnt)
                    okk = check_mean_interval(chk, PID, key, where, sm, im, cm, paths, kind, L, d_ref, se_ref, nu_ref, dmu,
                                              'Unpaired::ci_mean(%s) is (ma - mb) -/+ c*sqrt(va/na + vb/nb) with the documented effective dof (%s)' % (kname, region),
                                              stat_atoms=[(Ma, 'ma'), (Va, 'va'), (Mb, 'mb'), (Vb, 'vb')])
                    if okk:
                        results[kind] = paths
                except (Unsupported, NotReal) as e:
                    chk.ob(key, 'E3+E4 formula', 'Unpaired::ci_mean', None, 'undecided: %s' % e, where)
        cnt['unpaired'] += 0
        # D5: exchange symmetry is a consequence of the decided formula (d -> -d, se and nu symmetric);
        # checked as identities of the *reference* under a <-> b so that the table itself is validated
        swap = {Ma: Mb, Mb: Ma, Va: Vb, Vb: Va, Na: Nb, Nb: Na}
        try:
            sym_ok = nf.term_equal(T.subst(d_ref, swap), T.op('neg', d_ref)) and nf.term_equal(T.subst(se_ref, swap), se_ref) and nf.term_equal(T.subst(nu_ref, swap), nu_ref)
        except NotReal:
            sym_ok = False
        chk.ob('%s:Unpaired::exchange%s' % (PID, sfx), 'E7-substitution',
               'exchanging the samples negates the centre and keeps the standard error and dof, so with the kind table the interval is mirrored and upper/lower are exchanged',
               sym_ok and len(results) == 3, '' if sym_ok else 'reference not symmetric', where)
    f = facts.inherent(up, 'ci')
    if chk.anchor('Unpaired::ci' + sfx, f):
        cnt['unpaired'] += 0
        where = facts.loc(f['id'])
        key = '%s:Unpaired::ci%s' % (PID, sfx)
        try:
            sx, paths = summ(f, ['confidence', 'da', 'db'], [cm.value('two', L), None, None])
            chk.saw(facts, f, paths=len(paths))
            probs = []
            if len(sx.loop_records) != 2:
                probs.append('%d loops' % len(sx.loop_records))
            chk.ob(key, 'T1-fold', 'Unpaired::ci folds both inputs (two loops) before ci_mean', not probs, '; '.join(probs), where)
        except Unsupported as e:
            chk.ob(key, 'T1-fold', 'Unpaired::ci', None, 'undecided: %s' % e, where)
    if cfg == 'default':
        chk.floor('paired-feeders', cnt['paired'], 3)
        chk.floor('unpaired-feeders', cnt['unpaired'], 10)
    chk.rules.append('T1/T2 folds (base/step, lock-step stream algebra), E3+E4 formula identity, E7 substitution a<->b')


def sx_events_into_iter(paths):
    seen = []
    for p in paths:
        for e in p.events:
            if e[0] == 'into_iter' and e not in seen:
                seen.append(e)
    return seen


def flatten_add(t):
    if t[0] == 'op' and t[1] == 'add':
        return flatten_add(t[2][0]) + flatten_add(t[2][1])
    return [t]


def sum_terms(ts):
    out = T.mk_int(0)
    for t in ts:
        out = T.op('add', out, t) if out != T.mk_int(0) else t
    return out


ASSUMPTIONS = ['floats as reals; n >= 2 per sample; level in (0,1); variances >= 0 (Cauchy-Schwarz for real data), not both 0 for the unpaired dof']
