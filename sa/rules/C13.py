"""C13 - interval arithmetic is sound and tight for the denoted sets.

Scalar operators (A+k, A-k, A*k, A/k, -A): engine E5 with sign classes of k.  Every bound
of the result must be the image f(bound) of an input bound under the operator's own map
f(x) = x o k; whether f preserves or reverses order follows from the ordered-field axioms
(a <= b & k > 0 => ak <= bk, reversed for k < 0; x+k, x-k monotone; -x antitone).  The
reference image of [lo,hi] / [lo,inf) / (-inf,hi] fixes the expected kind and which input
bound each output bound is the image of.
Interval +/- Interval and relative_to: expected kind and bound expressions per kind pair, or
the documented panic."""
import itertools

from .. import terms as T
from ..ivl import IvlModel, describe_env
from ..order import weak_orders, guard_holds, eval_term, NotParametric, NEG_INF, POS_INF
from ..symex import Unsupported
from ..tables import summarize, kinds_str, KIND_NAMES, show_val

PID = 'C13'
FLIP = {'two': 'two', 'upper': 'lower', 'lower': 'upper'}
SIGN_NAMES = {-1: 'k<0', 0: 'k=0', 1: 'k>0'}


def direction(opname, sign):
    if opname in ('add', 'sub'):
        return 1
    if opname in ('mul', 'div'):
        return sign
    if opname == 'neg':
        return -1
    raise NotParametric('operator ' + opname)


def eval_img(t, env, opname, sign):
    """Evaluate a term under the ordered-field abstraction: bounds have ranks; the image
    f(x) of a bound under the operator's own map has 'effective rank' direction*rank."""
    k = t[0]
    if k == 'bool':
        return t[1]
    if k == 'sym':
        if t[1] == 'k':
            if sign is None:
                raise NotParametric('scalar used outside the operator')
            return ('scalar', sign)
        return ('raw', env[t[1]])
    if k == 'op':
        n = t[1]
        if n in ('add', 'sub', 'mul', 'div') and len(t[2]) == 2 and t[2][1] == T.sym('k') and t[2][0][0] == 'sym':
            if n != opname:
                raise NotParametric('operator %s inside %s' % (n, opname))
            return ('img', direction(opname, sign) * env[t[2][0][1]])
        if n == 'zero' and not t[2]:
            return ('scalar', 0)
        if n == 'neg' and t[2][0][0] == 'sym':
            if opname != 'neg':
                raise NotParametric('negation inside %s' % opname)
            return ('img', -env[t[2][0][1]])
        if n in ('lt', 'le', 'gt', 'ge', 'eq', 'ne'):
            a = eval_img(t[2][0], env, opname, sign)
            b = eval_img(t[2][1], env, opname, sign)
            if isinstance(a, bool) or isinstance(b, bool) or a[0] != b[0]:
                raise NotParametric('comparison between a bound and an image (needs the magnitude of k)')
            a, b = a[1], b[1]
            return {'lt': a < b, 'le': a <= b, 'gt': a > b, 'ge': a >= b, 'eq': a == b, 'ne': a != b}[n]
        if n == 'not':
            return not eval_img(t[2][0], env, opname, sign)
        raise NotParametric('operation %s' % n)
    if k == 'adt':
        return ('adt', t[1], t[2], tuple(eval_img(a, env, opname, sign) for a in t[3]))
    raise NotParametric('term %s' % T.show(t))


def guard_holds_img(guard, variants, env, opname, sign):
    for atom, pol in guard:
        if atom[0] == 'variant':
            want = variants.get(atom[1])
            if want is None:
                raise NotParametric('variant test on %s' % T.show(atom[1]))
            if (want == atom[2]) != pol:
                return False
        elif eval_img(atom, env, opname, sign) != pol:
            return False
    return True


def scalar_op(chk, facts, m, fn, opname, label):
    where = facts.loc(fn['id'])
    names = ['A'] if opname == 'neg' else ['A', 'k']
    try:
        sx, paths = summarize(facts, fn, names)
    except Unsupported as e:
        chk.ob('%s:%s:analysable' % (PID, label), 'E5-sign', '%s analysable' % label, None, str(e), where)
        return
    chk.saw(facts, fn, paths=len(paths))
    signs = [None] if opname in ('neg', 'add', 'sub') else ([-1, 1] if opname == 'div' else [-1, 0, 1])
    for kind in ('two', 'upper', 'lower'):
        for sign in signs:
            if opname == 'mul' and sign == 0 and kind != 'two':
                continue  # image {0} of a half-line is not expressible; quantifier: "scalars of both signs"
            lo, hi = m.bounds('A', kind)
            names_b = [n for n in (lo, hi) if n]
            variants = {T.sym('A'): m.kinds[kind][0]}
            n_cls = 0
            bad = None
            und = None
            for env in weak_orders(names_b):
                if lo and hi and env[lo] > env[hi]:
                    continue
                n_cls += 1
                d = direction(opname, sign)
                # reference image
                if d >= 0:
                    wkind = kind
                    wlo = d * env[lo] if lo else NEG_INF
                    whi = d * env[hi] if hi else POS_INF
                else:
                    wkind = FLIP[kind]
                    wlo = d * env[hi] if hi else NEG_INF
                    whi = d * env[lo] if lo else POS_INF
                want = (wkind, wlo, whi)
                try:
                    hits = [p for p in paths if guard_holds_img(p.guard, variants, env, opname, sign)]
                    if len(hits) != 1:
                        und = '%d paths cover ordering %s' % (len(hits), describe_env(env))
                        continue
                    p = hits[0]
                    if p.unknowns:
                        und = 'unmodelled callee %s' % (p.unknowns[0][0],)
                        continue
                    if p.is_panic():
                        got = ('panic',)
                    else:
                        v = eval_img(p.ret, env, opname, sign)
                        dec = m.decode(v)
                        if dec is None:
                            und = 'result is not an Interval: %s' % show_val(p.ret)
                            continue
                        unwrap = lambda x: x if isinstance(x, int) else x[1] if x[0] == 'img' else ('raw', x[1])
                        got = (dec[0], unwrap(dec[1]), unwrap(dec[2]))
                except NotParametric as e:
                    und = '%s (ordering %s)' % (e, describe_env(env))
                    continue
                if got != want and bad is None:
                    bad = (describe_env(env), got, want, T.show(hits[0].ret) if hits[0].ret else 'panic')
            sg = '' if sign is None else ':' + SIGN_NAMES[sign]
            key = '%s:%s:(%s)%s' % (PID, label, KIND_NAMES[kind], sg)
            desc = '%s of a %s interval%s is the image set (kind, bound placement, well-formed)' % (label, KIND_NAMES[kind], sg.replace(':', ' with '))
            if und:
                chk.ob(key, 'E5-sign', desc, None, 'undecided: ' + und, where)
            elif bad:
                chk.ob(key, 'E5-sign', desc, False,
                       'with %s the code returns %s = %r; the image set is %r (kind, effective rank of low, of high)' % (bad[0], bad[3], bad[1], bad[2]), where)
            else:
                chk.ob(key, 'E5-sign', desc, True, '', where,
                       sample={'op': label, 'kind': KIND_NAMES[kind], 'sign': SIGN_NAMES.get(sign), 'orderings': n_cls})


def canon(t):
    """Structural canonical form of a bound expression (commutative +)."""
    if t[0] == 'op' and t[1] == 'add':
        return ('add', frozenset([canon(t[2][0]), canon(t[2][1])]))
    if t[0] == 'op':
        return (t[1],) + tuple(canon(a) for a in t[2])
    if t[0] == 'sym':
        return t[1]
    return t


def pair_op(chk, facts, m, fn, label, expect):
    """Interval (+|-) Interval and relative_to: expected result per kind pair."""
    where = facts.loc(fn['id'])
    try:
        sx, paths = summarize(facts, fn, ['A', 'B'])
    except Unsupported as e:
        chk.ob('%s:%s:analysable' % (PID, label), 'E5-pair', '%s analysable' % label, None, str(e), where)
        return
    chk.saw(facts, fn, paths=len(paths))
    for ka, kb in itertools.product(('two', 'upper', 'lower'), repeat=2):
        variants = {T.sym('A'): m.kinds[ka][0], T.sym('B'): m.kinds[kb][0]}
        key = '%s:%s:%s' % (PID, label, kinds_str((ka, kb)))
        desc = '%s on %s yields the documented kind and bound expressions' % (label, kinds_str((ka, kb)))
        hits = []
        und = None
        for p in paths:
            ok = True
            for atom, pol in p.guard:
                if atom[0] == 'variant':
                    if (variants.get(atom[1]) == atom[2]) != pol:
                        ok = False
                elif atom[0] == 'op' and atom[1] == 'eq' and ('op', 'zero', ()) in atom[2]:
                    # reference strictly positive (property's quantifier): x == 0 is false
                    other = [a for a in atom[2] if a != ('op', 'zero', ())]
                    if other and other[0][0] == 'sym' and other[0][1].startswith('B.'):
                        if pol:
                            ok = False
                    else:
                        und = 'zero test on %s' % T.show(atom)
                else:
                    und = 'unexpected guard %s' % T.show(atom)
            if ok:
                hits.append(p)
        want = expect(ka, kb)
        if und:
            chk.ob(key, 'E5-pair', desc, None, 'undecided: ' + und, where)
            continue
        outs = set()
        for p in hits:
            if p.is_panic():
                outs.add(('panic',))
            else:
                d = m.decode(p.ret)
                if d is None:
                    outs.add(('?', T.show(p.ret)))
                else:
                    outs.add((d[0], canon(d[1]) if not isinstance(d[1], int) else d[1], canon(d[2]) if not isinstance(d[2], int) else d[2]))
        if len(outs) != 1:
            chk.ob(key, 'E5-pair', desc, None, 'undecided: %d distinct outcomes %r' % (len(outs), outs), where)
            continue
        got = outs.pop()
        chk.ob(key, 'E5-pair', desc, got == want, '' if got == want else 'code gives %r, expected %r' % (got, want), where,
               sample={'op': label, 'kinds': kinds_str((ka, kb)), 'result': repr(got)[:200]})


def run(chk, ctx):
    for cfg in ctx.configs():
        run_cfg(chk, ctx.facts(cfg), cfg)


def run_cfg(chk, facts, cfg):
    m = IvlModel(facts)
    sfx = '' if cfg == 'default' else '[%s]' % cfg
    if not chk.anchor('Interval+constructors' + sfx, m if m.ok() else None):
        chk.notes.extend(m.problems)
        return
    from ..overrides import obligation as no_overrides
    no_overrides(chk, PID, facts, sfx, [m.path], 'interval arithmetic', traits=('Add', 'Sub', 'Mul', 'Div', 'Neg', 'AddAssign', 'SubAssign', 'MulAssign', 'DivAssign'))
    n = 0
    scalar = lambda imp: [t['k'] for t in imp.get('trait_args', [])] == ['param']
    for tr, opname in (('core::ops::Add', 'add'), ('core::ops::Sub', 'sub'), ('core::ops::Mul', 'mul'), ('core::ops::Div', 'div')):
        f = facts.trait_method(tr, m.path, opname, trait_args=scalar)
        if chk.anchor('Interval %s scalar%s' % (opname, sfx), f):
            n += 1
            scalar_op(chk, facts, m, f, opname, 'A_%s_k%s' % (opname, sfx))
    f = facts.trait_method('core::ops::Neg', m.path, 'neg')
    if chk.anchor('-Interval' + sfx, f):
        n += 1
        scalar_op(chk, facts, m, f, 'neg', 'neg_A' + sfx)

    def lo_of(b, k):
        return m.bounds(b, k)[0]

    def hi_of(b, k):
        return m.bounds(b, k)[1]

    def expect_with(fl, fh):
        def e(ka, kb):
            lo = fl(ka, kb)
            hi = fh(ka, kb)
            if lo is None and hi is None:
                return ('panic',)
            kind = 'two' if (lo is not None and hi is not None) else ('upper' if lo is not None else 'lower')
            return (kind, lo if lo is not None else NEG_INF, hi if hi is not None else POS_INF)
        return e

    def both(x, y, f):
        return f(x, y) if (x and y) else None
    same = lambda imp: [adt_of(t) for t in imp.get('trait_args', [])] == [m.path]
    f = facts.trait_method('core::ops::Add', m.path, 'add', trait_args=same)
    if chk.anchor('Interval + Interval' + sfx, f):
        n += 1
        pair_op(chk, facts, m, f, 'A_add_B' + sfx, expect_with(
            lambda ka, kb: both(lo_of('A', ka), lo_of('B', kb), lambda x, y: ('add', frozenset([x, y]))),
            lambda ka, kb: both(hi_of('A', ka), hi_of('B', kb), lambda x, y: ('add', frozenset([x, y])))))
    f = facts.trait_method('core::ops::Sub', m.path, 'sub', trait_args=same)
    if chk.anchor('Interval - Interval' + sfx, f):
        n += 1
        pair_op(chk, facts, m, f, 'A_sub_B' + sfx, expect_with(
            lambda ka, kb: both(lo_of('A', ka), hi_of('B', kb), lambda x, y: ('sub', x, y)),
            lambda ka, kb: both(hi_of('A', ka), lo_of('B', kb), lambda x, y: ('sub', x, y))))
    f = facts.inherent(m.path, 'relative_to')
    if chk.anchor('Interval::relative_to' + sfx, f):
        n += 1
        rel = lambda x, r: ('div', ('sub', x, r), r)
        pair_op(chk, facts, m, f, 'relative_to' + sfx, expect_with(
            lambda ka, kb: both(lo_of('A', ka), hi_of('B', kb), rel),
            lambda ka, kb: both(hi_of('A', ka), lo_of('B', kb), rel)))
    if cfg == 'default':
        chk.floor('operators', n, 8)
    chk.rules.append('E5-sign: image-set table over (kind x ordering x sign of the scalar) using only ordered-field monotonicity axioms')
    chk.rules.append('E5-pair: expected kind and bound expressions (or documented panic) for the 9 kind pairs')
    chk.notes.append('A*0 for one-sided A (image {0}) is outside the quantifier ("scalars of both signs")')
    chk.notes.append('relative_to: monotonicity of (x-r)/r in x (increasing) and r (decreasing, x>=0, r>0) is the cited mathematical fact; the rule checks the bound placement it implies')


def adt_of(t):
    return t.get('adt')
