"""C06 - critical values are true t / normal quantiles (structural necessary conditions).

D: every critical value that reaches a bound of a mean / comparison / proportion interval is
   inverse_cdf(dist, q) with dist = StudentsT(location 0, scale 1, nu) - nu the term n-1
   (arithmetic, geometric, harmonic, paired) or the documented effective dof (unpaired) - below
   the constant threshold, Normal(0,1) above it and for proportions; q = (1+L)/2 two-sided,
   L one-sided; the value enters the bound only as  centre -/+ c*se  (affine in c with opposite
   signs on the two sides, no abs / clamp / min / max around it).
U: that statrs' inverse_cdf inverts its CDF to the stated accuracy for all nu and levels is a
   numerical property of an external algorithm; no static argument in reach (trusted contract)."""
from fractions import Fraction

from .. import terms as T
from ..meanci import KINDS, F0, F1, F2, NORMAL, student_t, crit, crit_atoms
from ..nf import NotReal
from ..producers import Producers
from ..symex import Unsupported

PID = 'C06'
L = T.sym('L')


def affine_in(nf, bound, c_atom_term):
    """bound = a + b*c with a, b free of c: returns (a, b) as RFs or None."""
    rf = nf.of_term(bound)
    catom = None
    ckey = nf.of_term(c_atom_term)
    # the atom object of c
    (m,), = [list(ckey.num.keys())]
    catom = m[0][0]
    a, b = {}, {}
    for mono, coef in rf.num.items():
        d = dict(mono)
        e = d.pop(catom, 0)
        if e == 0:
            a[mono] = coef
        elif e == 1:
            b[tuple(sorted(d.items(), key=lambda x: repr(x[0])))] = coef
        else:
            return None
        # c nested inside another atom (abs, min, ...)?
        for at in d:
            if isinstance(at, tuple) and repr(catom) in repr(at):
                return None
    for k in rf.fac:
        if repr(catom) in repr(k):
            return None
    from ..nf import RF
    return RF(a, dict(rf.fac)), RF(b, dict(rf.fac))


def run(chk, ctx):
    for cfg in ctx.configs():
        run_cfg(chk, ctx.facts(cfg), cfg)


def run_cfg(chk, facts, cfg):
    sfx = '' if cfg == 'default' else '[%s]' % cfg
    pr = Producers(facts)
    if not chk.anchor('state / interval / confidence models' + sfx, pr if pr.ok() else None):
        return
    nf, cm = pr.nf, pr.cm
    uses = 0
    dists = set()
    N = T.sym('n')
    nu_arith = T.op('sub', T.op('i2f', N), F1)
    Va, Vb, Na, Nb = (T.sym(x) for x in ('va', 'vb', 'na', 'nb'))
    fna, fnb = T.op('i2f', Na), T.op('i2f', Nb)
    A_, B_ = T.op('div', Va, fna), T.op('div', Vb, fnb)
    nu_unp = T.op('sub', T.op('div', T.op('mul', T.op('add', A_, B_), T.op('add', A_, B_)),
                               T.op('add', T.op('div', T.op('mul', A_, A_), T.op('add', fna, F1)), T.op('div', T.op('mul', B_, B_), T.op('add', fnb, F1)))), F2)

    def check_bounds(key, where_fn, label, dec, want_dist, kind):
        nonlocal uses
        gk, lo, hi = dec
        q = cm.quantile(kind, L)
        want = crit(want_dist, q)
        probs = []
        cs = set()
        for b in (lo, hi):
            if isinstance(b, int):
                continue
            for c in crit_atoms(b):
                cs.add(c)
        finite = [b for b in (lo, hi) if not isinstance(b, int) and crit_atoms(b)]
        if not finite:
            probs.append('no critical value reaches a bound')
        try:
            wkey = nf.key(nf.of_term(want))
            for c in cs:
                if nf.key(nf.of_term(c)) != wkey:
                    probs.append('critical value %s is not %s' % (T.show(c)[:140], T.show(want)[:140]))
            parts = {}
            for name, b in (('lo', lo), ('hi', hi)):
                if isinstance(b, int) or not crit_atoms(b):
                    continue
                ab = affine_in(nf, b, want)
                if ab is None:
                    probs.append('%s bound is not affine in the critical value (abs / clamp / power around it)' % name)
                    continue
                parts[name] = ab
            if 'lo' in parts and 'hi' in parts:
                (a1, b1), (a2, b2) = parts['lo'], parts['hi']
                if not nf.equal(a1, a2):
                    probs.append('the two bounds are not centred on the same value')
                if not nf.is_zero(nf.add(b1, b2)):
                    probs.append('the critical value does not enter the two bounds with opposite signs and equal weight')
            # orientation: lower bound is centre - c*se, i.e. its coefficient of c is <= 0
            from ..realmode import Domain
            dom = pr.dom({'n': (Fraction(2), None, False, True), 'na': (Fraction(2), None, False, True), 'nb': (Fraction(2), None, False, True),
                          'v': (Fraction(0), None, False, True), 'va': (Fraction(0), None, True, True), 'vb': (Fraction(0), None, False, True),
                          'k': (Fraction(0), None, False, True)})
            for name, want_sign in (('lo', ('-', '0-', '0')), ('hi', ('+', '0+', '0'))):
                if name in parts:
                    sgn = dom.sign(parts[name][1])
                    if sgn not in want_sign:
                        probs.append('coefficient of the critical value in the %s bound has sign %s' % (name, sgn))
        except NotReal as e:
            probs.append('not a real formula: %s' % e)
        uses += 1
        dists.add(want_dist[1])
        chk.ob(key, 'E3 structure', '%s: the critical value is inverse_cdf(%s, q) and enters the bounds only as centre -/+ c*se' % (label, T.show(want_dist)[:80]),
               not probs, '; '.join(probs[:3]), where_fn, sample={'producer': label, 'critical_value': T.show(want)[:160]})

    for which, nu in (('arithmetic', nu_arith), ('paired', nu_arith), ('geometric', nu_arith), ('unpaired', nu_unp)):
        for kind, kname in KINDS:
            key = '%s:%s:%s%s' % (PID, which, kname, sfx)
            try:
                res = pr.mean_like(which, kind, L)
                for below, dec in res.items():
                    if which == 'geometric':
                        # bounds are exp(arith bound): look through the outer exp
                        dec = (dec[0],) + tuple(b[2][0] if (not isinstance(b, int) and b[0] == 'op' and b[1] == 'exp') else b for b in dec[1:])
                    check_bounds(key + (':t' if below else ':z'), which, '%s(%s, %s branch)' % (which, kname, 't' if below else 'normal'),
                                 dec, student_t(nu) if below else NORMAL, kind)
            except (Unsupported, NotReal) as e:
                chk.ob(key, 'E3 structure', which, None, 'undecided: %s' % e, which)
    for method in ('wilson', 'wald'):
        for kind, kname in KINDS:
            key = '%s:%s:%s%s' % (PID, method, kname, sfx)
            try:
                dec = pr.proportion(method, kind, L)
                if method == 'wilson':
                    # z enters the Wilson bounds non-linearly (z^2): only distribution and argument are checked
                    cs = set(c for b in dec[1:] if not isinstance(b, int) for c in crit_atoms(b))
                    want = crit(NORMAL, cm.quantile(kind, L))
                    wkey = nf.key(nf.of_term(want))
                    good = bool(cs) and all(nf.key(nf.of_term(c)) == wkey for c in cs)
                    uses += 1
                    dists.add(NORMAL[1])
                    chk.ob(key, 'E3 structure', 'Wilson(%s): z is inverse_cdf(Normal(0,1), q)' % kname, good,
                           '' if good else 'critical values: %s' % [T.show(c)[:100] for c in cs], 'proportion::ci_wilson', sample={'producer': 'wilson', 'kind': kname})
                else:
                    check_bounds(key, 'proportion::ci_z_normal', 'Wald(%s)' % kname, dec, NORMAL, kind)
            except (Unsupported, NotReal) as e:
                chk.ob(key, 'E3 structure', method, None, 'undecided: %s' % e, method)
    from ..effects import obligation as no_hidden_state
    no_hidden_state(chk, PID, facts, sfx, 'the critical value is a function of (confidence, degrees of freedom) only: no cached / thread-local state on the way')
    chk.analysed['paths'] += pr.npaths
    chk.analysed['functions'] |= pr.fns
    chk.analysed['configs'].add(cfg)
    if cfg == 'default':
        chk.floor('distributions', len(dists), 2)
        chk.floor('use-sites', uses, 7)
    chk.rules.append('E3 structure: distribution constructor arguments, quantile argument and affine use of the critical value, by normal form')
    chk.notes.append('NOT decided: accuracy of statrs inverse_cdf (numerical property of an external algorithm)')


ASSUMPTIONS = ['statrs StudentsT/Normal::inverse_cdf is the quantile function of the distribution it is called on (trusted)', 'floats as reals']
