"""C18 - Confidence values are valid by construction and obey their algebraic laws.

D1: E5 with an IEEE partition of the level (fclass): the four constructors return the right
variant (payload = the argument) exactly on cells inside (0,1) and panic on every other
cell (NaN, infinities, 0, 1, negatives, >1); TryFrom<f64>/<f32> return
InvalidConfidenceLevel there; Default is two-sided 0.95.
D2: tables for level/percent/kind/is_*; flipped; partial_cmp; derived ==.
The enum's variants are public API (`Confidence::TwoSided` ...), so they are anchors."""
from fractions import Fraction

from .. import terms as T
from ..fclass import constants_compared, cells, cell_str, guard_holds as fguard, inside, strip
from ..order import NotParametric, weak_orders, guard_holds as oguard, eval_term
from ..symex import Unsupported
from ..tables import summarize
from ..types import RESULT, OPTION, ORDERING

PID = 'C18'
VARIANTS = ['TwoSided', 'UpperOneSided', 'LowerOneSided']


def run(chk, ctx):
    for cfg in ctx.configs():
        run_cfg(chk, ctx.facts(cfg), cfg)


def run_cfg(chk, facts, cfg):
    sfx = '' if cfg == 'default' else '[%s]' % cfg
    adts = [a for a in facts.raw['adts'] if a['path'].split('::')[-1] == 'Confidence' and a['exported']]
    if not chk.anchor('Confidence' + sfx, adts[0] if len(adts) == 1 else None):
        return
    adt = adts[0]
    path = adt['path']
    vidx = {v['name']: i for i, v in enumerate(adt['variants'])}
    ok_shape = all(n in vidx and len(adt['variants'][vidx[n]]['fields']) == 1 for n in VARIANTS) and len(adt['variants']) == 3
    if not chk.anchor('Confidence variants TwoSided/UpperOneSided/LowerOneSided(f64)' + sfx, adt if ok_shape else None):
        return
    two, up, lo = vidx['TwoSided'], vidx['UpperOneSided'], vidx['LowerOneSided']
    n = 0
    from ..overrides import obligation as no_overrides

    def cval(v, payload):
        return ('adt', path, v, (payload,))

    # ---- D1 constructors
    def ctor(fn, label, want_variant, arg='level', fallible=False, widen=False):
        where = facts.loc(fn['id'])
        try:
            sx, paths = summarize(facts, fn, [arg], real=False)
        except Unsupported as e:
            chk.ob('%s:%s:analysable' % (PID, label), 'fclass', label + ' analysable', None, str(e), where)
            return
        chk.saw(facts, fn, paths=len(paths))
        consts = constants_compared(paths, arg) | {Fraction(0), Fraction(1)}
        bad = und = None
        ncell = 0
        for cell in cells(consts):
            ncell += 1
            try:
                hits = [p for p in paths if fguard(p.guard, {}, {arg: cell})]
            except NotParametric as e:
                und = str(e)
                continue
            outs = set()
            for p in hits:
                if p.is_panic():
                    outs.add(('panic',))
                else:
                    outs.add(p.ret)
            if len(outs) != 1:
                und = '%d outcomes on cell %s' % (len(outs), cell_str(cell))
                continue
            got = outs.pop()
            good = inside(cell, 0, 1)
            payload = T.sym(arg) if not widen else T.op('f2f', T.sym(arg))
            if fallible:
                want = ('adt', RESULT, 0, (cval(want_variant, payload),)) if good else None
                okc = (got == want) if good else (got[0] == 'adt' and got[1] == RESULT and got[2] == 1 and is_invalid_level(facts, got[3][0], payload))
            else:
                want = cval(want_variant, payload) if good else ('panic',)
                okc = got == want
            if not okc and bad is None:
                bad = 'on the cell %s of the level the outcome is %s' % (cell_str(cell), T.show(got) if got != ('panic',) else 'panic')
        key = '%s:%s' % (PID, label)
        desc = '%s accepts exactly levels in (0,1) (all %d cells of the IEEE partition incl. NaN, +-inf, 0, 1)' % (label, ncell)
        chk.ob(key, 'fclass', desc, None if und else bad is None, ('undecided: ' + und) if und else (bad or ''), where,
               sample={'fn': label, 'cells': [cell_str(c) for c in cells(consts)]})

    for name, v in (('new', two), ('new_two_sided', two), ('new_upper', up), ('new_lower', lo)):
        f = facts.inherent(path, name)
        if chk.anchor('Confidence::%s%s' % (name, sfx), f):
            n += 1
            ctor(f, 'Confidence::%s%s' % (name, sfx), v)
    f = facts.trait_method('core::convert::TryFrom', path, 'try_from', trait_args=['f64'])
    if chk.anchor('TryFrom<f64> for Confidence' + sfx, f):
        n += 1
        ctor(f, 'TryFrom<f64>' + sfx, two, fallible=True)
    f = facts.trait_method('core::convert::TryFrom', path, 'try_from', trait_args=['f32'])
    if chk.anchor('TryFrom<f32> for Confidence' + sfx, f):
        n += 1
        ctor(f, 'TryFrom<f32>' + sfx, two, fallible=True, widen=True)
    f = facts.trait_method('core::default::Default', path, 'default')
    if chk.anchor('Default for Confidence' + sfx, f):
        n += 1
        try:
            sx, paths = summarize(facts, f, [], real=False)
            rets = [p.ret for p in paths if p.is_ret()]
            good = len(paths) == 1 and len(rets) == 1 and rets[0][0] == 'adt' and rets[0][2] == two and rets[0][3][0][0] == 'flt' \
                and abs(rets[0][3][0][1] - Fraction(95, 100)) < Fraction(1, 10 ** 15)
            chk.ob('%s:default%s' % (PID, sfx), 'table', 'Default is two-sided 0.95', good, '' if good else 'got %s' % [T.show(r) for r in rets], facts.loc(f['id']))
            chk.saw(facts, f, paths=len(paths))
        except Unsupported as e:
            chk.ob('%s:default%s' % (PID, sfx), 'table', 'Default is two-sided 0.95', None, str(e), facts.loc(f['id']))

    # ---- D2 accessors (tables over the three variants)
    def table(fn, label, expect, names=('c',)):
        where = facts.loc(fn['id'])
        try:
            sx, paths = summarize(facts, fn, list(names), real=False)
        except Unsupported as e:
            chk.ob('%s:%s:analysable' % (PID, label), 'table', label + ' analysable', None, str(e), where)
            return None
        chk.saw(facts, fn, paths=len(paths))
        return paths

    def by_variant(paths, base='c'):
        out = {}
        for v in (two, up, lo):
            hits = []
            for p in paths:
                okp = True
                rest = []
                for atom, pol in p.guard:
                    if atom[0] == 'variant' and atom[1] == T.sym(base):
                        if (atom[2] == v) != pol:
                            okp = False
                    else:
                        rest.append((atom, pol))
                if okp:
                    hits.append((p, rest))
            out[v] = hits
        return out

    def payload(base, v):
        return T.sym('%s.%s.0' % (base, adt['variants'][v]['name']))

    def simple(name, expect_fn, desc):
        nonlocal n
        f = facts.inherent(path, name)
        if not chk.anchor('Confidence::%s%s' % (name, sfx), f):
            return
        n += 1
        paths = table(f, name, None)
        if paths is None:
            return
        bv = by_variant(paths)
        for v in (two, up, lo):
            hits = bv[v]
            key = '%s:%s:%s%s' % (PID, name, adt['variants'][v]['name'], sfx)
            if len(hits) != 1 or hits[0][1] or not hits[0][0].is_ret():
                chk.ob(key, 'table', desc, None, 'undecided: %d paths / extra guards' % len(hits), facts.loc(f['id']))
                continue
            got = hits[0][0].ret
            while got[0] == 'op' and got[1] == 'ref':
                got = got[2][0]
            want = expect_fn(v)
            good = want(got) if callable(want) else got == want
            chk.ob(key, 'table', desc, good, '' if good else 'returns %s' % T.show(got), facts.loc(f['id']),
                   sample={'fn': name, 'variant': adt['variants'][v]['name'], 'returns': T.show(got)})

    simple('level', lambda v: payload('c', v), 'level() returns the stored level')
    simple('percent', lambda v: (lambda g: g in (T.op('mul', payload('c', v), T.mk_flt(Fraction(100))), T.op('mul', T.mk_flt(Fraction(100)), payload('c', v)))),
           'percent() is 100 * level')
    simple('is_two_sided', lambda v: ('bool', v == two), 'is_two_sided() holds exactly for the two-sided kind')
    simple('is_one_sided', lambda v: ('bool', v != two), 'is_one_sided() holds exactly for the one-sided kinds')
    simple('is_upper', lambda v: ('bool', v == up), 'is_upper() holds exactly for the upper one-sided kind')
    simple('is_lower', lambda v: ('bool', v == lo), 'is_lower() holds exactly for the lower one-sided kind')
    simple('flipped', lambda v: cval({two: two, up: lo, lo: up}[v], payload('c', v)),
           'flipped() fixes two-sided, exchanges upper and lower, keeps the level (=> involution)')
    # kind(): three distinct, non-empty strings
    f = facts.inherent(path, 'kind')
    if chk.anchor('Confidence::kind' + sfx, f):
        n += 1
        paths = table(f, 'kind', None)
        if paths is not None:
            bv = by_variant(paths)
            strs = []
            for v in (two, up, lo):
                hs = bv[v]
                g = hs[0][0].ret if len(hs) == 1 and hs[0][0].is_ret() else None
                while g is not None and g[0] == 'op' and g[1] == 'ref':
                    g = g[2][0]
                strs.append(g[1] if g is not None and g[0] == 'str' else None)
            good = all(s for s in strs) and len(set(strs)) == 3
            chk.ob('%s:kind%s' % (PID, sfx), 'table', 'kind() names the three kinds with distinct strings', good, 'strings: %r' % (strs,), facts.loc(f['id']),
                   sample={'fn': 'kind', 'strings': strs})

    # partial_cmp / eq (and any overridden <, <=, >, >=, !=) over variant pairs x order of the two levels
    def cmp_table(f, label):
        where = facts.loc(f['id'])
        try:
            sx, paths = summarize(facts, f, ['a', 'b'], real=False)
        except Unsupported as e:
            chk.ob('%s:%s:analysable' % (PID, label), 'table', label, None, str(e), where)
            return
        chk.saw(facts, f, paths=len(paths))
        base = label.split('(')[0]
        for va in (two, up, lo):
            for vb in (two, up, lo):
                key = '%s:%s:(%s,%s)%s' % (PID, label, adt['variants'][va]['name'], adt['variants'][vb]['name'], sfx)
                x, y = payload('a', va)[1], payload('b', vb)[1]
                bad = und = None
                for env in weak_orders([x, y]):
                    variants = {T.sym('a'): va, T.sym('b'): vb}
                    try:
                        hits = [p for p in paths if oguard(p.guard, variants, env)]
                        outs = set(eval_term(p.ret, env) if p.is_ret() else ('panic',) for p in hits)
                    except NotParametric as e:
                        und = str(e)
                        continue
                    if len(outs) != 1:
                        und = '%d outcomes' % len(outs)
                        continue
                    got = outs.pop()
                    o = None if va != vb else (0 if env[x] < env[y] else (1 if env[x] == env[y] else 2))
                    if base == 'eq':
                        want = (o == 1)
                    elif base == 'ne':
                        want = (o != 1)
                    elif base == 'partial_cmp':
                        want = ('adt', OPTION, 0, ()) if o is None else ('adt', OPTION, 1, (('adt', ORDERING, o, ()),))
                    else:
                        want = o is not None and o in {'lt': (0,), 'le': (0, 1), 'gt': (2,), 'ge': (1, 2)}[base]
                    if got != want and bad is None:
                        bad = 'levels ordered %s: got %r want %r' % (env, got, want)
                desc = ('ordered exactly when of the same kind, then by level' if base not in ('eq', 'ne') else 'equality is equality of kind and level')
                chk.ob(key, 'table', desc + ('' if label == base else ' (overridden provided method %s)' % base), None if und else bad is None, ('undecided: ' + und) if und else (bad or ''), where)
    for trait, meth, label in (('core::cmp::PartialOrd', 'partial_cmp', 'partial_cmp'), ('core::cmp::PartialEq', 'eq', 'eq')):
        f = facts.trait_method(trait, path, meth)
        if not chk.anchor('Confidence::%s%s' % (label, sfx), f):
            continue
        n += 1
        cmp_table(f, label)
    no_overrides(chk, PID, facts, sfx, [path], 'Confidence ordering and equality', traits=('PartialOrd', 'PartialEq', 'Ord', 'Eq', 'Default', 'TryFrom', 'From'),
                 checkers={(tr, mt): (lambda fnrec, mt=mt: cmp_table(fnrec, mt + '(override)')) for tr, mt in (('PartialEq', 'ne'), ('PartialOrd', 'lt'), ('PartialOrd', 'le'), ('PartialOrd', 'gt'), ('PartialOrd', 'ge'))})
    if cfg == 'default':
        chk.floor('confidence-api', n, 17)
    chk.rules.append('fclass: constructors/conversions on every cell of the IEEE partition of the level at the compared constants')
    chk.rules.append('table: accessor / flipped / partial_cmp / eq decision tables over the three public variants')
    chk.notes.append('variants and payload are pub: Confidence::TwoSided(2.0) type-checks; the quantifier is over constructors and conversions')


def is_invalid_level(facts, e, payload):
    """e is CIError::InvalidConfidenceLevel(payload) (public variant name)."""
    if e[0] != 'adt':
        return False
    adt = facts.adts.get(e[1])
    if adt is None:
        return False
    return adt['variants'][e[2]]['name'] == 'InvalidConfidenceLevel' and e[3] == (payload,)
