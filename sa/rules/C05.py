"""C05 - geometric / harmonic CIs are the back-transformed arithmetic CIs.

D1 append: x <= 0 => Err(NonPositiveValue(x)) with NO write to the state on that path;
   otherwise the wrapped arithmetic state receives ln x (geometric) / 1/x (harmonic).
D2 Geometric::ci_mean(c) = exp of the bounds of the wrapped state's ci_mean(c), kind kept.
D3 Harmonic::ci_mean(c): the wrapped state is asked for c.flipped(); lo = 1/high, hi = 1/low,
   result kind is that of c (upper <- reciprocal of the lower-kind bound).  Well-formedness of
   the two-sided result needs the reciprocal-space bounds to be strictly positive (statement).
D4 sample_mean = exp(S1/n) / 1/(S1/n); sample_sem = G * sem / H^2 * sem with sem the wrapped
   state's own Arithmetic::sample_sem (sibling identity of normal forms).
U: H <= G <= A (AM-GM; can fail by an ulp), rounding."""
from fractions import Fraction

from .. import terms as T
from ..folds import find_ariths, step_increment, is_increment
from ..ivl import IvlModel
from ..sqrtdom import check_paths as check_sqrt_domain
from ..meanci import ConfModel, KINDS, F0, F1, unwrap_ok, V, V_RANGE, s2_from_variance
from ..nf import NotReal
from ..realmode import Domain, prune
from ..statsmodel import StatsModel, by_ref
from ..symex import Summarizer, Unsupported
from ..types import RESULT
from .C02 import err_variant
from ..degree import max_degree
from .C03 import RegionCheck, monotone_in

PID = 'C05'
L, X = T.sym('L'), T.sym('x')
S1, S2, N = T.sym('S1'), T.sym('S2'), T.sym('n')
FLIP = {'two': 'two', 'upper': 'lower', 'lower': 'upper'}


def ok(v):
    return ('adt', RESULT, 0, (v,))


def err(v):
    return ('adt', RESULT, 1, (v,))


def whole_program(chk, facts, nf_, key, where, clabel, tname, kind, kname, inner_kind):
    """Non-modular form of D2 / D3: on both the Student-t and the normal branch, the finite bounds of the wrapper are
    exp / reciprocal (ends exchanged) of the finite bounds of the arithmetic producer run on the wrapped state with
    the (flipped, for harmonic) kind."""
    from ..producers import Producers
    pr = Producers(facts)
    which = tname.lower()
    probs = []
    try:
        got = pr.mean_like(which, kind, L)
        ref = pr.mean_like('arithmetic', inner_kind, L)
        for below in (True, False):
            br = 't' if below else 'normal'
            gk, glo, ghi = got[below]
            rk, rlo, rhi = ref[below]
            if gk != kind:
                probs.append('%s branch: result kind %s for %s confidence' % (br, gk, kname))
                continue
            if tname == 'Geometric':
                wlo = T.op('exp', rlo) if not isinstance(rlo, int) else None
                whi = T.op('exp', rhi) if not isinstance(rhi, int) else None
            else:
                one = ('op', 'one', ())
                wlo = T.op('div', one, rhi) if not isinstance(rhi, int) else None
                whi = T.op('div', one, rlo) if not isinstance(rlo, int) else None
            for nm, g, w in (('lower', glo, wlo), ('upper', ghi, whi)):
                if isinstance(g, int) and w is None:
                    continue
                if isinstance(g, int) or w is None:
                    probs.append('%s branch: %s bound present on one side only' % (br, nm))
                elif not pr.nf.term_equal(g, w):
                    probs.append('%s branch: %s bound is %s, expected the back-transform %s' % (br, nm, T.show(g)[:110], T.show(w)[:110]))
    except (Unsupported, NotReal) as e:
        chk.ob(key, 'E4 whole-program', clabel, None, 'undecided: %s' % e, where)
        return
    chk.ob(key, 'E4 whole-program', '%s(%s) is the back-transform of the arithmetic interval of the wrapped state (inlined comparison; the wrapper does not call Arithmetic::ci_mean)' % (clabel, kname),
           not probs, '; '.join(probs[:2]), where)


def run(chk, ctx):
    for cfg in ctx.configs():
        run_cfg(chk, ctx.facts(cfg), cfg)


def run_cfg(chk, facts, cfg):
    sfx = '' if cfg == 'default' else '[%s]' % cfg
    sm = StatsModel(facts)
    im = IvlModel(facts)
    cm = ConfModel(facts)
    if not chk.anchor('state layouts' + sfx, sm if sm.ok() else None):
        chk.notes.extend(sm.problems)
        return
    if not chk.anchor('Interval / Confidence models' + sfx, im if (im.ok() and cm.ok) else None):
        return
    nf = sm.nf
    ap = sm.arith['path']
    a_ci_mean = facts.inherent(ap, 'ci_mean')
    a_sem = facts.inherent(ap, 'sample_sem')
    if not (chk.anchor('Arithmetic::ci_mean' + sfx, a_ci_mean) and chk.anchor('Arithmetic::sample_sem' + sfx, a_sem)):
        return
    inner = sm.arith_state(S1, S2, N)
    cnt = {'guards': 0, 'kinds': 0, 'stats': 0}
    vk = {v: k for k, (v_, ) in ()}  # placeholder
    kind_of_variant = {cm.vidx[name]: k for k, name in KINDS}

    def ivl(kind, lo, hi):
        spec = im.kinds[kind]
        if kind == 'two':
            f = [None, None]
            f[spec[1]] = lo
            f[spec[2]] = hi
            return ('adt', im.path, spec[0], tuple(f))
        return ('adt', im.path, spec[0], (lo if kind == 'upper' else hi,))

    for tname, fwd, label in (('Geometric', lambda t: T.op('ln', t), 'ln x'), ('Harmonic', lambda t: T.op('div', ('op', 'one', ()), t), '1/x')):
        adt = sm.adt(tname)
        if not chk.anchor(tname + sfx, adt):
            continue
        tp = adt['path']
        try:
            state = sm.wrapper_state(adt, inner)
        except Unsupported as e:
            chk.ob('%s:%s-layout%s' % (PID, tname, sfx), 'layout', '%s wraps one statistics state (of the transformed observations)' % tname, False, str(e), adt['span'][0])
            continue
        # ---- D1 append (inherent and trait form)
        for alabel, fn in (('%s::append' % tname, facts.inherent(tp, 'append')), ('StatisticsOps::append for %s' % tname, facts.trait_method(sm.ops_trait, tp, 'append'))):
            if not chk.anchor(alabel + sfx, fn):
                continue
            where = facts.loc(fn['id'])
            key = '%s:%s%s' % (PID, alabel, sfx)
            try:
                sx = Summarizer(facts, assume_no_overflow=True)
                paths = sx.summarize(fn['id'], args=[by_ref(state), None], arg_names=['self', 'x'])
                chk.saw(facts, fn, paths=len(paths))
                rc = RegionCheck(chk, facts, key, where, '%s: a non-positive value is rejected with NonPositiveValue and leaves the state unchanged; otherwise %s is accumulated' % (alabel, label))

                def e_rej(p, r):
                    if err_variant(facts, p.ret) != 'NonPositiveValue':
                        return 'outcome %s for a non-positive value' % (err_variant(facts, p.ret) or p.outcome,)
                    if p.effects.get('self') != state:
                        return 'the state is modified on the rejecting path'
                    pay = p.ret[3][0][3][0]
                    okp = pay in (T.op('f2f', X), X) or (pay[0] == 'op' and pay[1] == 'f2f' and pay[2][0] == X)
                    return None if okp else 'error carries %s, not the value' % T.show(pay)[:60]

                def e_acc(p, r):
                    if not (p.is_ret() and unwrap_ok(p.ret) is not None):
                        return 'a positive value is not accepted: %s' % (err_variant(facts, p.ret) or p.outcome,)
                    post = find_ariths(sm, p.effects['self'])
                    d, pr = step_increment(sm, inner, post[0][1])
                    if pr:
                        return pr[0]
                    return None if is_increment(sm, d, fwd(X)) else 'the wrapped state does not receive %s' % label
                inf = None
                rc.region('x <= 0', paths, Domain(nf, {'x': (inf, Fraction(0), True, False)}), e_rej)
                rc.region('x > 0', paths, Domain(nf, {'x': (Fraction(0), inf, True, True)}), e_acc)
                rc.done(sample={'fn': alabel})
                # the statement names -inf among the non-positive values: decided on the IEEE class (the real-mode regions
                # above take every value for finite)
                from ..absint import Env, const as av_const, feasible as av_feasible
                env_ = Env()
                env_.ref[X] = av_const('-inf')
                probs_ = []
                nfeas_ = 0
                for p_ in paths:
                    if av_feasible(p_.guard, env_) is None:
                        continue
                    nfeas_ += 1
                    pr_ = e_rej(p_, [])
                    if pr_:
                        probs_.append(pr_)
                chk.ob(key + ':neg-inf', 'E6 IEEE class', '%s rejects -inf with NonPositiveValue(-inf) and leaves the state unchanged' % alabel,
                       bool(nfeas_) and not probs_, '; '.join(sorted(set(probs_))[:2]) or ('no feasible path' if not nfeas_ else ''), where)
                cnt['guards'] += 1
            except (Unsupported, NotReal) as e:
                chk.ob(key, 'E3-regions', alabel, None, 'undecided: %s' % e, where)

        # ---- D2/D3 ci_mean with the wrapped state's ci_mean as a stub (contract: C01)
        for clabel, fn in (('%s::ci_mean' % tname, facts.inherent(tp, 'ci_mean')), ('StatisticsOps::ci_mean for %s' % tname, facts.trait_method(sm.ops_trait, tp, 'ci_mean'))):
            if not chk.anchor(clabel + sfx, fn):
                continue
            where = facts.loc(fn['id'])
            for kind, kname in KINDS:
                key = '%s:%s:%s%s' % (PID, clabel, kname, sfx)
                ILO, W, IERR = T.sym('ilo'), T.sym('w'), T.sym('ierr')
                IHI = T.op('add', ILO, W)

                def stub(sx_, st, args, ty):
                    conf = args[1]
                    k = kind_of_variant.get(conf[2]) if conf[0] == 'adt' else None
                    if k is None:
                        return [T.sym('res')]
                    return [ok(ivl(k, ILO, IHI)), err(IERR)]
                try:
                    sx = Summarizer(facts, assume_no_overflow=True)
                    sx.stubs[a_ci_mean['id']] = stub
                    conf = cm.value(kind, L)
                    paths = sx.summarize(fn['id'], args=[by_ref(state), conf], arg_names=['self', 'confidence'])
                    chk.saw(facts, fn, paths=len(paths))
                except Unsupported as e:
                    chk.ob(key, 'E3-regions', clabel, None, 'undecided: %s' % e, where)
                    continue
                want_inner_kind = kind if tname == 'Geometric' else FLIP[kind]
                if not any(e[0] == 'stub' for p_ in paths for e in p_.events):
                    # the wrapper does not go through Arithmetic::ci_mean (an extracted helper, a shared kernel ...):
                    # compare the fully inlined bounds with the back-transform of the fully inlined arithmetic bounds
                    whole_program(chk, facts, nf, key, where, clabel, tname, kind, kname, want_inner_kind)
                    if 'Ops' not in clabel:
                        cnt['kinds'] += 1
                    continue
                rc = RegionCheck(chk, facts, key, where, '%s(%s) is the back-transform of the wrapped arithmetic interval' % (clabel, kname))

                def stub_of(p):
                    evs = [e for e in p.events if e[0] == 'stub']
                    return evs[0] if evs else None

                def req(p):
                    ev = stub_of(p)
                    if ev is None:
                        return 'the wrapped state is not consulted'
                    a = ev[2]
                    st_arg = a[0][2][0] if a[0][0] == 'op' and a[0][1] == 'ref' else a[0]
                    want_conf = cm.value(want_inner_kind, L)
                    if st_arg != inner:
                        return 'ci_mean is asked of another state'
                    if a[1] != want_conf:
                        return 'the wrapped interval is requested with %s instead of %s' % (T.show(a[1]), T.show(want_conf))
                    return None

                def tr(t):
                    return T.op('exp', t) if tname == 'Geometric' else T.op('div', ('op', 'one', ()), t)

                def order_literal(atom, pol):
                    if tname == 'Geometric' and atom[0] == 'op' and atom[1] == 'lt' and pol:
                        a, b = atom[2]
                        if T.subst(b, {ILO: IHI}) == a and monotone_in(b, ILO):
                            return False
                    return None

                def e_ok(p, r):
                    q = req(p)
                    if q:
                        return q
                    if not p.is_ret() or unwrap_ok(p.ret) is None:
                        return 'outcome %s' % (err_variant(facts, p.ret) or p.outcome,)
                    dec = im.decode(unwrap_ok(p.ret))
                    if dec is None or dec[0] != kind:
                        return 'returns %s for %s confidence' % (T.show(p.ret)[:100], kname)
                    _, lo, hi = dec
                    if tname == 'Geometric':
                        wlo, whi = tr(ILO), tr(IHI)
                    else:
                        wlo, whi = tr(IHI), tr(ILO)
                    if want_inner_kind == 'two':
                        pass
                    try:
                        if kind in ('two', 'upper') and not nf.term_equal(lo, wlo):
                            return 'lower bound is %s, expected %s' % (T.show(lo)[:100], T.show(wlo))
                        if kind in ('two', 'lower') and not nf.term_equal(hi, whi):
                            return 'upper bound is %s, expected %s' % (T.show(hi)[:100], T.show(whi))
                    except NotReal as e:
                        return str(e)
                    for atom, pol in r:
                        if order_literal(atom, not pol) is not False:
                            return 'undecided guard %s' % T.show(atom)[:100]
                    return None
                # inner interval bounds: ilo the (finite) lower one, w >= 0 the width; for the harmonic
                # mean the statement's proviso "reciprocal-space bound strictly positive" is the domain
                rng = {'L': (Fraction(0), Fraction(1), True, True), 'w': (Fraction(0), None, False, True)}
                if tname == 'Harmonic':
                    rng['ilo'] = (Fraction(0), None, True, True)
                # one-sided inner intervals only have one bound: identify ihi with the symbol used
                dom = Domain(nf, rng)
                rc.region('Ok', paths, dom, e_ok, select=lambda p: stub_of(p) is not None and stub_of(p)[3][2] == 0, extra_literal=order_literal)
                rc.region('Err', paths, dom, lambda p, r: req(p) or (None if (p.is_ret() and p.ret == err(IERR)) else 'error of the wrapped state not propagated unchanged'),
                          select=lambda p: stub_of(p) is not None and stub_of(p)[3][2] == 1)
                if tname == 'Harmonic':
                    # outside the proviso: when the reciprocal-space bound that is inverted is not strictly positive, its
                    # reciprocal does not bound the harmonic mean - no interval may be returned (C10: the interval would
                    # not contain the estimate; C11: it can be inverted)
                    used_lo = kind in ('two', 'lower')      # the requested upper bound is 1 / (inner lower bound)
                    rng2 = {'L': (Fraction(0), Fraction(1), True, True)}
                    if used_lo:
                        rng2['ilo'] = (None, Fraction(0), True, False)
                        rng2['w'] = (Fraction(0), None, False, True)
                    else:
                        rng2['ilo'] = (None, Fraction(0), True, False)
                        rng2['w'] = (Fraction(0), Fraction(0), False, False)
                    def e_out(p, r):
                        if p.is_ret() and unwrap_ok(p.ret) is not None:
                            return 'returns %s although the reciprocal-space bound it inverts is not positive' % T.show(unwrap_ok(p.ret))[:90]
                        return None
                    rc2 = RegionCheck(chk, facts, key + ':outside-proviso', where, '%s(%s) returns no interval when the reciprocal-space bound it would invert is not positive' % (clabel, kname))
                    rc2.region('bound <= 0', paths, Domain(nf, rng2), e_out, select=lambda p: stub_of(p) is not None and stub_of(p)[3][2] == 0)
                    rc2.done(sample={'fn': clabel, 'kind': kname})
                rc.done(sample={'fn': clabel, 'kind': kname})
                if 'Ops' not in clabel:
                    cnt['kinds'] += 1

        # ---- D4 statistics
        dom = Domain(nf, {'n': (Fraction(2), None, False, True), 'v': V_RANGE})
        inner_v = sm.arith_state(S1, s2_from_variance(S1, V, N), N)   # variance-parametrised (a sign guard on the variance is decidable)
        state_v = sm.wrapper_state(adt, inner_v)
        mean_a = T.op('div', S1, T.op('i2f', N))
        want_mean = T.op('exp', mean_a) if tname == 'Geometric' else T.op('div', F1, mean_a)
        for sname in ('sample_mean', 'sample_sem'):
            fn = facts.inherent(tp, sname)
            if not chk.anchor('%s::%s%s' % (tname, sname, sfx), fn):
                continue
            where = facts.loc(fn['id'])
            key = '%s:%s::%s%s' % (PID, tname, sname, sfx)
            try:
                sx = Summarizer(facts, assume_no_overflow=True)
                paths = sx.summarize(fn['id'], args=[by_ref(state_v)], arg_names=['self'])
                chk.saw(facts, fn, paths=len(paths))
                if sname == 'sample_sem':
                    check_sqrt_domain(chk, key, where, paths, '%s::sample_sem' % tname, cnt)
                feas = prune(paths, dom)
                if len(feas) != 1 or not feas[0][0].is_ret() or feas[0][1]:
                    chk.ob(key, 'E4', sname, None, 'undecided: %d feasible paths' % len(feas), where)
                    continue
                got = feas[0][0].ret
                if sname == 'sample_mean':
                    want = want_mean
                else:
                    sx2 = Summarizer(facts, assume_no_overflow=True)
                    p2 = prune(sx2.summarize(a_sem['id'], args=[by_ref(inner_v)], arg_names=['self']), dom)
                    if len(p2) != 1 or not p2[0][0].is_ret():
                        chk.ob(key, 'E4', sname, None, 'undecided: Arithmetic::sample_sem has %d feasible paths' % len(p2), where)
                        continue
                    sem = p2[0][0].ret
                    want = T.op('mul', want_mean, sem) if tname == 'Geometric' else T.op('mul', T.op('mul', want_mean, want_mean), sem)
                good = nf.term_equal(got, want)
                # dynamic range: equal over the reals is not enough if an intermediate of the code has a higher
                # scaling degree in the data than any intermediate of the documented form (it then overflows /
                # underflows for data whose documented result is an ordinary number, e.g. (H*H)^2 * var under a sqrt)
                if good:
                    degs = ({'S1': Fraction(-1), 'S2': Fraction(-2), 'v': Fraction(-2), 'n': Fraction(0)} if tname == 'Harmonic' else {'S1': None, 'S2': None, 'v': None, 'n': Fraction(0)})
                    dg, dw = max_degree(got, degs), max_degree(want, degs)
                    okd = dg is not None and dw is not None and dg <= dw
                    chk.ob(key + ':range', 'E9 scaling degree', '%s::%s: no intermediate value scales with a higher power of the data than in the documented form (degree %s vs %s)' % (tname, sname, dg, dw),
                           okd, '' if okd else 'the code forms an intermediate of scaling degree %s in the data; the documented form stays within degree %s' % (dg, dw), where)
                chk.ob(key, 'E4', '%s::%s is %s' % (tname, sname, ('exp(mean of logs)' if tname == 'Geometric' else '1/(mean of reciprocals)') if sname == 'sample_mean' else
                                                     ('G * se(ln x)' if tname == 'Geometric' else 'H^2 * se(1/x)') + ' with se the wrapped state\'s own standard error'),
                       good, '' if good else 'code: %s' % T.show(got)[:200], where, sample={'fn': '%s::%s' % (tname, sname)})
                cnt['stats'] += 1
            except (Unsupported, NotReal) as e:
                chk.ob(key, 'E4', sname, None, 'undecided: %s' % e, where)
    if cfg == 'default':
        chk.floor('positivity-guards', cnt['guards'], 2)
        chk.floor('producers-x-kinds', cnt['kinds'], 6)
        chk.floor('statistics', cnt['stats'], 4)
    chk.rules.append('E3-regions with the wrapped Arithmetic::ci_mean as a stub (contract: C01); E4 sibling identities for the statistics')
    chk.notes.append('harmonic <= geometric <= arithmetic (AM-GM) is a consequence of D4 over the reals and can fail by an ulp on near-constant data: not decided')


ASSUMPTIONS = ['floats as reals; n >= 2; level in (0,1)', 'harmonic two-sided well-formedness on the statement\'s proviso: reciprocal-space lower bound > 0']
