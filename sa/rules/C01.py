"""C01 - arithmetic-mean CI is the Student-t interval of the exact sample statistics.

Real-number semantics (floats as reals, overflow asserts assumed, data finite, n >= 2,
level in (0,1)); decided by formula identity of the MIR-derived summaries with the statement.
D1 accumulation: Default is (0,0,0); append adds (x, x^2, 1) (compensation real-invariant 0);
   every front-end loop is a fold of append over the data visiting each element once.
D2 sample_mean / sample_variance / sample_std_dev are S1/n, (S2 - S1^2/n)/(n-1), sqrt of it.
D3 ci_mean: for each kind, t branch below a constant threshold ~1e5 on n-1, normal branch
   above, bounds mean -/+ c * s/sqrt(n), c = inverse_cdf(StudentsT(0,1,n-1) | Normal(0,1), q),
   q = (1+L)/2 | L | L, kind -> bound selection.
D4 one-shot ci(data) == ci_mean(fold(data)) for the inherent, StatisticsOps and MeanCI forms.
U: rounding-error magnitude / conditioning; accuracy of statrs' quantile functions."""
from fractions import Fraction

from .. import terms as T
from ..ivl import IvlModel
from ..meanci import ConfModel, KINDS, check_mean_interval, F0, F1, unwrap_ok
from ..nf import NotReal
from ..realmode import Domain, prune, quantile_hook
from ..sqrtdom import check_paths as check_sqrt_domain
from ..statsmodel import StatsModel, by_ref, ZERO
from ..symex import Summarizer, Unsupported
from ..types import RESULT

PID = 'C01'
S1, S2, N, L, X = T.sym('S1'), T.sym('S2'), T.sym('n'), T.sym('L'), T.sym('x')
NF_N = T.op('i2f', N)
# Statistics and intervals are decided on states parametrised by (S1, v, n) with S2 = (n-1) v + S1^2/n: a bijection with
# (S1, S2) for n >= 2, and v >= 0 is Cauchy-Schwarz for real data - so a guard on the sign of the variance is decidable.
V = T.sym('v')
S2V = T.op('add', T.op('mul', T.op('sub', NF_N, T.mk_flt(Fraction(1))), V), T.op('div', T.op('mul', S1, S1), NF_N))


def refs():
    mean = T.op('div', S1, NF_N)
    # written the way today's code scales: S2 - mean*S1 keeps every intermediate within (data^2, n^1); the textbook
    # S2 - S1^2/n is the same real number but squares the *sum* (data^2, n^2), which overflows n times earlier - with the
    # zero clamp of the variance that is a silently collapsed interval (seeds C01-k / C16-k).  The reference fixes the
    # dynamic range the growth-order rule compares with; the identity itself is insensitive to the form.
    var = T.op('div', T.op('sub', S2V, T.op('mul', mean, S1)), T.op('sub', NF_N, F1))
    sd = T.op('sqrt', var)
    se = T.op('div', sd, T.op('sqrt', NF_N))
    nu = T.op('sub', NF_N, F1)
    return mean, var, sd, se, nu


def domain(sm):
    d = Domain(sm.nf, {'n': (Fraction(2), None, False, True), 'L': (Fraction(0), Fraction(1), True, True), 'v': (Fraction(0), None, False, True)})
    d.hooks.append(quantile_hook())
    return d


def check_fold(chk, key, where, sm, sx, rec, state_pred=None):
    """Loop record is a fold of Arithmetic::append over one iterator (base + step)."""
    nf = sm.nf
    ap = sm.arith['path']
    cells = [c for c, v in rec['cell_havoc'].items() if v[0] == 'adt' and v[1] == ap]
    if len(cells) != 1:
        chk.ob(key, 'T1-fold', 'front-end loop carries one Arithmetic state', None, 'undecided: %d Arithmetic states carried by the loop at %s' % (len(cells), rec['where']), where)
        return None
    c = cells[0]
    init, hav = rec['cell_init'][c], rec['cell_havoc'][c]
    probs = []
    try:
        a0 = sm.alpha(init)
        if not (nf.is_zero(nf.of_term(a0[0])) and nf.is_zero(nf.of_term(a0[1])) and a0[2] == T.mk_int(0)):
            probs.append('initial state is not the empty state: %s' % T.show(init)[:120])
        if any(not nf.is_zero(nf.of_term(x)) for x in sm.comps(init)):
            probs.append('initial compensation is not 0')
        if not rec['steps']:
            probs.append('no continuing path through the loop body')
        for st in rec['steps']:
            nexts = [e for e in st['events'] if e[0] == 'next']
            if len(nexts) != 1 or nexts[0][2] is None:
                probs.append('an iteration does not consume exactly one element (next events: %d)' % len(nexts))
                continue
            e = nexts[0][2]
            # inductive invariant "compensation = 0 over the reals": base checked above, step here
            post = T.subst(st['cell_post'][c], {x: ZERO for x in sm.comps(hav)})
            if any(not nf.is_zero(nf.of_term(x)) for x in sm.comps(post)):
                probs.append('compensation is not real-invariant 0 after a step')
            ah, apost = sm.alpha(hav), sm.alpha(post)
            exp = (T.op('add', ah[0], e), T.op('add', ah[1], T.op('mul', e, e)), T.op('add', ah[2], T.mk_int(1)))
            if not (nf.term_equal(apost[0], exp[0]) and nf.term_equal(apost[1], exp[1]) and nf.term_equal(apost[2], exp[2])):
                probs.append('step is not (S1,S2,n) += (x, x^2, 1): post state %s' % [T.show(x)[:80] for x in apost])
            if st['unknowns']:
                probs.append('unmodelled callee in the loop body: %s' % st['unknowns'][0][0])
        for ev in rec['exit_events']:
            nexts = [e for e in ev if e[0] == 'next']
            if len(nexts) != 1 or nexts[0][2] is not None:
                probs.append('the loop can be left other than by exhausting the iterator')
        if rec['n_terms']:
            probs.append('%d paths terminate inside the loop' % rec['n_terms'])
    except (Unsupported, NotReal) as e:
        chk.ob(key, 'T1-fold', 'front-end loop is a fold of append', None, 'undecided: %s' % e, where)
        return None
    chk.ob(key, 'T1-fold', 'the front-end loop at %s is a fold of append over the data: empty start, one element per iteration, (S1,S2,n) += (x,x^2,1), left only when the data is exhausted' % rec['where'],
           not probs, '; '.join(probs[:3]), where, sample={'loop': rec['where'], 'steps': len(rec['steps']), 'exits': rec['n_exits']})
    chk.analysed['loops'] += 1
    if probs:
        return None
    # substitution: havocked state -> (S1, S2, n)
    sub = {}
    hv = hav
    sub[hv[3][sm.a_s1][3][sm.k_sum]] = S1
    sub[hv[3][sm.a_s2][3][sm.k_sum]] = S2V
    sub[hv[3][sm.a_n]] = N
    for x in sm.comps(hv):
        sub[x] = ZERO
    return sub


def run(chk, ctx):
    for cfg in ctx.configs():
        run_cfg(chk, ctx.facts(cfg), cfg)


def run_cfg(chk, facts, cfg):
    sfx = '' if cfg == 'default' else '[%s]' % cfg
    sm = StatsModel(facts)
    im = IvlModel(facts)
    cm = ConfModel(facts)
    if not chk.anchor('state layouts (KahanSum, Arithmetic via public API)' + sfx, sm if sm.ok() else None):
        chk.notes.extend(sm.problems)
        return
    if not chk.anchor('Interval / Confidence models' + sfx, (im if im.ok() and cm.ok else None)):
        return
    nf = sm.nf
    ap = sm.arith['path']
    mean, var, sd, se, nu = refs()
    dom = domain(sm)
    state = sm.arith_state(S1, S2V, N)
    counts = {'producers': 0, 'forwarders': 0, 'folds': 0, 'updates': 0}

    # ---- D1 base + step
    where = facts.loc(sm.arith_default['id'])
    a0 = sm.alpha(sm.arith_default_value)
    chk.ob('%s:default%s' % (PID, sfx), 'E4', 'the empty state has S1 = S2 = 0, n = 0 and zero compensation',
           nf.is_zero(nf.of_term(a0[0])) and nf.is_zero(nf.of_term(a0[1])) and a0[2] == T.mk_int(0) and all(nf.is_zero(nf.of_term(x)) for x in sm.comps(sm.arith_default_value)),
           T.show(sm.arith_default_value), where)
    chk.saw(facts, sm.arith_default)
    for label, fn in (('append(trait)', sm.arith_append),):
        where = facts.loc(fn['id'])
        c1, c2 = T.sym('c1'), T.sym('c2')
        st_c = list(state[3])
        st_c[sm.a_s1] = sm.kahan_value(S1, [c1])
        st_c[sm.a_s2] = sm.kahan_value(S2, [c2])
        st_c = ('adt', ap, 0, tuple(st_c))
        try:
            sx, paths = sm.summ(fn, ['self', 'x'], args=[by_ref(st_c), None])
            chk.saw(facts, fn, paths=len(paths))
            oks = [p for p in paths if p.is_ret()]
            probs = []
            if not oks or len(oks) != len(paths):
                probs.append('%d paths (%d returning)' % (len(paths), len(oks)))
            for p in oks:
                if unwrap_ok(p.ret) is None:
                    probs.append('does not return Ok(())')
                post = p.effects.get('self')
                # inductive invariant c = 0 (base: the empty state): c = 0 must give c' = 0
                post0 = T.subst(post, {c1: ZERO, c2: ZERO})
                if any(not nf.is_zero(nf.of_term(x)) for x in sm.comps(post0)):
                    probs.append('new compensation is not 0 over the reals')
                a = sm.alpha(post0, comp_zero=False)
                for got, want, nm in ((a[0], T.op('add', S1, X), 'S1 + x'), (a[1], T.op('add', S2, T.op('mul', X, X)), 'S2 + x^2'), (a[2], T.op('add', N, T.mk_int(1)), 'n + 1')):
                    if not nf.term_equal(got, want):
                        probs.append('%s expected, got %s' % (nm, T.show(got)[:100]))
                    else:
                        counts['updates'] += 1
            chk.ob('%s:append%s' % (PID, sfx), 'E3+E4', 'append(x) maps (S1,S2,n) to (S1+x, S2+x^2, n+1) and keeps the compensation real-invariant 0',
                   not probs, '; '.join(probs), where, sample={'fn': 'append', 'post': T.show(oks[0].effects.get('self'))[:300] if oks else None})
        except (Unsupported, NotReal) as e:
            chk.ob('%s:append%s' % (PID, sfx), 'E3+E4', 'append step', None, str(e), where)

    # ---- D2 statistics
    for name, ref in (('sample_mean', mean), ('sample_variance', var), ('sample_std_dev', sd)):
        fn = facts.inherent(ap, name)
        if not chk.anchor('Arithmetic::%s%s' % (name, sfx), fn):
            continue
        where = facts.loc(fn['id'])
        try:
            sx, paths = sm.summ(fn, ['self'], args=[by_ref(state)])
            chk.saw(facts, fn, paths=len(paths))
            if name == 'sample_std_dev':
                check_sqrt_domain(chk, '%s:%s%s' % (PID, name, sfx), where, paths, 'Arithmetic::sample_std_dev', counts)
            feas = prune(paths, dom)
            good = len(feas) == 1 and feas[0][0].is_ret() and not feas[0][1] and nf.term_equal(feas[0][0].ret, ref)
            chk.ob('%s:%s%s' % (PID, name, sfx), 'E4', '%s == %s on n >= 2' % (name, T.show(ref)), good,
                   '' if good else 'paths: %s' % [(T.show(p.ret)[:160] if p.is_ret() else p.outcome, [T.show(a) for a, _ in r]) for p, r in feas][:2], where,
                   sample={'fn': name, 'code': T.show(feas[0][0].ret)[:200] if feas and feas[0][0].is_ret() else None, 'reference': T.show(ref)})
        except (Unsupported, NotReal) as e:
            chk.ob('%s:%s%s' % (PID, name, sfx), 'E4', name, None, str(e), where)

    # ---- D3 ci_mean (inherent and trait-forwarded)
    entries = [('Arithmetic::ci_mean', facts.inherent(ap, 'ci_mean')), ('StatisticsOps::ci_mean', facts.trait_method(sm.ops_trait, ap, 'ci_mean'))]
    for label, fn in entries:
        if not chk.anchor(label + sfx, fn):
            continue
        where = facts.loc(fn['id'])
        counts['forwarders' if 'Ops' in label else 'producers'] += 1
        for kind, kname in KINDS:
            key = '%s:%s:%s%s' % (PID, label, kname, sfx)
            try:
                sx, paths = sm.summ(fn, ['self', 'confidence'], args=[by_ref(state), cm.value(kind, L)])
                chk.saw(facts, fn, paths=len(paths))
                check_sqrt_domain(chk, key, where, paths, '%s(%s)' % (label, kname), counts)
                check_mean_interval(chk, PID, key, where, sm, im, cm, paths, kind, L, mean, se, nu, dom,
                                    '%s(%s): bounds are mean -/+ c*s/sqrt(n) with c the t(n-1) quantile (normal above ~1e5) at q' % (label, kname), stat_atoms=[(S2V, 'S2')])
            except (Unsupported, NotReal) as e:
                chk.ob(key, 'E3+E4 formula', label, None, str(e), where)

    # ---- D1c + D4 one-shot front-ends
    mean_ci = [t['path'] for t in facts.raw['traits'] if t['path'].split('::')[-1] == 'MeanCI']
    entries = [('Arithmetic::ci', facts.inherent(ap, 'ci')), ('StatisticsOps::ci', facts.trait_method(sm.ops_trait, ap, 'ci'))]
    if mean_ci:
        entries.append(('MeanCI::ci', facts.trait_method(mean_ci[0], ap, 'ci')))
    for label, fn in entries:
        if not chk.anchor(label + sfx, fn):
            continue
        where = facts.loc(fn['id'])
        counts['forwarders'] += 1
        for kind, kname in KINDS:
            key = '%s:%s:%s%s' % (PID, label, kname, sfx)
            try:
                sx, paths = sm.summ(fn, ['confidence', 'data'], args=[cm.value(kind, L), None])
                chk.saw(facts, fn, paths=len(paths))
                check_sqrt_domain(chk, key, where, paths, '%s(%s)' % (label, kname), counts)
                if len(sx.loop_records) != 1:
                    chk.ob(key, 'T1-fold', label, None, 'undecided: %d loops on the way (expected the one fold over the data)' % len(sx.loop_records), where)
                    continue
                sub = check_fold(chk, key + ':fold', where, sm, sx, sx.loop_records[0])
                if sub is None:
                    continue
                counts['folds'] += 1
                check_mean_interval(chk, PID, key, where, sm, im, cm, paths, kind, L, mean, se, nu, dom,
                                    '%s(%s) == ci_mean of the folded state (same formula)' % (label, kname), subst=sub, stat_atoms=[(S2V, 'S2')])
            except (Unsupported, NotReal) as e:
                chk.ob(key, 'E3+E4 formula', label, None, str(e), where)
    # remaining forwarding methods of the StatisticsOps impl return their callee's result unchanged
    for name in ('sample_mean', 'sample_sem', 'sample_count'):
        tf = facts.trait_method(sm.ops_trait, ap, name)
        inf = facts.inherent(ap, name)
        if not (chk.anchor('StatisticsOps::%s%s' % (name, sfx), tf) and chk.anchor('Arithmetic::%s%s' % (name, sfx), inf)):
            continue
        counts['forwarders'] += 1
        try:
            _, p1 = sm.summ(tf, ['self'], args=[by_ref(state)])
            _, p2 = sm.summ(inf, ['self'], args=[by_ref(state)])
            chk.saw(facts, tf, paths=len(p1))
            r1 = sorted((repr(p.guard), repr(p.outcome), repr(p.ret)) for p in p1)
            r2 = sorted((repr(p.guard), repr(p.outcome), repr(p.ret)) for p in p2)
            chk.ob('%s:forward:%s%s' % (PID, name, sfx), 'E3', 'StatisticsOps::%s forwards to the inherent method unchanged' % name, r1 == r2, '', facts.loc(tf['id']))
        except Unsupported as e:
            chk.ob('%s:forward:%s%s' % (PID, name, sfx), 'E3', name, None, str(e), facts.loc(tf['id']))
    if cfg == 'default':
        chk.floor('producers', counts['producers'], 1)
        chk.floor('forwarding-methods', counts['forwarders'], 7)
        chk.floor('folds', counts['folds'], 3)
        chk.floor('accumulator-updates', counts['updates'], 3)
        chk.floor('square-roots-examined', counts.get('roots', 0), 1)
    chk.rules.append('E3+E4: path summaries pruned on the domain (sign certificates), bounds compared with the statement by rational-function normal form')
    chk.rules.append('sqrt-domain: every radicand on a producer path is sign-safe in floating point by shape or by a guard of the path (sa/sqrtdom.py)')
    chk.rules.append('T1-fold: loop = havoc + one symbolic iteration; base/step refinement to (S1,S2,n)')


ASSUMPTIONS = ['floats are treated as reals (rounding magnitude undecided, see DESIGN C01-U)', 'data finite, n >= 2, level in (0,1)',
               'usize overflow asserts assumed not to fire', 'inverse_cdf is the quantile function of the named distribution (C06-U)']
