"""C07 - interval predicates are exactly the set relations of the denoted closed sets.

Engine E5, exhaustive: contains / intersects / includes / is_included_in and the
RangeBounds view are compared with membership, non-empty intersection, superset and subset
of [lo,hi], [lo,+inf), (-inf,hi] on every (kind tuple x weak order of the bounds [x probe])."""
from .. import terms as T
from ..ivl import IvlModel, describe_env
from ..order import NEG_INF, POS_INF
from ..tables import table_check, kinds_str
from ..types import BOUND

PID = 'C07'
RANGE_BOUNDS = 'core::ops::RangeBounds'


def run(chk, ctx):
    for cfg in ctx.configs():
        facts = ctx.facts(cfg)
        run_cfg(chk, facts, cfg)


def run_cfg(chk, facts, cfg):
    m = IvlModel(facts)
    if not chk.anchor('Interval+constructors[%s]' % cfg, m if m.ok() else None):
        chk.notes.extend(m.problems)
        return
    sfx = '' if cfg == 'default' else '[%s]' % cfg
    n = 0
    from ..overrides import obligation as no_overrides

    def den(base, kind, env):
        return m.denote(base, kind, env)

    def member(kinds, env):
        return den('A', kinds[0], env)[0] <= env['x'] <= den('A', kinds[0], env)[1]
    no_overrides(chk, PID, facts, sfx, [m.path], 'interval predicates and the range view',
                 checkers={('RangeBounds', 'contains'): lambda fnrec: table_check(chk, PID, facts, m, fnrec, 'RangeBounds::contains(override)' + sfx, ['A'], ['x'], member)}, traits=('RangeBounds',),
                 shadow_known=('contains',))   # the inherent `contains` is decided below by the same table

    f = facts.inherent(m.path, 'contains')
    if chk.anchor('Interval::contains' + sfx, f):
        n += 1
        table_check(chk, PID, facts, m, f, 'contains' + sfx, ['A'], ['x'],
                    lambda kinds, env: den('A', kinds[0], env)[0] <= env['x'] <= den('A', kinds[0], env)[1])

    f = facts.inherent(m.path, 'intersects')
    if chk.anchor('Interval::intersects' + sfx, f):
        n += 1

        def ref_inter(kinds, env):
            a, b = den('A', kinds[0], env), den('B', kinds[1], env)
            return max(a[0], b[0]) <= min(a[1], b[1])
        table_check(chk, PID, facts, m, f, 'intersects' + sfx, ['A', 'B'], [], ref_inter)

    def ref_incl(kinds, env):
        a, b = den('A', kinds[0], env), den('B', kinds[1], env)
        return a[0] <= b[0] and b[1] <= a[1]
    f = facts.inherent(m.path, 'includes')
    if chk.anchor('Interval::includes' + sfx, f):
        n += 1
        table_check(chk, PID, facts, m, f, 'includes' + sfx, ['A', 'B'], [], ref_incl)
    f = facts.inherent(m.path, 'is_included_in')
    if chk.anchor('Interval::is_included_in' + sfx, f):
        n += 1
        def ref_incl_in(kinds, env):
            a, b = den('A', kinds[0], env), den('B', kinds[1], env)
            return b[0] <= a[0] and a[1] <= b[1]
        table_check(chk, PID, facts, m, f, 'is_included_in' + sfx, ['A', 'B'], [], ref_incl_in)

    # RangeBounds view: membership through (start_bound, end_bound) as std's
    # RangeBounds::contains defines it must equal membership in the denoted set.
    sb = facts.trait_method(RANGE_BOUNDS, m.path, 'start_bound')
    eb = facts.trait_method(RANGE_BOUNDS, m.path, 'end_bound')
    if chk.anchor('RangeBounds::start_bound' + sfx, sb) and chk.anchor('RangeBounds::end_bound' + sfx, eb):
        n += 2

        def dec_bound(side):
            def dec(v, env):
                # Bound<&T> -> ('incl'|'excl'|'unb', rank)
                if v[0] != 'adt' or v[1] != BOUND:
                    return ('?', v)
                return (('incl', 'excl', 'unb')[v[2]],) + tuple(v[3])
            return dec

        def ref_start(kinds, env):
            lo, hi = m.bounds('A', kinds[0])
            return ('incl', env[lo]) if lo else ('unb',)

        def ref_end(kinds, env):
            lo, hi = m.bounds('A', kinds[0])
            return ('incl', env[hi]) if hi else ('unb',)
        table_check(chk, PID, facts, m, sb, 'RangeBounds::start_bound' + sfx, ['A'], [], ref_start, decode=dec_bound('lo'))
        table_check(chk, PID, facts, m, eb, 'RangeBounds::end_bound' + sfx, ['A'], [], ref_end, decode=dec_bound('hi'))
    if cfg == 'default':
        chk.floor('predicates', n, 6)
    chk.rules.append('E5-table: exhaustive comparison of the MIR summary with the set semantics over (kinds x weak orders)')
