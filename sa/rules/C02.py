"""C02 - proportion CI is the Wilson score interval (and Wald variant) of the counts.

D1 domain tables (integer zones, exhaustive over the cells of the guard arrangement):
   ci_wilson: k > n => InvalidSuccesses; k < 2 => TooFewSuccesses; n-k < 2 => TooFewFailures;
   ci_z_normal: k > n => InvalidSuccesses; n*p < 10 => TooFewSuccesses; n*q < 10 => TooFewFailures
   (n*(k/n) is k over the reals, so the rule is "k >= 10 and n-k >= 10").
D2 formula: Ok bounds are centre -/+ span with centre = (k + z^2/2)/(n + z^2),
   span = z/(n+z^2) * sqrt(k(n-k)/n + z^2/4), z = inverse_cdf(Normal(0,1), q); independently,
   both vanish in the score polynomial (n+z^2)p^2 - (2k+z^2)p + k^2/n.  Wald: k/n -/+ z*sqrt(p q/n).
D3 kind table: two-sided [c-s, c+s]; upper [c-s, 1]; lower [0, c+s].
D4 front-ends: ci == ci_wilson; Stats::ci == ci(population, successes); ci_true / ci_if /
   FromIterator / extend / extend_if are folds (n,k) += (1, [success]) with the predicate's
   polarity part of the step; ci_wilson_ratio passes round(r*n) (not a truncation).
D5 is_significant(n,k) == n > 30 and k > 5 and n-k > 5.
D6 unit interval: every finite Wilson bound lies in [0,1] on the accepted domain (sign certificates over the
   reals, n = k + m, either sign of z for the one-sided kinds).
U: sub-ulp float effects."""
from fractions import Fraction

from .. import terms as T
from .. import fclass
from ..order import NotParametric
from ..ivl import IvlModel
from ..sqrtdom import check_paths as check_sqrt_domain
from ..meanci import ConfModel, KINDS, F0, F1, F2, NORMAL, crit, unwrap_ok, SubstPath, nonneg_crit, undefined_quotients
from ..nf import Ctx as NF, NotReal
from ..realmode import Domain, prune, quantile_hook
from ..statsmodel import by_ref
from ..symex import Summarizer, Unsupported
from ..types import RESULT
from ..exact import inexact_side
from ..zones import linearize, holds, box_bound, points, NotLinear, sat, lin

PID = 'C02'
N, K, L = T.sym('n'), T.sym('k'), T.sym('L')
FN, FK = T.op('i2f', N), T.op('i2f', K)


def err_variant(facts, v):
    if v is not None and v[0] == 'adt' and v[1] == RESULT and v[2] == 1:
        e = v[3][0]
        if e[0] == 'adt' and e[1] in facts.adts:
            name = facts.adts[e[1]]['variants'][e[2]]['name']
            inner = e[3][0] if e[3] and e[3][0][0] == 'adt' and e[3][0][1] in facts.adts else None
            if inner is not None:
                return name + '/' + facts.adts[inner[1]]['variants'][inner[2]]['name']
            return name
    return None


def summ(facts, fn, names, args):
    sx = Summarizer(facts, assume_no_overflow=True)
    return sx, sx.summarize(fn['id'], args=args, arg_names=names)


def mk_domain(nf):
    d = Domain(nf, {'L': (Fraction(0), Fraction(1), True, True), 'n': (Fraction(1), None, False, True), 'k': (Fraction(0), None, False, True)})
    d.hooks.append(quantile_hook())
    return d


def wilson_ref(z):
    z2 = T.op('mul', z, z)
    centre = T.op('div', T.op('add', FK, T.op('div', z2, F2)), T.op('add', FN, z2))
    q = T.op('add', T.op('div', T.op('mul', FK, T.op('sub', FN, FK)), FN), T.op('div', z2, T.mk_flt(Fraction(4))))
    span = T.op('mul', T.op('div', z, T.op('add', FN, z2)), T.op('sqrt', q))
    return centre, span


def wald_ref(z):
    p = T.op('div', FK, FN)
    span = T.op('mul', z, T.op('sqrt', T.op('div', T.op('mul', p, T.op('sub', F1, p)), FN)))
    return p, span


def score_poly(z, p):
    z2 = T.op('mul', z, z)
    return T.op('add', T.op('sub', T.op('mul', T.op('add', FN, z2), T.op('mul', p, p)), T.op('mul', T.op('add', T.op('mul', F2, FK), z2), p)),
                T.op('div', T.op('mul', FK, FK), FN))


def classify_region(method, pt):
    n, k = pt['n'], pt['k']
    if k > n:
        return 'InvalidSuccesses'
    lim = 2 if method == 'wilson' else 10
    if k < lim:
        return 'TooFewSuccesses'
    if n - k < lim:
        return 'TooFewFailures'
    return 'ok'


def producer(chk, facts, nf, im, cm, fn, method, label, sfx, subst=None, make_args=None, extra_ranges=None, drop_literal=None):
    """Domain table + formula + kind table for one producer entry point."""
    where = facts.loc(fn['id'])
    dom = mk_domain(nf)
    if extra_ranges:
        dom.ranges.update(extra_ranges)
    for kind, kname in KINDS:
        key = '%s:%s:%s%s' % (PID, label, kname, sfx)
        try:
            if make_args is not None:
                sx, paths, subst2 = make_args(kind)
                if paths is None:
                    continue
            else:
                sx, paths = summ(facts, fn, ['confidence', 'n', 'k'], [cm.value(kind, L), None, None])
                subst2 = None
            chk.saw(facts, fn, paths=len(paths))
            check_sqrt_domain(chk, key, where, paths, '%s(%s)' % (label, kname))
            if subst2:
                paths = [SubstPath(p, subst2) for p in paths]
            feas = prune(paths, dom)
        except (Unsupported, NotReal) as e:
            chk.ob(key, 'E3', label, None, 'undecided: %s' % e, where)
            continue
        z = crit(NORMAL, cm.quantile(kind, L))
        centre, span = wilson_ref(z) if method == 'wilson' else wald_ref(z)
        # split residual guards into integer-linear and other literals
        rows = []
        und = None
        inexact = set()
        for p, residual in feas:
            if p.unknowns:
                und = 'unmodelled callee %s' % p.unknowns[0][0]
                continue
            lins, other = [], []
            for atom, pol in residual:
                if drop_literal is not None and drop_literal(atom):
                    continue
                try:
                    lins.append(linearize(nf, atom, pol, ('n', 'k'), positive=('n',)))
                    # a literal that the table reads as an integer constraint must be *computed* exactly
                    bad_side = inexact_side(atom)
                    if bad_side is not None:
                        inexact.add('%s  (rounded operand: %s)' % (T.show(atom)[:90], T.show(bad_side)[:60]))
                except NotLinear:
                    other.append((atom, pol))
            rows.append((p, lins, other))
        if und:
            chk.ob(key + ':domain', 'zones', label, None, 'undecided: ' + und, where)
            continue
        lim = 2 if method == 'wilson' else 10
        regions = [
            ('InvalidSuccesses', [lin({'n': 1, 'k': -1}, 0, '<')]),                                            # k > n
            ('TooFewSuccesses', [lin({'k': 1, 'n': -1}, 0, '<='), lin({'k': 1}, -lim, '<')]),                # k <= n, k < lim
            ('TooFewFailures', [lin({'k': 1, 'n': -1}, 0, '<='), lin({'k': -1}, lim, '<='), lin({'n': 1, 'k': -1}, -lim, '<')]),
            ('ok', [lin({'k': -1}, lim, '<='), lin({'n': -1, 'k': 1}, lim, '<=')]),                           # k >= lim, n - k >= lim
        ]
        base = [lin({'n': -1}, 1, '<=')]   # n >= 1 (n = 0 is the degenerate input handled under C11)
        bad = None
        ncell = 0
        ok_rows = set()
        try:
            for want, rcons in regions:
                covered = False
                for i, (p, lins, other) in enumerate(rows):
                    if not sat(base + rcons + lins):
                        continue
                    covered = True
                    ncell += 1
                    ev = err_variant(facts, p.ret) if p.is_ret() else 'panic'
                    got = ev if ev in ('InvalidSuccesses', 'TooFewSuccesses', 'TooFewFailures') else ('panic' if p.is_panic() else 'ok')
                    if got == 'ok':
                        ok_rows.add(i)
                    if got != want and bad is None:
                        bad = 'in the region documented as %s some inputs give %s (path guard: %s)' % (want, got, [('' if pol else '!') + T.show(a)[:60] for a, pol in p.guard if a[0] != 'variant'][:4])
                if not covered and bad is None:
                    bad = 'no path covers the region documented as %s' % want
        except NotLinear as e:
            chk.ob(key + ':domain', 'zones', label, None, 'undecided: %s' % e, where)
            continue
        B = 'exact'
        chk.ob(key + ':domain', 'zones', '%s(%s) accepts exactly its documented domain (%d satisfiable path x region pairs, exact zone satisfiability)' % (label, kname, ncell),
               bad is None, bad or '', where, sample={'fn': label, 'kind': kname, 'cells': ncell, 'box': B})
        chk.ob(key + ':exact-guards', 'E9 exactness', '%s(%s): every domain guard is computed without rounding (counts compared as counts), so boundary counts are classified as the table says' % (label, kname),
               not inexact, '; '.join(sorted(inexact)[:2]), where)
        # formula + kind on the accepted region
        probs = []
        lohi = None
        okp = [rows[i] for i in sorted(ok_rows)]
        oks = [(p, other) for p, lins, other in okp if p.is_ret() and unwrap_ok(p.ret) is not None]
        if len(oks) != 1:
            probs.append('%d Ok paths on the accepted domain' % len(oks))
        else:
            p, other = oks[0]
            dec = im.decode(unwrap_ok(p.ret))
            if dec is None or dec[0] != 'two':
                probs.append('result is not a two-sided interval: %s' % T.show(p.ret)[:120])
            else:
                _, lo, hi = dec
                lohi = (lo, hi)
                exp_lo = T.op('sub', centre, span) if kind in ('two', 'upper') else F0
                exp_hi = T.op('add', centre, span) if kind in ('two', 'lower') else F1
                try:
                  with nonneg_crit(nf, z, kind == 'two'):
                    if not nf.term_equal(lo, exp_lo):
                        probs.append('lower bound is %s' % T.show(lo)[:200])
                    if not nf.term_equal(hi, exp_hi):
                        probs.append('upper bound is %s' % T.show(hi)[:200])
                    if method == 'wilson':
                        for b, nm in ((lo, 'lower'), (hi, 'upper')):
                            if (nm == 'lower' and kind == 'lower') or (nm == 'upper' and kind == 'upper'):
                                continue
                            if not nf.is_zero(nf.of_term(score_poly(z, b))):
                                probs.append('%s bound is not a root of the score equation' % nm)
                except NotReal as e:
                    probs.append('not a real formula: %s' % e)
                # residual guards: only the constructor's own rejection test of these bounds
                for atom, pol in other:
                    okr = atom[0] == 'op' and atom[1] == 'lt' and not pol and set(atom[2]) == {lo, hi} and kind != 'two'
                    if not okr:
                        probs.append('undecided guard on the Ok path: %s' % T.show(atom)[:160])
            for p2, lins, other in okp:
                if p2.is_ret() and unwrap_ok(p2.ret) is None:
                    ev = err_variant(facts, p2.ret)
                    if kind == 'two' or ev != 'IntervalError/InvalidBounds':
                        probs.append('error %s on the accepted domain' % ev)
                if p2.is_panic():
                    probs.append('panic on the accepted domain: %s' % (p2.outcome,))
        if not probs and oks and lohi is not None:
            undef = undefined_quotients(dom, list(lohi), strict=False)
            chk.ob(key + ':div-domain', 'E4 domain of definition', '%s(%s): every quotient the code forms on the accepted path has a denominator that is non-zero on the domain (the rational-function identity is an identity of values only there)' % (label, kname),
                   not undef, '' if not undef else 'the code divides by %s, which can vanish on the domain' % undef[0], where)
        if not probs and oks and lohi is not None and all('n' in T.syms_of(b) and 'k' in T.syms_of(b) for b in lohi if not T.is_const(b)):
            from ..asym import cancellations
            canc = cancellations(nf, [b for b in lohi if not T.is_const(b)], 'n')
            chk.ob(key + ':cancellation', 'leading-order analysis', '%s(%s): for a rare event (k fixed, n -> infinity) no bound is obtained as the difference of two intermediates whose leading terms cancel (the bound is of order k/n and must be accurate relative to itself, not to 1)' % (label, kname),
                   not canc, '' if not canc else 'leading-order cancellation at order n^%s in %s: the absolute rounding error of the operands becomes a relative error of the bound that grows like n/k' % (canc[0][1], canc[0][0]), where)
        chk.ob(key + ':formula', 'E4', '%s(%s): bounds are the %s formula of the statement with the %s kind table' % (label, kname, method, kname),
               not probs, '; '.join(probs[:3]), where,
               sample={'fn': label, 'kind': kname, 'centre': T.show(centre)[:120], 'span': T.show(span)[:160]})
        # integer arithmetic behind the formula: every overflow assertion that was assumed away on the Ok path
        # must be impossible on the accepted domain (n - k with k <= n is; a product of two counts is not)
        from ..overflow import undischarged
        ovp = []
        for p_, lins_, other_ in okp:
            if not (p_.is_ret() and unwrap_ok(p_.ret) is not None):
                continue
            for flag, wh in undischarged(p_):
                if flag[0] == 'op' and flag[1] == 'ovf_sub':
                    try:
                        bad_ = linearize(nf, T.op('lt', flag[2][0], flag[2][1]), True, ('n', 'k'), positive=('n',))
                        if not sat(base + regions[3][1] + lins_ + [bad_]):
                            continue
                    except NotLinear:
                        pass
                ovp.append('%s at %s' % (T.show(flag)[:80], wh))
        chk.ob(key + ':int-arith', 'zones', '%s(%s): no integer operation on the accepted path can overflow for admissible counts (else the value is not the real-arithmetic one)' % (label, kname),
               not ovp, '; '.join(sorted(set(ovp))[:3]), where)
        # "they lie in [0,1]": sign certificates for the code's own finite bounds over the accepted domain,
        # with n = k + m (m = failures), k >= lim, m >= lim, and the critical value of either sign for the
        # one-sided kinds (levels below 1/2) - decided over the reals by nf.decide_sign_sqrt
        if method == 'wilson' and len(oks) == 1 and lohi is not None:
            lo, hi = lohi
            unit_interval(chk, nf, key, where, label, kname, kind, z, lo, hi, lim)


def unit_interval(chk, nf, key, where, label, kname, kind, z, lo, hi, lim):
    from ..nf import decide_sign_sqrt
    M = T.sym('m')
    sub = {N: T.op('add', K, M)}
    probs = []
    try:
        zat = set(a for m_ in nf.of_term(z).num for a, e in m_)
        if len(zat) != 1:
            raise NotReal('critical value is not one atom')
        zat = zat.pop()
        saved = set(nf.nonneg)
        nf.nonneg.add('m')
        try:
            signs = [(Fraction(0), None, False, True)] if kind == 'two' else [(Fraction(0), None, False, True), (None, Fraction(0), True, False)]
            for zr in signs:
                rg = {'k': (Fraction(lim), None, False, True), 'm': (Fraction(lim), None, False, True), zat: zr}
                lo_, hi_ = nf.of_term(T.subst(lo, sub)), nf.of_term(T.subst(hi, sub))
                one = nf.of_term(F1)
                goals = []
                if kind in ('two', 'upper'):
                    goals += [('lower bound >= 0', lo_), ('lower bound <= 1', nf.sub(one, lo_))]
                if kind in ('two', 'lower'):
                    goals += [('upper bound >= 0', hi_), ('upper bound <= 1', nf.sub(one, hi_))]
                if kind == 'two':
                    goals.append(('lower <= upper', nf.sub(hi_, lo_)))
                for what, rf in goals:
                    sg = decide_sign_sqrt(nf, rf, rg)
                    if sg not in ('+', '0+', '0'):
                        probs.append('%s not certified for z %s 0 (sign %s)' % (what, '>=' if zr[0] is not None else '<=', sg))
        finally:
            nf.nonneg.clear()
            nf.nonneg.update(saved)
    except NotReal as e:
        probs.append('not a real formula: %s' % e)
    chk.ob(key + ':unit-interval', 'E4 sign', '%s(%s): the finite bounds lie in [0,1] on the accepted domain (sign certificate over the reals, either sign of the critical value for one-sided kinds)' % (label, kname),
           not probs, '; '.join(probs[:3]), where)


def run(chk, ctx):
    for cfg in ctx.configs():
        run_cfg(chk, ctx.facts(cfg), cfg)


def run_cfg(chk, facts, cfg):
    sfx = '' if cfg == 'default' else '[%s]' % cfg
    im = IvlModel(facts)
    cm = ConfModel(facts)
    if not chk.anchor('Interval / Confidence models' + sfx, im if (im.ok() and cm.ok) else None):
        return
    nf = NF(nonneg=['n', 'k'])
    cnt = {'methods': 0, 'frontends': 0, 'sig': 0}
    wil = facts.free_fn('proportion::ci_wilson')
    wald = facts.free_fn('proportion::ci_z_normal')
    if chk.anchor('proportion::ci_wilson' + sfx, wil):
        cnt['methods'] += 3
        producer(chk, facts, nf, im, cm, wil, 'wilson', 'ci_wilson', sfx)
    if chk.anchor('proportion::ci_z_normal' + sfx, wald):
        cnt['methods'] += 3
        producer(chk, facts, nf, im, cm, wald, 'wald', 'ci_z_normal', sfx)
    ci = facts.free_fn('proportion::ci')
    if chk.anchor('proportion::ci' + sfx, ci):
        cnt['frontends'] += 1
        producer(chk, facts, nf, im, cm, ci, 'wilson', 'ci', sfx)

    # ---- Stats layout from the public constructor Stats::new(population, successes)
    sadt = facts.adts.get('proportion::Stats')
    snew = facts.inherent('proportion::Stats', 'new') if sadt else None
    layout = None
    if chk.anchor('proportion::Stats::new' + sfx, snew):
        try:
            sx, paths = summ(facts, snew, ['pop', 'succ'], None)
            rets = [p.ret for p in paths if p.is_ret()]
            if len(rets) == 1 and rets[0][0] == 'adt' and set(rets[0][3]) - {T.AUX} == {T.sym('pop'), T.sym('succ')}:
                layout = (rets[0][3].index(T.sym('pop')), rets[0][3].index(T.sym('succ')), len(rets[0][3]))
        except Unsupported:
            pass
        chk.ob('%s:stats-layout%s' % (PID, sfx), 'layout', 'Stats::new stores (population, successes)', layout is not None, '', facts.loc(snew['id']))
    if layout is None:
        return

    def stats_state(n, k):
        f = [T.AUX] * layout[2]      # auxiliary fields (sa/layout.py), if any
        f[layout[0]] = n
        f[layout[1]] = k
        return ('adt', 'proportion::Stats', 0, tuple(f))
    sci = facts.inherent('proportion::Stats', 'ci')
    if chk.anchor('proportion::Stats::ci' + sfx, sci):
        cnt['frontends'] += 1

        def mk(kind):
            sx, paths = summ(facts, sci, ['self', 'confidence'], [by_ref(stats_state(N, K)), cm.value(kind, L)])
            return sx, paths, None
        producer(chk, facts, nf, im, cm, sci, 'wilson', 'Stats::ci', sfx, make_args=mk)

    # ---- counting front-ends: every carried integer of the loop is classified as a counter of all
    # elements (N), of the successes (K), of the failures (N-K) or unchanged, by base/step; the
    # havocked counters are then replaced by init + N / K / (N-K) in whatever the function does next
    def check_count_fold(key, where, sx):
        recs = sx.loop_records
        if len(recs) != 1:
            chk.ob(key, 'T1-fold', 'counting loop', None, 'undecided: %d loops' % len(recs), where)
            return None
        rec = recs[0]
        probs = []
        one, zero = nf.of_term(T.mk_int(1)), nf.of_term(T.mk_int(0))
        step_info = []
        for st in rec['steps']:
            nexts = [e for e in st['events'] if e[0] == 'next']
            if len(nexts) != 1 or nexts[0][2] is None:
                probs.append('an iteration does not consume exactly one element')
                continue
            e = nexts[0][2]
            lit = [(a, pol) for a, pol in st['guard'] if a[0] != 'variant']
            succ = None
            if len(lit) == 1:
                a, pol = lit[0]
                is_elem = (a == e) or (a[0] == 'op' and a[1] == 'eq' and e in a[2])
                is_pred = a[0] == 'call' and a[1] == 'apply' and len(a[2]) == 2 and (a[2][1] == e or a[2][1] == ('op', 'ref', (e,)))
                if not (is_elem or is_pred):
                    probs.append('success test is not the element / predicate of the element: %s' % T.show(a)[:100])
                    continue
                succ = pol
            elif len(lit) > 1:
                probs.append('step guarded by %d literals' % len(lit))
                continue
            step_info.append((st, e, succ))
        sub = {}
        classes = {}

        def leaves(hv, init, posts, label):
            # carried values may be structured (tuple accumulator of a fold, a Stats struct)
            if hv[0] in ('tuple', 'adt'):
                fs = hv[1] if hv[0] == 'tuple' else hv[3]
                for i, f_ in enumerate(fs):
                    def sel(v, i=i):
                        if v is None or v[0] not in ('tuple', 'adt'):
                            return None
                        xs = v[1] if v[0] == 'tuple' else v[3]
                        return xs[i] if i < len(xs) else None
                    for x in leaves(f_, sel(init), [sel(p_) for p_ in posts], '%s.%d' % (label, i)):
                        yield x
            else:
                yield hv, init, posts, label
        flat = []
        for loc, hv in rec['havoc'].items():
            posts = [st['post'].get(loc) for st, e, succ in step_info]
            flat.extend(leaves(hv, rec['init'].get(loc), posts, rec['labels'].get(loc, '?')))
        for hs, init, posts, label in flat:
            if hs[0] != 'sym':
                continue
            loc = label
            ty = sx.symty.get(hs[1]) or {}
            if not (ty.get('k') in ('usize', 'u64', 'u32', 'isize', 'i64', 'i32') or (init is not None and init[0] == 'int')):
                continue
            kinds = []
            for (st, e, succ), post in zip(step_info, posts):
                if post is None:
                    kinds.append(('other', succ))
                    continue
                try:
                    d = nf.sub(nf.of_term(post), nf.of_term(hs))
                except NotReal:
                    kinds.append(('other', succ))
                    continue
                ind = post is not None and any(T.subst(post, {hs: T.mk_int(0)}) == cand for cand in (T.op('i2i', e), T.op('add', T.mk_int(0), T.op('i2i', e)), ('op', 'i2i', (e,))))
                if nf.equal(d, one):
                    kinds.append(('one', succ))
                elif nf.equal(d, zero):
                    kinds.append(('zero', succ))
                elif ind or (post[0] == 'op' and post[1] == 'add' and hs in post[2] and any(x[0] == 'op' and x[1] == 'i2i' and x[2][0] == e for x in post[2])):
                    kinds.append(('ind', succ))
                else:
                    kinds.append(('other', succ))
            ks = set(kinds)
            cls = None
            if ks and all(k == 'one' for k, _ in ks):
                cls = 'N'
            elif ks and all(k == 'zero' for k, _ in ks):
                cls = '0'
            elif ks and all(k == 'ind' and s_ is None for k, s_ in ks):
                cls = 'K'
            elif ks == {('one', True), ('zero', False)}:
                cls = 'K'
            elif ks == {('one', False), ('zero', True)}:
                cls = 'F'
            if cls is None:
                probs.append('carried integer %s is not a counter of the elements / successes (steps: %s)' % (label, sorted(ks, key=repr)))
                continue
            classes[hs[1]] = cls   # keyed by the carried symbol: two fields of one struct share a label
            inc = {'N': N, 'K': K, 'F': T.op('sub', N, K), '0': T.mk_int(0)}[cls]
            sub[hs] = T.op('add', init, inc) if init != T.mk_int(0) else inc
        if not any(c == 'N' for c in classes.values()) and not probs:
            probs.append('no carried counter is incremented on every element')
        for ev in rec['exit_events']:
            nexts = [x for x in ev if x[0] == 'next']
            if len(nexts) != 1 or nexts[0][2] is not None:
                probs.append('loop left other than by exhausting the data')
        chk.ob(key, 'T1-fold', 'every carried integer of the front-end loop is a counter of the elements (N) or of the successes (K); each element is consumed once', not probs, '; '.join(probs[:3]), where,
               sample={'loop': rec['where'], 'steps': len(rec['steps']), 'counters': classes})
        chk.analysed['loops'] += 1
        if probs:
            return None
        return sub

    for label, fn, names in (('ci_true', facts.free_fn('proportion::ci_true'), ['confidence', 'data']),
                             ('ci_if', facts.free_fn('proportion::ci_if'), ['confidence', 'data', 'pred'])):
        if not chk.anchor('proportion::%s%s' % (label, sfx), fn):
            continue
        cnt['frontends'] += 1
        folded = {}

        def mk(kind, fn=fn, names=names, label=label):
            sx, paths = summ(facts, fn, names, [cm.value(kind, L)] + [None] * (len(names) - 1))
            sub = check_count_fold('%s:%s:%s:fold%s' % (PID, label, dict(KINDS)[kind], sfx), facts.loc(fn['id']), sx)
            if sub is None:
                return sx, None, None
            return sx, paths, sub
        producer(chk, facts, nf, im, cm, fn, 'wilson', label, sfx, make_args=mk)
    # state-only front-ends (no interval): the final state must be (n0 + N, k0 + K)
    N0, K0 = T.sym('n0'), T.sym('k0')
    for label, fn, names, args, start in (
            ('FromIterator<bool>', facts.trait_method('core::iter::FromIterator', 'proportion::Stats', 'from_iter', trait_args=['bool']), ['iter'], [None], (T.mk_int(0), T.mk_int(0))),
            ('Stats::extend', facts.inherent('proportion::Stats', 'extend'), ['self', 'data'], [by_ref(stats_state(N0, K0)), None], (N0, K0)),
            ('Stats::extend_if', facts.inherent('proportion::Stats', 'extend_if'), ['self', 'data', 'pred'], [by_ref(stats_state(N0, K0)), None, None], (N0, K0))):
        if not chk.anchor(label + sfx, fn):
            continue
        cnt['frontends'] += 1
        key = '%s:%s:fold%s' % (PID, label, sfx)
        try:
            sx, paths = summ(facts, fn, names, args)
            chk.saw(facts, fn, paths=len(paths))
            sub = check_count_fold(key, facts.loc(fn['id']), sx)
            if sub is None:
                continue
            probs = []
            rets = [p for p in paths if p.is_ret()]
            if len(rets) != len(paths) or not rets:
                probs.append('%d paths, %d returning' % (len(paths), len(rets)))
            for p in rets:
                final = p.effects.get('self') if 'self' in names else p.ret
                final = T.subst(final, sub) if final is not None else None
                want = stats_state(T.op('add', start[0], N), T.op('add', start[1], K))
                okf = final is not None and final[0] == 'adt' and final[1] == 'proportion::Stats' and all(nf.term_equal(x, y) for x, y in zip(final[3], want[3]))
                if not okf:
                    probs.append('final state is %s, expected (n0 + N, k0 + K)' % (T.show(final)[:120] if final else None))
            chk.ob(key + ':state', 'T1-fold', '%s leaves the state at (population + number of elements, successes + number of successes)' % label, not probs, '; '.join(probs[:2]), facts.loc(fn['id']))
        except (Unsupported, NotReal) as e:
            chk.ob(key, 'T1-fold', label, None, 'undecided: %s' % e, facts.loc(fn['id']))
    for label, dn, dk in (('add_success', 1, 1), ('add_failure', 1, 0)):
        fn = facts.inherent('proportion::Stats', label)
        if not chk.anchor('Stats::%s%s' % (label, sfx), fn):
            continue
        cnt['frontends'] += 1
        try:
            sx, paths = summ(facts, fn, ['self'], [by_ref(stats_state(N, K))])
            chk.saw(facts, fn, paths=len(paths))
            good = len(paths) == 1 and paths[0].is_ret() and paths[0].effects.get('self') == stats_state(T.op('add', N, T.mk_int(dn)), T.op('add', K, T.mk_int(dk)) if dk else K)
            chk.ob('%s:%s%s' % (PID, label, sfx), 'E3', '%s maps (n,k) to (n+%d, k+%d)' % (label, dn, dk), good,
                   '' if good else 'effect: %s' % [T.show(p.effects.get('self')) for p in paths], facts.loc(fn['id']))
        except Unsupported as e:
            chk.ob('%s:%s%s' % (PID, label, sfx), 'E3', label, None, str(e), facts.loc(fn['id']))

    # ---- ratio front-end
    fn = facts.free_fn('proportion::ci_wilson_ratio')
    if chk.anchor('proportion::ci_wilson_ratio' + sfx, fn) and wil:
        cnt['frontends'] += 1
        where = facts.loc(fn['id'])
        R = T.sym('r')
        # learn the count handed to ci_wilson from the error payload of the k > n rejection
        # (InvalidSuccesses carries (successes, population))
        try:
            sx, paths = summ(facts, fn, ['confidence', 'n', 'r'], [cm.value('two', L), None, None])
            chk.saw(facts, fn, paths=len(paths))
            ks = set()
            nonpos = []
            for p in paths:
                ev = err_variant(facts, p.ret) if p.is_ret() else None
                if ev == 'InvalidSuccesses':
                    ks.add(p.ret[3][0][3][0])
                if ev == 'NonPositiveValue':
                    nonpos.append(p)
            probs = []
            if len(ks) != 1:
                probs.append('cannot identify the success count passed on (%d candidates)' % len(ks))
            else:
                kt = ks.pop()
                want = T.op('mul', R, FN)
                okk = kt[0] == 'op' and kt[1] == 'f2i' and kt[2][0][0] == 'op' and kt[2][0][1] == 'round' and nf.term_equal(kt[2][0][2][0], want)
                if not okk:
                    probs.append('the count handed to the Wilson interval is %s, not round(r*n)' % T.show(kt))
            # exact IEEE partition of r at 0: NaN | -inf | (-inf,0) | {0} | (0,inf) | +inf.  The paths that can be
            # taken in a cell are those whose literals about r alone hold there (other literals: unknown).
            def r_only(a):
                if a[0] != 'op':
                    return False
                if a[1] in ('not',):
                    return r_only(a[2][0])
                if a[1] in ('and', 'or'):
                    return all(r_only(x) for x in a[2])
                if a[1] == 'is_nan':
                    return fclass.strip(a[2][0]) == R
                if a[1] in fclass.SWAP and len(a[2]) == 2:
                    x, y = fclass.strip(a[2][0]), fclass.strip(a[2][1])
                    return (x == R and y[0] == 'flt' and not isinstance(y[1], str)) or (y == R and x[0] == 'flt' and not isinstance(x[1], str))
                return False

            def may_hold(p_, cell):
                for a, pol in p_.guard:
                    if a[0] != 'variant' and r_only(a) and fclass.eval_bool(a, {'r': cell}) != pol:
                        return False
                return True
            consts = fclass.constants_compared(paths, 'r') | {Fraction(0)}
            np_probs = []
            for cell in fclass.cells(consts):
                nonposcell = cell in ('-inf',) or (not isinstance(cell, str) and ((cell[0] == 'pt' and cell[1] <= 0) or (cell[0] == 'open' and cell[2] is not None and cell[2] <= 0)))
                try:
                    takers = [p_ for p_ in paths if may_hold(p_, cell)]
                except NotParametric as e:
                    np_probs.append('undecided: %s' % e)
                    break
                rej = [p_ for p_ in takers if p_ in nonpos]
                if nonposcell and (not rej or len(rej) != len(takers)):
                    np_probs.append('r in %s is not always rejected with NonPositiveValue' % fclass.cell_str(cell))
                if not nonposcell and rej and cell != 'nan':   # a NaN ratio implies no count: the property leaves it open
                    np_probs.append('r in %s can be rejected with NonPositiveValue' % fclass.cell_str(cell))
            if not nonpos or np_probs:
                probs.append('r <= 0 is not rejected with NonPositiveValue' + (': ' + '; '.join(np_probs[:3]) if np_probs else ''))
            chk.ob('%s:ci_wilson_ratio%s' % (PID, sfx), 'E3', 'the success-ratio form is the interval of round(r*n) successes; r <= 0 => NonPositiveValue',
                   not probs, '; '.join(probs), where, sample={'fn': 'ci_wilson_ratio'})
            # the whole front-end, with the implied count named k, must be the Wilson producer of (n, k):
            # domain table, formula and kind table (catches a count that is validated but not used)
            if not probs:
                kterm = T.op('f2i', T.op('round', T.op('mul', R, FN)))

                def pos_holds(p_, cell):
                    try:
                        return may_hold(p_, cell)
                    except NotParametric:
                        return True

                def mk_ratio(kind):
                    sx2, paths2 = summ(facts, fn, ['confidence', 'n', 'r'], [cm.value(kind, L), None, None])
                    # r > 0 region only (r <= 0 is rejected above); drop those paths by their guard
                    keep = [p_ for p_ in paths2 if err_variant(facts, p_.ret) != 'NonPositiveValue'
                            and any(pos_holds(p_, c_) for c_ in (('open', Fraction(0), None), 'inf'))]
                    return sx2, keep, {kterm: K}

                def strip_r(paths_):
                    return paths_
                producer(chk, facts, nf, im, cm, fn, 'wilson', 'ci_wilson_ratio', sfx, make_args=mk_ratio, extra_ranges={'r': (Fraction(0), None, True, True)},
                         drop_literal=r_only)
        except Unsupported as e:
            chk.ob('%s:ci_wilson_ratio%s' % (PID, sfx), 'E3', 'ratio form', None, str(e), where)

    # ---- D5 is_significant
    for label, fn, args in (('is_significant', facts.free_fn('proportion::is_significant'), [None, None]),
                            ('Stats::is_significant', facts.inherent('proportion::Stats', 'is_significant'), [by_ref(stats_state(N, K))])):
        if not chk.anchor(label + sfx, fn):
            continue
        cnt['sig'] += 1
        where = facts.loc(fn['id'])
        try:
            sx, paths = summ(facts, fn, ['n', 'k'] if len(args) == 2 else ['self'], args)
            chk.saw(facts, fn, paths=len(paths))
            rows = []
            for p in paths:
                lins = [linearize(nf, a, pol, ('n', 'k'), positive=('n',)) for a, pol in p.guard]
                ret = p.ret
                rows.append((p, lins, ret))
            bad = None
            valid = [lin({'k': 1, 'n': -1}, 0, '<=')]          # k <= n (k > n is invalid input, C11)
            want_true = [lin({'n': -1}, 31, '<='), lin({'k': -1}, 6, '<='), lin({'n': -1, 'k': 1}, 6, '<=')]
            want_false_alts = [[lin({'n': 1}, -30, '<=')], [lin({'k': 1}, -5, '<=')], [lin({'n': 1, 'k': -1}, -5, '<=')]]
            for p, lins, ret in rows:
                if ret[0] == 'bool':
                    t_alts, f_alts = ([[]], []) if ret[1] else ([], [[]])
                else:
                    t_alts = [[linearize(nf, *_lit(ret), ('n', 'k'), positive=('n',))]]
                    a_, pol_ = _lit(ret)
                    f_alts = [[linearize(nf, a_, not pol_, ('n', 'k'), positive=('n',))]]
                # returns true somewhere the documented predicate is false?
                for ta in t_alts:
                    for wf in want_false_alts:
                        if sat(valid + lins + ta + wf) and bad is None:
                            bad = 'returns true for some (n, k) outside n > 30, k > 5, n-k > 5 (path %s)' % [('' if pol else '!') + T.show(a)[:40] for a, pol in p.guard][:3]
                for fa in f_alts:
                    if sat(valid + lins + fa + want_true) and bad is None:
                        bad = 'returns false for some (n, k) with n > 30, k > 5, n-k > 5'
            chk.ob('%s:%s%s' % (PID, label, sfx), 'zones', '%s is n > 30 and k > 5 and n-k > 5 on every zone cell' % label, bad is None, bad or '', where)
        except (Unsupported, NotLinear, NotReal) as e:
            chk.ob('%s:%s%s' % (PID, label, sfx), 'zones', label, None, 'undecided: %s' % e, where)
    if cfg == 'default':
        chk.floor('methods-x-kinds', cnt['methods'], 6)
        chk.floor('front-ends', cnt['frontends'], 9)
        chk.floor('is_significant', cnt['sig'], 2)
    chk.rules.append('zones: integer guard tables over every cell of the guard arrangement; E4: Wilson/Wald formula + score-polynomial identity; T1-fold for the counting front-ends')


def _lit(t):
    from ..symex import canon_literal
    return canon_literal(t)


ASSUMPTIONS = ['floats as reals; n >= 1 (n = 0 under C11); level in (0,1)', 'bounds within [0,1]: decided over the reals (sign certificate), not for float rounding']
