"""C09 - incremental, chunked, merged and parallel accumulation equal the batch result.

D1 monoid homomorphism, for Arithmetic, Harmonic, Geometric, Paired, Unpaired,
   proportion::Stats, quantile::Stats and KahanSum: alpha(default) = 0; alpha(a + b) =
   alpha(a) + alpha(b) with every statistic of the result taken from the same statistic of both
   operands (field coverage: catches wrong-sample / dropped-operand merges); a += b has the
   effect of a = a + b.  Together with the fold obligations of C01/C04/C05/C02 (every feeder is
   a homomorphic image of the multiset) any history delivering a multiset yields the batch
   alpha.  Integer states exactly; float states over the reals.
D3 queries do not modify: every query takes &self, every state type is Freeze (no interior
   mutability), so repeated queries are equal; the one lazy static is built from constants.
D4 parallel reduce: state types are Send + Sync; merges take operands by value;
   associativity / commutativity of + on alpha is the real-mode identity of D1.
U: size of the rounding differences between merge orders (C08-U)."""
from fractions import Fraction

from .. import terms as T
from ..folds import find_ariths
from ..nf import NotReal
from ..statsmodel import StatsModel, by_ref, ZERO
from ..symex import Summarizer, Unsupported

PID = 'C09'


def run(chk, ctx):
    for cfg in ctx.configs():
        run_cfg(chk, ctx.facts(cfg), cfg)


def run_cfg(chk, facts, cfg):
    sfx = '' if cfg == 'default' else '[%s]' % cfg
    sm = StatsModel(facts)
    if not chk.anchor('state layouts' + sfx, sm if sm.ok() else None):
        chk.notes.extend(sm.problems)
        return
    nf = sm.nf
    cnt = {'add': 0, 'inherent_add': 0, 'add_assign': 0, 'fields': 0, 'queries': 0}
    from ..overrides import obligation as no_overrides
    no_overrides(chk, PID, facts, sfx, [x['path'] for x in facts.raw['adts'] if x.get('exported') and x['path'].split('::')[-1] in ('Arithmetic', 'Harmonic', 'Geometric', 'Paired', 'Unpaired', 'Stats', 'KahanSum')], 'state types (copies and merges: Clone, Add, AddAssign, Default)', traits=('Clone', 'Copy', 'Add', 'AddAssign', 'Default', 'Sum'),
                 checkers={('Clone', 'clone_from'): __import__('sa.overrides', fromlist=['x']).clone_from_checker(chk, PID, facts, sfx)},
                 shadow_known=('add',))   # the inherent `add` of the mean states is a merge decided below (floor inherent-add)

    def summ(fn, names, args):
        sx = Summarizer(facts, assume_no_overflow=True)
        return sx.summarize(fn['id'], args=args, arg_names=names)

    def arith(tag):
        return sm.arith_state(T.sym('S1' + tag), T.sym('S2' + tag), T.sym('n' + tag))

    def alpha_vec(v):
        """flat list of statistics of a state value (registers by value(), counters as is)."""
        out = []
        if v[0] == 'adt' and v[1] == sm.arith['path']:
            a = sm.alpha(v)
            return [a[0], a[1], a[2]]
        if v[0] == 'adt' and v[1] == sm.kahan['path']:
            return [sm.value_of(sm.kahan_value(v[3][sm.k_sum]))]
        if v[0] == 'adt':
            for f in v[3]:
                out.extend(alpha_vec(f))
            return out
        if v == T.AUX:
            return []      # auxiliary fields carry no statistic
        return [v]

    def comps_of(v):
        out = []
        if v[0] == 'adt' and v[1] == sm.kahan['path']:
            return [x for j, x in enumerate(v[3]) if j != sm.k_sum and j not in sm.k_aux]
        if v[0] == 'adt':
            for f in v[3]:
                out.extend(comps_of(f))
        return out

    def plain_state(adt, tag):
        """symbolic state of a type whose statistic fields are plain counters (proportion / quantile Stats)"""
        aux = facts.aux_fields.get(adt['path']) or set()
        n_ = len(adt['variants'][0]['fields'])
        return ('adt', adt['path'], 0, tuple(T.AUX if i in aux else T.sym('f%d%s' % (i, tag)) for i in range(n_)))

    # ---- symbolic operand pairs per type
    types = []
    kadt = sm.kahan
    types.append(('KahanSum', kadt, lambda t: sm.kahan_value(T.sym('s' + t))))
    types.append(('Arithmetic', sm.arith, arith))
    for nm in ('Harmonic', 'Geometric', 'Paired'):
        adt = sm.adt(nm)
        if chk.anchor(nm + sfx, adt):
            try:
                sm.wrapper_state(adt, arith('_probe'))
            except Unsupported as e:
                chk.ob('%s:%s:layout%s' % (PID, nm, sfx), 'layout', '%s wraps one statistics state' % nm, False, str(e), adt['span'][0])
                continue
            types.append((nm, adt, (lambda adt: lambda t: sm.wrapper_state(adt, arith(t)))(adt)))
    uadt = sm.adt('Unpaired')
    if chk.anchor('Unpaired' + sfx, uadt):
        def unpaired_state(t):
            aux = facts.aux_fields.get(uadt['path']) or set()
            real = [i for i in range(len(uadt['variants'][0]['fields'])) if i not in aux]
            if len(real) != 2:
                raise Unsupported('Unpaired does not consist of two sample states (%d statistic fields)' % len(real))
            vals = {real[0]: arith('a' + t), real[1]: arith('b' + t)}
            return ('adt', uadt['path'], 0, tuple(vals.get(i, T.AUX) for i in range(len(uadt['variants'][0]['fields']))))
        types.append(('Unpaired', uadt, unpaired_state))
    for p in ('proportion::Stats', 'quantile::Stats'):
        adt = facts.adts.get(p)
        if chk.anchor(p + sfx, adt):
            types.append((p, adt, (lambda adt: lambda t: plain_state(adt, t))(adt)))

    for name, adt, mk in types:
        path = adt['path']
        try:
            a, b = mk('_x'), mk('_y')
        except Unsupported as e:
            chk.ob('%s:%s:layout%s' % (PID, name, sfx), 'layout', 'statistic fields of %s' % name, False, str(e), adt['span'][0])
            continue
        va, vb = alpha_vec(a), alpha_vec(b)
        cnt['fields'] += len(va)
        # default is the neutral element
        dfn = facts.trait_method('core::default::Default', path, 'default')
        if chk.anchor('Default for %s%s' % (name, sfx), dfn):
            try:
                ps = summ(dfn, [], None)
                chk.saw(facts, dfn, paths=len(ps))
                good = len(ps) == 1 and ps[0].is_ret() and all(nf.is_zero(nf.of_term(x)) for x in alpha_vec(ps[0].ret)) and all(nf.is_zero(nf.of_term(x)) for x in comps_of(ps[0].ret))
                chk.ob('%s:%s:default%s' % (PID, name, sfx), 'E4', 'the empty %s state has every statistic (and compensation) equal to 0: neutral element of merging' % name, good,
                       '' if good else T.show(ps[0].ret)[:200] if ps and ps[0].ret else '', facts.loc(dfn['id']))
            except (Unsupported, NotReal) as e:
                chk.ob('%s:%s:default%s' % (PID, name, sfx), 'E4', 'default', None, 'undecided: %s' % e, facts.loc(dfn['id']))
        merges = []
        same = lambda imp: [t.get('adt') for t in imp.get('trait_args', [])] in ([path], [])
        f = facts.trait_method('core::ops::Add', path, 'add', trait_args=(lambda imp: True) if name == 'KahanSum' else same)
        if chk.anchor('Add for %s%s' % (name, sfx), f):
            merges.append(('Add::add', f, 'value'))
            cnt['add'] += 1
        f = facts.inherent(path, 'add')
        if f is not None:
            merges.append(('%s::add' % name, f, 'value'))
            cnt['inherent_add'] += 1
        f = facts.trait_method('core::ops::AddAssign', path, 'add_assign', trait_args=lambda imp: [t.get('adt') for t in imp.get('trait_args', [])] == [path])
        if chk.anchor('AddAssign for %s%s' % (name, sfx), f):
            merges.append(('AddAssign::add_assign', f, 'effect'))
            cnt['add_assign'] += 1
        for label, fn, mode in merges:
            key = '%s:%s:%s%s' % (PID, name, label, sfx)
            where = facts.loc(fn['id'])
            if name == 'KahanSum' and label == 'Add::add':
                # generic Add<X>: only meaningful as instantiated with X = Self / X = T; covered by AddAssign rows
                # through the root instance for X generic the call `sum += rhs` is abstract
                chk.notes.append('KahanSum: generic Add<X> forwards to AddAssign<X> (checked under C08 as instantiated)')
                continue
            try:
                if mode == 'value':
                    ps = summ(fn, ['a', 'b'], [a, b])
                else:
                    ps = summ(fn, ['a', 'b'], [by_ref(a), b])
                chk.saw(facts, fn, paths=len(ps))
                oks = [p for p in ps if p.is_ret()]
                probs = []
                if not oks or len(oks) != len(ps):
                    probs.append('%d paths, %d returning' % (len(ps), len(oks)))
                for pth in oks:
                    res = pth.ret if mode == 'value' else pth.effects.get('a')
                    # equalities the path assumes about an operand (e.g. `rhs.count == 0`) are facts on that path
                    eqs = {}
                    for atom, pol in pth.guard:
                        if pol and atom[0] == 'op' and atom[1] == 'eq':
                            x, y = atom[2]
                            if x[0] == 'sym' and T.is_const(y):
                                eqs[x] = y
                            elif y[0] == 'sym' and T.is_const(x):
                                eqs[y] = x
                    if eqs:
                        res = T.subst(res, eqs)
                    if any(not nf.is_zero(nf.of_term(x)) for x in comps_of(res)):
                        # compensation of the result must be real-invariant 0 given operands with 0
                        probs.append('compensation of the merged state is not real-invariant 0')
                    vr = alpha_vec(res)
                    if len(vr) != len(va):
                        probs.append('result has %d statistics, operands %d' % (len(vr), len(va)))
                    else:
                        for i, (r, x, y) in enumerate(zip(vr, va, vb)):
                            if not nf.term_equal(r, T.subst(T.op('add', x, y), eqs) if eqs else T.op('add', x, y)):
                                probs.append('statistic #%d of the result is %s, not the sum of the operands\' statistic #%d' % (i, T.show(r)[:100], i))
                chk.ob(key, 'E3+E4 homomorphism', '%s of two %s states adds every statistic component-wise (field coverage)' % (label, name), not probs, '; '.join(probs[:3]), where,
                       sample={'type': name, 'merge': label, 'statistics': len(va)})
                # every compensated register of the merged state recovers the rounding error of *its own* addition with the
                # precondition of that recovery established for *its own* operands (C08 D3b, here at the level of the
                # statistics states: an operand order settled on one register does not carry over to another)
                from .C08 import recovery_problems
                rprobs = []

                def registers(v):
                    if v[0] == 'adt' and v[1] == sm.kahan['path']:
                        yield v
                    elif v[0] == 'adt':
                        for f_ in v[3]:
                            for r_ in registers(f_):
                                yield r_
                for pth in oks:
                    res = pth.ret if mode == 'value' else pth.effects.get('a')
                    if res is None:
                        continue
                    for reg in registers(res):
                        s2 = reg[3][sm.k_sum]
                        cs = [x for j, x in enumerate(reg[3]) if j != sm.k_sum and j not in sm.k_aux]
                        _recs, pr_ = recovery_problems(nf, s2, cs, pth.guard)
                        rprobs.extend(pr_)
                chk.ob(key + ':recovery', 'E8 error-algebra', '%s of two %s states: every register merge recovers its rounding error under the precondition |p| >= |q| established for its own operands' % (label, name),
                       not rprobs, '; '.join(sorted(set(rprobs))[:2]), where)
            except (Unsupported, NotReal) as e:
                chk.ob(key, 'E3+E4 homomorphism', label, None, 'undecided: %s' % e, where)
        # D3/D4 type-level facts
        tr = adt.get('traits', {})
        chk.ob('%s:%s:freeze%s' % (PID, name, sfx), 'E0-types', '%s has no interior mutability (Freeze): a query through &self cannot modify it' % name, tr.get('Freeze') is True, 'traits: %s' % tr, adt['span'][0])
        chk.ob('%s:%s:send-sync%s' % (PID, name, sfx), 'E0-types', '%s is Send + Sync (partial states can be reduced in parallel)' % name, tr.get('Send') is True and tr.get('Sync') is True, 'traits: %s' % tr, adt['span'][0])
        # queries take &self
        for f in facts.inherent_all(path):
            if not f.get('exported') or not f.get('has_self'):
                continue
            recv = f['inputs'][0]
            if recv.get('k') == 'ref' and not recv.get('mut'):
                cnt['queries'] += 1
            out = f['output']
            if recv.get('k') == 'ref' and recv.get('mut'):
                continue  # updaters
            if recv.get('k') != 'ref':
                # by-value receivers operate on a state that was moved or copied into the call: the caller's own state
                # (if it still has one) cannot be modified through them
                chk.ob('%s:%s:%s:receiver%s' % (PID, name, f['name'], sfx), 'E0-types', 'a by-value method works on a moved / copied state and cannot modify the caller\'s', True, '', facts.loc(f['id']))
    # "incremental / chunked = batch": every feeder (append, extend, from_iter, the paired / unpaired feeders, the
    # counting folds) adds each observation exactly once to the state it *finds* - the fold / routing obligations of
    # C01, C04 and C02, re-established here on the same facts and reported under this property
    n_fold = 0
    try:
        from .. import core as core_
        from . import C01 as R1, C04 as R4
        for R, sub_pid in ((R1, 'C01'), (R4, 'C04')):
            sub = core_.Check(sub_pid, chk.tier)
            R.run_cfg(sub, facts, cfg)
            for o in sub.obligations:
                if o['rule'] in ('T1-fold', 'T-fold', 'T2-lockstep') or (o['rule'] == 'E3+E4' and 'append' in o['key']):
                    n_fold += 1
                    chk.ob('%s:feeder:%s' % (PID, o['key'].split(':', 1)[1]), 'composition ' + o['rule'],
                           'incremental = batch: ' + (o.get('desc') or o['key']) + ' (each observation added once to the state found)',
                           None if o['status'] == 'undecided' else o['status'] == 'ok', o.get('detail') or '', o.get('where') or 'feeders')
    except Exception as e:
        chk.ob('%s:feeder%s' % (PID, sfx), 'composition', 'fold obligations of the feeders', None, 'undecided: %r' % (e,), 'feeders')
    if cfg == 'default':
        chk.floor('feeder-folds', n_fold, 20)
    from ..effects import obligation as no_hidden_state
    no_hidden_state(chk, PID, facts, sfx, 'no function of the crate reaches thread-local / cell / lock / atomic state (queries cannot depend on earlier queries)')
    # the one lazy static is initialised from constants
    lz = [f for f in facts.raw['fns'] if f['path'].endswith('__static_ref_initialize')]
    for f in lz:
        try:
            ps = summ(f, [], None)
            good = len(ps) == 1 and ps[0].is_ret() and not T.syms_of(ps[0].ret)
            chk.ob('%s:lazy-static:%s%s' % (PID, f['path'].split('::')[1] if '::' in f['path'] else f['path'], sfx), 'E3', 'lazily initialised static is a constant (no state leaks between queries)', good,
                   T.show(ps[0].ret)[:120] if ps and ps[0].ret else '', facts.loc(f['id']))
        except Unsupported as e:
            chk.ob('%s:lazy-static%s' % (PID, sfx), 'E3', 'lazy static', None, 'undecided: %s' % e, facts.loc(f['id']))
    if cfg == 'default':
        chk.floor('Add-impls', cnt['add'], 8)
        chk.floor('inherent-add', cnt['inherent_add'], 3)
        chk.floor('AddAssign-impls', cnt['add_assign'], 8)
        chk.floor('state-statistics', cnt['fields'], 13)
        chk.floor('queries-by-shared-reference', cnt['queries'], 28)
    chk.rules.append('E3+E4 homomorphism (field coverage by normal form), E0 type-level facts (Freeze, Send, Sync, receiver kinds)')
    chk.notes.append('feeders are homomorphic folds: decided under C01 (Arithmetic), C04 (Paired/Unpaired), C05 (Geometric/Harmonic), C02 (proportion::Stats)')


ASSUMPTIONS = ['floats as reals; compensation real-invariant 0 (C08-D4)', 'usize overflow asserts assumed']
