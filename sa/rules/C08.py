"""C08 - compensated summation (structural clauses; the error bound itself is a cited theorem).

D1 who may write: a register is built only by its constructor (and derives); its constructor is
   called only from the register's own Default / From (no re-seeding such as
   KahanSum::new(value() + x) in the statistics code); the accumulators of Arithmetic are
   registers updated through the AddAssign impls (C01-D1 / C09 show the update terms).
D2 the kernel is a compensated recurrence (engine E8, first-order error algebra): annotate every
   float operation of the step (s, c, x) -> (s', c') with an error symbol, fl(a o b) = (a o b) + e;
   let e* be the symbol of the operation producing the new running sum and take the operations
   that only feed the compensation as exact (Dekker/Kahan lemma).  Rule: (i) over the reals
   c' = 0 whenever... precisely: c' has real part 0 for every c; (ii) there is sigma in {+1,-1}
   with real part of (s' + sigma c') - (s + sigma c + x) equal to 0 and the coefficient of e* in
   it equal to 0: the rounding error of the accumulation cancels in the conserved quantity.
   Kahan (sigma = -1) and Neumaier (sigma = +1) satisfy it; naive addition, (t-s)+y, y = x + c
   with this c', or a dropped residual do not.
D3 merge: += Self feeds one register's sum and, if used at all, its compensation through the kernel into the other
   register, whose compensation stays live; (a) the merged register stands for the sum of what the operands stand
   for (s + sigma c, an identity over the reals with c live); (b) the base register is, by the path condition, the
   one with the larger |sum| - the precondition of the kernel's exact error recovery (Dekker), without which each
   merge loses u*|partial sum| and chains of merges accumulate like naive summation.
D4 value() = sum + k*compensation, k in {-1, 0, 1}.
U: the constant in O(u*sum|x|); behaviour on long f32 streams (runtime quantities)."""
from fractions import Fraction

from .. import terms as T
from ..nf import NotReal
from ..statsmodel import StatsModel, by_ref, ZERO
from ..symex import Summarizer, Unsupported

PID = 'C08'
S, C, X = T.sym('s'), T.sym('c'), T.sym('x')


class Affine:
    """real part (term) + sum coeff_i * eps_i, first order."""

    def __init__(self, real, eps=None):
        self.real = real
        self.eps = dict(eps or {})

    def combine(self, other, sign):
        e = dict(self.eps)
        for k, v in other.eps.items():
            e[k] = e.get(k, 0) + sign * v
        return Affine(T.op('add' if sign > 0 else 'sub', self.real, other.real), {k: v for k, v in e.items() if v != 0})


def err_form(t, exact, memo):
    """Affine error form of a term built from add / sub / neg over symbols."""
    if t in memo:
        return memo[t]
    if t[0] in ('sym', 'flt', 'int') or (t[0] == 'op' and t[1] in ('zero', 'one')):
        r = Affine(t)
    elif t[0] == 'op' and t[1] in ('add', 'sub') and len(t[2]) == 2:
        a = err_form(t[2][0], exact, memo)
        b = err_form(t[2][1], exact, memo)
        r = a.combine(b, 1 if t[1] == 'add' else -1)
        if t not in exact:
            r.eps[t] = r.eps.get(t, 0) + 1
    elif t[0] == 'op' and t[1] == 'neg':
        a = err_form(t[2][0], exact, memo)
        r = Affine(T.op('neg', a.real), {k: -v for k, v in a.eps.items()})
    else:
        raise Unsupported('operation outside the additive kernel fragment: %s' % T.show(t)[:80])
    memo[t] = r
    return r


def simp0(t):
    """x - 0, x + 0, 0 + x -> x (after the compensations have been replaced by their real value 0)"""
    if t[0] == 'op' and t[1] in ('add', 'sub') and len(t[2]) == 2:
        a, b = simp0(t[2][0]), simp0(t[2][1])
        if b == ZERO:
            return a
        if a == ZERO and t[1] == 'add':
            return b
        return ('op', t[1], (a, b))
    if t[0] == 'op' and t[1] == 'neg':
        return ('op', 'neg', (simp0(t[2][0]),))
    return t


def op_nodes(t):
    out = set()
    T.walk(t, lambda x: out.add(x) if (x[0] == 'op' and x[1] in ('add', 'sub')) else None)
    return out


SIGMA = {}


def fast2sum_operands(s1, c1):
    """If the residual c1 recovers the rounding error of the addition s1 = p + q in the Fast2Sum form (s1 - p) - q,
    return (p, q): the recovery is exact only when |p| >= |q| (Dekker).  None for any other form."""
    if s1[0] != 'op' or s1[1] != 'add' or len(s1[2]) != 2:
        return None
    a, b = s1[2]
    for p_, q_ in ((a, b), (b, a)):
        if c1 == ('op', 'sub', (('op', 'sub', (s1, p_)), q_)):
            return p_, q_
    return None


def recoveries(terms):
    """[(t, p, q, exact nodes)]: sub-terms that recover the rounding error of a float addition t = p + q (or
    subtraction t = p - q) in a Fast2Sum form - (t - p) - q, (p - t) + q, resp. (t - p) + q - which is exact,
    every intermediate included, only for |p| >= |q| (Dekker)"""
    out = []

    def visit(x):
        if x[0] != 'op' or len(x[2]) != 2:
            return
        a, b = x[2]
        if a[0] == 'op' and a[1] == 'sub' and len(a[2]) == 2:
            u, v = a[2]
            # (t - p) -/+ q
            if u[0] == 'op' and len(u[2]) == 2:
                if x[1] == 'sub' and u[1] == 'add' and (u[2] == (v, b) or u[2] == (b, v)):
                    out.append((u, v, b, (a, x)))
                if x[1] == 'add' and u[1] == 'sub' and u[2] == (v, b):
                    out.append((u, v, b, (a, x)))
            # (p - t) + q
            if x[1] == 'add' and v[0] == 'op' and v[1] == 'add' and len(v[2]) == 2 and (v[2] == (u, b) or v[2] == (b, u)):
                out.append((v, u, b, (a, x)))
    for t_ in terms:
        T.walk(t_, visit)
    return out


def recovery_problems(nf, sum_term, comp_terms, guard, zero_subst=None):
    """Problems with the error recoveries of one merged register (new sum, new compensation(s)) under a path condition:
    every recovery of a float addition t = p + q needs |p| >= |q| - by the path condition, or trivially because q is a
    pure rounding residue (real value 0) and p is not.  -> (recoveries found, [problem])"""
    zero_subst = zero_subst or {}

    def comp_sized(t):
        try:
            return nf.is_zero(nf.of_term(T.subst(t, zero_subst)))
        except NotReal:
            return False
    recs = recoveries([sum_term] + list(comp_terms))
    out = []
    gset = set((a_, pol) for a_, pol in guard)
    for t_, p_, q_, _x in recs:
        if comp_sized(q_) and not comp_sized(p_):
            continue
        ps_, qs_ = simp0(T.subst(p_, zero_subst)), simp0(T.subst(q_, zero_subst))
        pa, qa = T.op('abs', ps_), T.op('abs', qs_)
        oks = {(T.op('lt', qa, pa), True), (T.op('le', qa, pa), True), (T.op('lt', pa, qa), False), (T.op('le', pa, qa), False)}
        if not (oks & gset):
            out.append('nothing establishes |%s| >= |%s| where the error of their sum is recovered as (t - p) - q, which is exact only then (Dekker): merging a register into a smaller one loses the rounding error of the merge' % (T.show(ps_)[:30], T.show(qs_)[:30]))
    return recs, out


def kernel_rule(nf, s1, c1, s=S, c=C, x=X):
    """-> (ok, detail) for one step (s, c, x) -> (s1, c1)."""
    if s1[0] != 'op' or s1[1] not in ('add', 'sub'):
        return False, 'the new running sum is not the result of a float addition: %s' % T.show(s1)[:80]
    star = s1
    only_c = op_nodes(c1) - op_nodes(s1)
    fs = err_form(s1, only_c, {})
    fc = err_form(c1, only_c, {})
    real_c = nf.of_term(fc.real)
    if not (nf.is_zero(real_c) or nf.equal(real_c, nf.of_term(c))):
        return False, 'the compensation has real content %s (it must carry only rounding residue)' % T.show(c1)[:100]
    if not fc.eps:
        return False, 'no rounding residue is captured: the step is uncompensated (c\' = %s)' % T.show(c1)[:60]
    for sigma in (-1, 1):
        q = fs.combine(fc, sigma)
        base = Affine(T.op('add', T.op('add' if sigma > 0 else 'sub', s, c), x))
        q = q.combine(base, -1)
        if nf.is_zero(nf.of_term(q.real)) and q.eps.get(star, 0) == 0:
            SIGMA['kernel'] = sigma
            return True, 'sigma = %+d: conserved quantity s %s c; residual first-order terms: %d' % (sigma, '+' if sigma > 0 else '-', len(q.eps))
    q = fs.combine(fc, -1).combine(Affine(T.op('add', T.op('sub', s, c), x)), -1)
    return False, 'the rounding error of the accumulation does not cancel: for sigma=-1 the real part is %s and the coefficient of e* is %s' % (
        'nonzero' if not nf.is_zero(nf.of_term(q.real)) else '0', q.eps.get(star, 0))


def run(chk, ctx):
    for cfg in ctx.configs():
        run_cfg(chk, ctx.facts(cfg), cfg)


def run_cfg(chk, facts, cfg):
    sfx = '' if cfg == 'default' else '[%s]' % cfg
    sm = StatsModel(facts)
    if not chk.anchor('register layout (KahanSum::new / value)' + sfx, sm if sm.ok() else None):
        chk.notes.extend(sm.problems)
        return
    nf = sm.nf
    kp = sm.kahan['path']
    cnt = {'impls': 0, 'kernel': 0, 'acc': 0}
    from ..overrides import obligation as no_overrides
    no_overrides(chk, PID, facts, sfx, [kp], 'KahanSum operators', traits=('Add', 'AddAssign', 'Default', 'From', 'Sum'))

    def summ(fn, names, args):
        sx = Summarizer(facts, assume_no_overflow=True)
        return sx.summarize(fn['id'], args=args, arg_names=names)

    def fields(v):
        return v[3][sm.k_sum], [x for j, x in enumerate(v[3]) if j != sm.k_sum]

    # ---- D2 kernel through += T
    add_t = facts.trait_method('core::ops::AddAssign', kp, 'add_assign', trait_args=lambda imp: [t['k'] for t in imp.get('trait_args', [])] == ['param'])
    post_t = None
    if chk.anchor('AddAssign<T> for KahanSum' + sfx, add_t):
        cnt['impls'] += 1
        where = facts.loc(add_t['id'])
        try:
            ps = summ(add_t, ['self', 'x'], [by_ref(sm.kahan_value(S, [C])), None])
            chk.saw(facts, add_t, paths=len(ps))
            if not ps or any(not q.is_ret() for q in ps):
                chk.ob('%s:kernel%s' % (PID, sfx), 'E8', 'kernel', None, 'undecided: %d paths, not all returning' % len(ps), where)
            else:
                good, detail = True, ''
                for q in ps:
                    post = q.effects['self']
                    s1, cs = fields(post)
                    g1, d1 = kernel_rule(nf, s1, cs[0])
                    good = good and g1
                    detail = d1 if (not g1 or not detail) else detail
                post_t = [q.effects['self'] for q in ps]
                chk.ob('%s:kernel%s' % (PID, sfx), 'E8 error-algebra', 'the += step is a compensated recurrence: the accumulation\'s rounding error cancels in s -/+ c', good, detail, where,
                       sample={'s_next': T.show(s1), 'c_next': T.show(cs[0]), 'verdict': detail})
                cnt['kernel'] += 1
        except (Unsupported, NotReal) as e:
            chk.ob('%s:kernel%s' % (PID, sfx), 'E8 error-algebra', 'kernel', None, 'undecided: %s' % e, where)

    def K(states, x):
        """the kernel step(s) as substitution instances of the += T summary (one per kernel path)"""
        out = []
        for state in states:
            s0, c0 = fields(state)
            for pt in post_t:
                out.append(T.subst(pt, {S: s0, C: c0[0], X: x}))
        return out

    # ---- D3 merge (decided on the merge's own summary, by the same first-order error algebra as the kernel)
    add_s = facts.trait_method('core::ops::AddAssign', kp, 'add_assign', trait_args=lambda imp: [t.get('adt') for t in imp.get('trait_args', [])] == [kp])
    sigma = SIGMA.get('kernel')
    if chk.anchor('AddAssign<Self> for KahanSum' + sfx, add_s) and post_t is not None and sigma is not None:
        cnt['impls'] += 1
        where = facts.loc(add_s['id'])
        BS, BC = T.sym('bs'), T.sym('bc')
        sg = lambda a, b: T.op('add' if sigma > 0 else 'sub', a, b)
        zero_c = {C: ZERO, BC: ZERO}

        def comp_sized(t):
            """the value of t is a pure rounding residue: it vanishes over the reals when the compensations do"""
            try:
                return nf.is_zero(nf.of_term(T.subst(t, zero_c)))
            except NotReal:
                return False

        try:
            ps = summ(add_s, ['self', 'rhs'], [by_ref(sm.kahan_value(S, [C])), sm.kahan_value(BS, [BC])])
            chk.saw(facts, add_s, paths=len(ps))
            rets = [q for q in ps if q.is_ret()]
            cons, first, recov = [], [], []
            if not rets or len(rets) != len(ps):
                cons.append('the merge has %d paths, %d returning' % (len(ps), len(rets)))
            want = T.op('add', sg(S, C), sg(BS, BC))
            for q in rets:
                s2, c2l = fields(q.effects['self'])
                c2 = c2l[0]
                # (a) conservation over the reals, compensations live
                if not nf.term_equal(sg(s2, c2), want):
                    rest = 'a non-zero rest'
                    for nm, t_ in (('rhs.compensation', BC), ('self.compensation', C), ('rhs.sum', BS), ('self.sum', S)):
                        for k_ in (2, -2, 1, -1):
                            try:
                                if nf.term_equal(sg(s2, c2), T.op('add', want, T.op('mul', T.mk_flt(Fraction(k_)), t_))):
                                    rest = '%+d * %s' % (k_, nm)
                            except NotReal:
                                pass
                    cons.append('the merged register stands for (self) + (rhs) + %s' % rest)
                    continue
                # (c) first order: no rounding error proportional to a partial sum survives in the conserved quantity
                s_nodes = op_nodes(s2)
                recs = recoveries([s2, c2])
                # exact by assumption: operations that only feed the compensation (as in the kernel rule) and the
                # intermediates of the recognised recoveries - (b) below demands their precondition
                only_c = (op_nodes(c2) - s_nodes) | set(n_ for r_ in recs for n_ in r_[3])
                memo = {}
                fq = err_form(s2, only_c, memo).combine(err_form(c2, only_c, memo), sigma)
                left = [t_ for t_, k_ in fq.eps.items() if k_ != 0 and not comp_sized(t_)]
                if left:
                    first.append('the rounding error of %s (a quantity of the size of a partial sum) remains in the merged register: each merge loses up to u*|partial sum|' % T.show(left[0])[:70])
                # (b) the recoveries that (c) took as exact need |p| >= |q|: by the path condition, or trivially (q is a residue)
                if not recs and s_nodes:
                    recov.append('undecided: the rounding error of the new sum is not recovered in a recognised (Fast2Sum) form')
                for t_, p_, q_, _x in recs:
                    if comp_sized(q_) and not comp_sized(p_):
                        continue
                    pa, qa = T.op('abs', simp0(T.subst(p_, zero_c))), T.op('abs', simp0(T.subst(q_, zero_c)))
                    oks = {(T.op('lt', qa, pa), True), (T.op('le', qa, pa), True), (T.op('lt', pa, qa), False), (T.op('le', pa, qa), False)}
                    norm_guard = set()
                    for a_, pol in q.guard:
                        norm_guard.add((a_, pol))
                    if not (oks & norm_guard):
                        recov.append('nothing establishes |%s| >= |%s| where the error of their sum is recovered as (t - p) - q, which is exact only then (Dekker): merging a register into a smaller one loses the rounding error of the merge' % (T.show(simp0(T.subst(p_, zero_c)))[:30], T.show(simp0(T.subst(q_, zero_c)))[:30]))
            chk.ob('%s:merge:conserved%s' % (PID, sfx), 'E8 error-algebra', 'the merge conserves s %s c: the merged register stands for the sum of what the two operands stand for (on every path, compensations live)' % ('+' if sigma > 0 else '-'),
                   not cons, '; '.join(sorted(set(cons))[:2]), where)
            if not cons:
                chk.ob('%s:merge:first-order%s' % (PID, sfx), 'E8 error-algebra', 'no rounding error of the size of a partial sum survives a merge (else balanced merge trees lose u*sum|x| per level and chains accumulate like naive summation)',
                       not first, '; '.join(sorted(set(first))[:2]), where)
                und = [x for x in recov if x.startswith('undecided')]
                chk.ob('%s:merge:recovery%s' % (PID, sfx), 'E8 error-algebra', 'where the merge recovers the rounding error of adding two sums, the path condition makes the first operand the larger one (precondition of the exact recovery)',
                       None if und else not recov, '; '.join(sorted(set(recov))[:2]), where)
                cnt['kernel'] += 2
        except (Unsupported, NotReal) as e:
            chk.ob('%s:merge:conserved%s' % (PID, sfx), 'E8 error-algebra', 'merge', None, 'undecided: %s' % e, where)

    addx = facts.trait_method('core::ops::Add', kp, 'add')
    if chk.anchor('Add<X> for KahanSum' + sfx, addx):
        cnt['impls'] += 1
        # generic forwarding: sum = self; sum += rhs; sum  -- the only callee besides moves is AddAssign<X>
        ins = facts.root_instance(addx['id'])[0]
        callees = [c.get('trait', c['path']) + '::' + c.get('method', '') for bb, c in ins['calls']]
        # every step of `register + x` is one of the decided ones: `+=` (kernel or merge), possibly after converting the
        # operand into a register through the register's own From / Into
        norm = [c.replace('std::', 'core::') for c in callees]
        good = norm.count('core::ops::AddAssign::add_assign') == 1 and all(c in ('core::ops::AddAssign::add_assign', 'core::convert::Into::into', 'core::convert::From::from') for c in norm)
        chk.ob('%s:add-forwards%s' % (PID, sfx), 'E2 who-calls', 'register + x is one `+=` (on a copy, possibly after converting the operand into a register): no second summation path', good, 'callees: %s' % callees, facts.loc(addx['id']))

    # ---- D4 value()
    try:
        v = sm.value_of(sm.kahan_value(S, [C]))
        k = None
        for kk in (-1, 0, 1):
            want = T.op('add', S, T.op('mul', T.mk_int(kk), C))
            if nf.term_equal(v, want):
                k = kk
        chk.ob('%s:value%s' % (PID, sfx), 'E4', 'value() is sum + k*compensation with k in {-1,0,1}', k is not None, 'value() = %s (k = %s)' % (T.show(v), k), facts.loc(sm.value_fn['id']))
        sg_ = SIGMA.get('kernel')
        if k is not None and sg_ is not None:
            # the register stands for s + sigma*c (what the kernel and the merge conserve): value() has to read that quantity,
            # else a query is off by 2c, a merge with the empty register changes what value() returns (the conserved quantity
            # is renormalised, its mis-read image is not), and `a + empty == a` fails in the crate's own equality
            chk.ob('%s:value:conserved%s' % (PID, sfx), 'E4', 'value() reads the quantity the kernel conserves (k = sigma; k = 0 would ignore the residue)', k == sg_,
                   'value() = sum %s compensation, the kernel conserves sum %s compensation' % ('+' if k > 0 else ('-' if k < 0 else '+ 0 *'), '+' if sg_ > 0 else '-'), facts.loc(sm.value_fn['id']))
    except (Unsupported, NotReal) as e:
        chk.ob('%s:value%s' % (PID, sfx), 'E4', 'value()', None, 'undecided: %s' % e, facts.loc(sm.value_fn['id']))

    # ---- D1 who may construct / re-seed
    new = facts.inherent(kp, 'new')
    ctor_callers = set()
    agg_sites = set()
    for root, insts in facts.inst_roots.items():
        for ins in insts:
            for bb, c in ins['allcalls']:
                if 'inst' in c and insts[c['inst']]['def'] == new['id']:
                    ctor_callers.add(ins['def'])
    for b in facts.raw['bodies']:
        for bl in b['blocks']:
            if bl['cleanup']:
                continue
            for st in bl['stmts']:
                rv = st.get('rv', {})
                if rv.get('agg') == 'adt' and rv.get('adt') == kp:
                    agg_sites.add(b['def'])

    def own(def_id, allow_derived=True):
        fn = facts.fns[def_id]
        imp = facts.impls.get(fn.get('impl'))
        if imp is None:
            return False
        if imp['self_ty'].get('adt') != kp:
            return False
        return True
    bad_callers = [facts.fns[d]['path'] for d in ctor_callers if not own(d)]
    bad_aggs = [facts.fns[d]['path'] for d in agg_sites if not own(d) and 'serde' not in facts.fns[d]['path'] and '_::' not in facts.fns[d]['path']]
    chk.ob('%s:who-constructs%s' % (PID, sfx), 'who-may-construct', 'registers are created only inside the register\'s own impls (constructor, Default, From, Clone, serde derives): no re-seeding from value()',
           not bad_callers and not bad_aggs, 'constructor called from %s; aggregates in %s' % (bad_callers, bad_aggs), facts.loc(new['id']),
           sample={'constructor_callers': sorted(facts.fns[d]['path'] for d in ctor_callers), 'aggregate_sites': sorted(facts.fns[d]['path'] for d in agg_sites)})
    # a register is never collapsed into another one: no function reads `value()` of a register and also updates a register
    # by value (`+= x`, `+ x`, `new(x)`) - that would drop the source's compensation and, in a merge, feed a partial sum
    # through the by-value kernel, whose recovery is not exact for an addend larger than the running sum
    try:
        upd = set(f_['id'] for f_ in (add_t, addx, new) if f_ is not None)
        add_s_ = facts.trait_method('core::ops::AddAssign', kp, 'add_assign', trait_args=lambda imp: [t.get('adt') for t in imp.get('trait_args', [])] == [kp])
        own_ids = set()
        bad_mix = []
        for root, insts in facts.inst_roots.items():
            for ins in insts:
                if ins['def'] not in facts.fns or own(ins['def']):
                    continue
                callees = set(insts[c['inst']]['def'] for bb, c in ins['allcalls'] if 'inst' in c)
                if sm.value_fn['id'] in callees and callees & upd:
                    bad_mix.append(facts.fns[ins['def']]['path'])
        bad_mix = sorted(set(bad_mix))
        chk.ob('%s:no-collapse%s' % (PID, sfx), 'who-may-call', 'no function outside the register reads value() of a register and updates a register by value (a register is merged as a register, with its compensation)',
               not bad_mix, 'value() and a by-value register update in: %s' % bad_mix[:3], facts.loc(sm.value_fn['id']))
    except (KeyError, TypeError) as e:
        chk.ob('%s:no-collapse%s' % (PID, sfx), 'who-may-call', 'no-collapse', None, 'undecided: %r' % (e,), facts.loc(sm.value_fn['id']))
    # the statistics state holds two registers
    d = sm.arith_default_value
    cnt['acc'] = sum(1 for x in d[3] if x[0] == 'adt' and x[1] == kp)
    if cfg == 'default':
        chk.floor('register-impls', cnt['impls'], 3)
        chk.floor('kernel-applications', cnt['kernel'], 3)
        chk.floor('accumulators-in-Arithmetic', cnt['acc'], 2)
    chk.rules.append('E8 first-order error algebra on the kernel; composition rule for the merge; who-may-construct for registers')
    chk.notes.append('observation, not a violation: value() adds the compensation the kernel subtracts (sigma = -1, k = +1); the deviation is one residual (<= 1/2 ulp of the sum) per query and does not accumulate')
    chk.notes.append('NOT decided: the constant of the O(u*sum|x|) bound and long-stream f32/f64 behaviour (runtime quantities); the bound is the classical theorem about the recurrence that D2 identifies')


ASSUMPTIONS = ['Dekker/Kahan lemma: the recovery subtractions (operations feeding only the compensation) are exact', 'first-order error model fl(a o b) = (a o b) + e; products of errors dropped']
