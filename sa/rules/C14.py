"""C14 - intervals are well-formed; accessors / conversions are lossless.

D1 fallible constructors/conversions: decision tables over the orderings of the supplied
   bounds (Ok(TwoSided(lo,hi)) iff lo <= hi, else InvalidBounds; (None,None) => EmptyInterval)
   + who-may-construct inventory of two-sided aggregates.
D2 projection tables for every accessor and conversion (stored bound or documented stand-in).
D3 round trips by composing summaries.
D4 kind predicates / is_degenerate / width.
D5 Clone is the identity; Hash writes an injective tag followed by exactly the bounds.
D6 == holds exactly for same-kind intervals with equal bounds (decision table over variant pairs x weak orders):
   different kinds with the same bound are unequal, and Hash (D5) agrees with ==."""
import itertools

from .. import terms as T
from ..ivl import IvlModel, describe_env
from ..order import weak_orders, guard_holds, eval_term, NotParametric, NEG_INF, POS_INF
from ..symex import Summarizer, Unsupported
from ..tables import table_check, summarize, kinds_str, KIND_NAMES, show_val
from ..types import RESULT, OPTION, INT_BITS

PID = 'C14'
INTS = ['i8', 'i16', 'i32', 'i64', 'i128', 'u8', 'u16', 'u32', 'u64', 'u128', 'isize', 'usize']


def int_range(k):
    bits = INT_BITS[k]
    if k.startswith('i'):
        return -(1 << (bits - 1)), (1 << (bits - 1)) - 1
    return 0, (1 << bits) - 1


def err_name(facts, v):
    """Name of the innermost error variant of Result::Err(e)."""
    if v[0] == 'adt' and v[1] == RESULT and v[2] == 1:
        e = v[3][0]
        if e[0] == 'adt' and e[1] in facts.adts:
            return facts.adts[e[1]]['variants'][e[2]]['name']
    return None


def run(chk, ctx):
    for cfg in ctx.configs():
        run_cfg(chk, ctx.facts(cfg), cfg)


def run_cfg(chk, facts, cfg):
    m = IvlModel(facts)
    sfx = '' if cfg == 'default' else '[%s]' % cfg
    if not chk.anchor('Interval+constructors' + sfx, m if m.ok() else None):
        chk.notes.extend(m.problems)
        return
    from ..overrides import obligation as no_overrides
    def check_clone_from(fnrec):
        # an overridden Clone::clone_from must leave exactly the source in the destination, for every pair of kinds
        from ..symex import Summarizer
        from ..statsmodel import by_ref
        where_ = facts.loc(fnrec['id'])
        probs = []
        try:
            for kind in ('two', 'upper', 'lower'):
                src = m.value('B', kind)
                sx_ = Summarizer(facts)
                ps = sx_.summarize(fnrec['id'], args=[None, by_ref(src)], arg_names=['A', 'B'])
                chk.saw(facts, fnrec, paths=len(ps))
                for p_ in ps:
                    if not p_.is_ret():
                        probs.append('panics for a %s source' % KIND_NAMES[kind])
                    elif p_.effects.get('A') != src:
                        probs.append('destination after clone_from of a %s source is %s' % (KIND_NAMES[kind], show_val(p_.effects.get('A'))))
        except Unsupported as e:
            chk.ob('%s:clone_from(override)%s' % (PID, sfx), 'effects', 'clone_from', None, 'undecided: %s' % e, where_)
            return
        chk.ob('%s:clone_from(override)%s' % (PID, sfx), 'effects', 'the overridden Clone::clone_from leaves exactly the source in the destination (all 9 kind pairs)',
               not probs, '; '.join(sorted(set(probs))[:2]), where_)

    def check_ne(fnrec):
        table_check(chk, PID, facts, m, fnrec, 'ne(override)' + sfx, ['A', 'B'], [],
                    lambda kinds, env: not (kinds[0] == kinds[1] and m.denote('A', kinds[0], env) == m.denote('B', kinds[1], env)))
    no_overrides(chk, PID, facts, sfx, [m.path], 'Clone / PartialEq / Hash / conversions of Interval', traits=('Clone', 'PartialEq', 'Eq', 'Hash', 'From', 'Into', 'TryFrom', 'TryInto', 'Default'),
                 checkers={('Clone', 'clone_from'): check_clone_from, ('PartialEq', 'ne'): check_ne})
    counts = {'fallible': 0, 'bodies': 3}
    TWO, UP, LO = (m.kinds[k][0] for k in ('two', 'upper', 'lower'))

    def ivl(kind, *vals):
        spec = m.kinds[kind]
        if kind == 'two':
            f = [None, None]
            f[spec[1]] = vals[0]
            f[spec[2]] = vals[1]
            return ('adt', m.path, spec[0], tuple(f))
        return ('adt', m.path, spec[0], (vals[0],))

    # ------------------------------------------------------------------ D1
    def fallible(fn, label, names, cases):
        """cases: list of (case name, variants dict, symbols, expected(env) -> value)"""
        where = facts.loc(fn['id'])
        try:
            sx, paths = summarize(facts, fn, names)
        except Unsupported as e:
            chk.ob('%s:%s:analysable%s' % (PID, label, sfx), 'E5-table', label, None, str(e), where)
            return
        chk.saw(facts, fn, paths=len(paths))
        counts['fallible'] += 1
        counts['bodies'] += 1
        for cname, variants, syms, expected in cases:
            key = '%s:%s:%s%s' % (PID, label, cname, sfx)
            bad = und = None
            n = 0
            for env in weak_orders(syms):
                n += 1
                try:
                    hits = [p for p in paths if guard_holds(p.guard, variants, env)]
                    outs = set()
                    for p in hits:
                        if p.unknowns:
                            raise NotParametric('unmodelled callee %s' % p.unknowns[0][0])
                        if p.is_panic():
                            outs.add(('panic',))
                        else:
                            v = eval_term(p.ret, env)
                            en = err_name(facts, p.ret)
                            outs.add(('err', en) if en else v)
                except NotParametric as e:
                    und = str(e)
                    continue
                if len(outs) != 1:
                    und = '%d outcomes for %s' % (len(outs), describe_env(env))
                    continue
                got = outs.pop()
                want = expected(env)
                if got != want and bad is None:
                    bad = 'with %s: got %s, expected %s' % (describe_env(env) or 'no bounds', show_val(got), show_val(want))
            chk.ob(key, 'E5-table', '%s (%s): Ok exactly for ordered bounds, documented error otherwise' % (label, cname),
                   None if und else bad is None, ('undecided: ' + und) if und else (bad or ''), where,
                   sample={'fn': label, 'case': cname, 'orderings': n})

    def two_case(lo, hi):
        return lambda env: ('adt', RESULT, 0, (eval_term(ivl('two', T.sym(lo), T.sym(hi)), env),)) if env[lo] <= env[hi] else ('err', 'InvalidBounds')

    f = facts.inherent(m.path, 'new')
    if chk.anchor('Interval::new' + sfx, f):
        fallible(f, 'new', ['low', 'high'], [('bounds', {}, ['low', 'high'], two_case('low', 'high'))])
    f = facts.trait_method('core::convert::TryFrom', m.path, 'try_from', trait_args=lambda imp: imp['trait_args'][0]['k'] == 'tuple' and imp['trait_args'][0]['elems'][0]['k'] == 'param')
    if chk.anchor('TryFrom<(T,T)> for Interval' + sfx, f):
        fallible(f, 'try_from_pair', ['value'], [('bounds', {}, ['value.0', 'value.1'], two_case('value.0', 'value.1'))])
    f = facts.trait_method('core::convert::TryFrom', m.path, 'try_from', trait_args=lambda imp: imp['trait_args'][0]['k'] == 'tuple' and imp['trait_args'][0]['elems'][0].get('adt', '').endswith('Option'))
    if chk.anchor('TryFrom<(Option<T>,Option<T>)> for Interval' + sfx, f):
        a, b = 'value.0.Some.0', 'value.1.Some.0'
        S0, S1 = T.sym('value.0'), T.sym('value.1')
        fallible(f, 'try_from_options', ['value'], [
            ('(Some,Some)', {S0: 1, S1: 1}, [a, b], two_case(a, b)),
            ('(Some,None)', {S0: 1, S1: 0}, [a], lambda env: ('adt', RESULT, 0, (eval_term(ivl('upper', T.sym(a)), env),))),
            ('(None,Some)', {S0: 0, S1: 1}, [b], lambda env: ('adt', RESULT, 0, (eval_term(ivl('lower', T.sym(b)), env),))),
            ('(None,None)', {S0: 0, S1: 0}, [], lambda env: ('err', 'EmptyInterval')),
        ])
    f = facts.trait_method('core::convert::TryFrom', m.path, 'try_from', trait_args=lambda imp: imp['trait_args'][0].get('adt', '').endswith('RangeInclusive'))
    if chk.anchor('TryFrom<RangeInclusive<T>> for Interval' + sfx, f):
        fallible(f, 'try_from_range_inclusive', ['range'], [('bounds', {}, ['range.start', 'range.end'], two_case('range.start', 'range.end'))])

    # who may construct a two-sided interval (shared with C11: sa/construct.py)
    from ..construct import obligation as who_may_construct
    nsites = who_may_construct(chk, PID, facts, sfx, m, cfg)
    if cfg == 'default':
        chk.floor('two-sided-construction-sites', nsites, 4)

    # ------------------------------------------------------------------ D2/D4/D5 per-kind tables
    def opt(v):
        return ('adt', OPTION, 1, (v,)) if v is not None else ('adt', OPTION, 0, ())

    def inh(name):
        f = facts.inherent(m.path, name)
        return f if chk.anchor('Interval::%s%s' % (name, sfx), f) else None

    def tab(f, label, ref, decode=None, extra=()):
        counts['bodies'] += 1
        table_check(chk, PID, facts, m, f, label + sfx, ['A'], list(extra), ref, decode=decode)

    def lo_rank(kinds, env):
        lo, hi = m.bounds('A', kinds[0])
        return env[lo] if lo else None

    def hi_rank(kinds, env):
        lo, hi = m.bounds('A', kinds[0])
        return env[hi] if hi else None
    for name, side in (('left', lo_rank), ('low', lo_rank), ('low_as_ref', lo_rank), ('right', hi_rank), ('high', hi_rank), ('high_as_ref', hi_rank)):
        f = inh(name)
        if f:
            tab(f, name, (lambda s: lambda kinds, env: opt(s(kinds, env)))(side))
    for name, side, stand in (('low_f', lo_rank, NEG_INF), ('high_f', hi_rank, POS_INF), ('low_i', lo_rank, NEG_INF), ('high_i', hi_rank, POS_INF),
                              ('low_u', lo_rank, NEG_INF), ('high_u', hi_rank, POS_INF)):
        f = inh(name)
        if f:
            tab(f, name, (lambda s, d: lambda kinds, env: s(kinds, env) if s(kinds, env) is not None else d)(side, stand))
    for name, kind in (('is_two_sided', 'two'), ('is_upper', 'upper'), ('is_lower', 'lower')):
        f = inh(name)
        if f:
            tab(f, name, (lambda k: lambda kinds, env: kinds[0] == k)(kind))
    f = inh('is_one_sided')
    if f:
        tab(f, 'is_one_sided', lambda kinds, env: kinds[0] != 'two')
    f = inh('is_degenerate')
    if f:
        tab(f, 'is_degenerate', lambda kinds, env: kinds[0] == 'two' and lo_rank(kinds, env) == hi_rank(kinds, env))
    f = facts.trait_method('core::clone::Clone', m.path, 'clone')
    if chk.anchor('Clone for Interval' + sfx, f):
        tab(f, 'clone', lambda kinds, env: eval_term(m.value('A', kinds[0]), env))
    # width: Some(high - low) iff two-sided (structural)
    f = inh('width')
    if f:
        counts['bodies'] += 1
        where = facts.loc(f['id'])
        try:
            sx, paths = summarize(facts, f, ['A'])
            chk.saw(facts, f, paths=len(paths))
            for kind in ('two', 'upper', 'lower'):
                v = m.kinds[kind][0]
                hits = [p for p in paths if all(atom[0] == 'variant' and (atom[2] == v) == pol for atom, pol in p.guard)]
                lo, hi = m.bounds('A', kind)
                want = opt(T.op('sub', T.sym(hi), T.sym(lo))) if kind == 'two' else opt(None)
                good = len(hits) == 1 and hits[0].is_ret() and hits[0].ret == want
                chk.ob('%s:width:(%s)%s' % (PID, KIND_NAMES[kind], sfx), 'E5-table', 'width is Some(high - low) exactly for two-sided intervals',
                       good, '' if good else 'returns %s' % [show_val(p.ret) for p in hits], where)
        except Unsupported as e:
            chk.ob('%s:width:analysable%s' % (PID, sfx), 'E5-table', 'width', None, str(e), where)

    # conversions out of an interval
    from_ivl = lambda imp: bool(imp.get('trait_args')) and imp['trait_args'][0].get('adt') == m.path
    f = facts.trait_method('core::convert::From', None, 'from', self_s='(std::option::Option<T>, std::option::Option<T>)', trait_args=from_ivl)
    from_opts = f
    if chk.anchor('From<Interval<T>> for (Option<T>,Option<T>)' + sfx, f):
        tab(f, 'into_options', lambda kinds, env: ('tuple', (opt(lo_rank(kinds, env)), opt(hi_rank(kinds, env)))))
    nconv = 0
    from_f64 = None
    for ty in INTS + ['f32', 'f64']:
        f = facts.trait_method('core::convert::From', None, 'from', self_s='(%s, %s)' % (ty, ty), trait_args=from_ivl)
        if not chk.anchor('From<Interval<%s>> for (%s,%s)%s' % (ty, ty, ty, sfx), f):
            continue
        nconv += 1
        if ty == 'f64':
            from_f64 = f
        if ty in INTS:
            mn, mx = int_range(ty)
            ref = (lambda mn, mx: lambda kinds, env: ('tuple', (lo_rank(kinds, env) if lo_rank(kinds, env) is not None else ('int', mn),
                                                                  hi_rank(kinds, env) if hi_rank(kinds, env) is not None else ('int', mx))))(mn, mx)
        else:
            ref = lambda kinds, env: ('tuple', (lo_rank(kinds, env) if lo_rank(kinds, env) is not None else NEG_INF,
                                                hi_rank(kinds, env) if hi_rank(kinds, env) is not None else POS_INF))
        tab(f, 'into_pair_%s' % ty, ref)
    if cfg == 'default':
        chk.floor('tuple-conversions', nconv, 14)
    for tr_arg, label, kind in (('RangeFrom', 'from_range_from', 'upper'), ('RangeToInclusive', 'from_range_to_inclusive', 'lower')):
        f = facts.trait_method('core::convert::From', m.path, 'from', trait_args=(lambda a: lambda imp: imp['trait_args'][0].get('adt', '').endswith(a))(tr_arg))
        if chk.anchor('From<%s<T>> for Interval%s' % (tr_arg, sfx), f):
            counts['bodies'] += 1
            where = facts.loc(f['id'])
            try:
                sx, paths = summarize(facts, f, ['range'])
                chk.saw(facts, f, paths=len(paths))
                rets = [p.ret for p in paths if p.is_ret()]
                good = len(paths) == 1 and len(rets) == 1 and rets[0][0] == 'adt' and rets[0][1] == m.path and rets[0][2] == m.kinds[kind][0] \
                    and len(rets[0][3]) == 1 and rets[0][3][0][0] == 'sym' and rets[0][3][0][1].startswith('range.')
                chk.ob('%s:%s%s' % (PID, label, sfx), 'E5-table', '%s yields the %s interval with the range\'s bound' % (label, KIND_NAMES[kind]),
                       good, '' if good else 'returns %s' % [show_val(r) for r in rets], where)
            except Unsupported as e:
                chk.ob('%s:%s%s' % (PID, label, sfx), 'E5-table', label, None, str(e), where)

    # ------------------------------------------------------------------ D3 round trips
    tf_opts = facts.trait_method('core::convert::TryFrom', m.path, 'try_from', trait_args=lambda imp: imp['trait_args'][0]['k'] == 'tuple' and imp['trait_args'][0]['elems'][0].get('adt', '').endswith('Option'))
    tf_pair = facts.trait_method('core::convert::TryFrom', m.path, 'try_from', trait_args=lambda imp: imp['trait_args'][0]['k'] == 'tuple' and imp['trait_args'][0]['elems'][0]['k'] == 'param')

    def roundtrip(label, f_out, f_back, kinds_list):
        if not (f_out and f_back):
            return
        where = facts.loc(f_back['id'])
        for kind in kinds_list:
            key = '%s:roundtrip:%s:(%s)%s' % (PID, label, KIND_NAMES[kind], sfx)
            try:
                sx, p1 = summarize(facts, f_out, ['A'], args=[m.value('A', kind)])
                if len(p1) != 1 or not p1[0].is_ret() or p1[0].guard:
                    chk.ob(key, 'compose', 'round trip', None, 'undecided: conversion has %d paths' % len(p1), where)
                    continue
                mid = p1[0].ret
                sx, p2 = summarize(facts, f_back, ['value'], args=[mid])
            except Unsupported as e:
                chk.ob(key, 'compose', 'round trip', None, str(e), where)
                continue
            chk.saw(facts, f_back, paths=len(p2))
            lo, hi = m.bounds('A', kind)
            syms = [s for s in (lo, hi) if s]
            bad = None
            for env in weak_orders(syms):
                if lo and hi and env[lo] > env[hi]:
                    continue
                try:
                    hits = [p for p in p2 if guard_holds(p.guard, {}, env)]
                    outs = set(eval_term(p.ret, env) if p.is_ret() else ('panic',) for p in hits)
                except NotParametric as e:
                    outs = {('?', str(e))}
                want = ('adt', RESULT, 0, (eval_term(m.value('A', kind), env),))
                if outs != {want} and bad is None:
                    bad = 'with %s: %s' % (describe_env(env), [show_val(o) for o in outs])
            chk.ob(key, 'compose', 'try_from(%s(i)) == Ok(i) for every well-formed %s interval' % (label, KIND_NAMES[kind]), bad is None, bad or '', where,
                   sample={'roundtrip': label, 'kind': KIND_NAMES[kind], 'via': show_val(mid)})
    roundtrip('options', from_opts, tf_opts, ['two', 'upper', 'lower'])
    roundtrip('pair_f64', from_f64, tf_pair, ['two'])
    # converse: <(Option,Option)>::from(try_from(pair)) == pair on valid pairs follows from the two tables above
    # (try_from table gives the interval of the pair, into_options table gives its bounds back)

    # ------------------------------------------------------------------ D5 Hash
    f = facts.trait_method('core::hash::Hash', m.path, 'hash')
    if chk.anchor('Hash for Interval' + sfx, f):
        counts['bodies'] += 1
        where = facts.loc(f['id'])
        try:
            sx, paths = summarize(facts, f, ['A', 'state'])
            chk.saw(facts, f, paths=len(paths))
            tags = {}
            for kind in ('two', 'upper', 'lower'):
                v = m.kinds[kind][0]
                hits = [p for p in paths if all(atom[0] == 'variant' and (atom[2] == v) == pol for atom, pol in p.guard)]
                lo, hi = m.bounds('A', kind)
                want_fields = [T.sym(s) for s in (lo, hi) if s]
                if len(hits) != 1 or hits[0].unknowns:
                    chk.ob('%s:hash:(%s)%s' % (PID, KIND_NAMES[kind], sfx), 'effects', 'hash', None, 'undecided: %d paths' % len(hits), where)
                    continue
                hs = [e[1] for e in hits[0].events if e[0] == 'hash']
                tag = hs[0] if hs else None
                rest = hs[1:]
                good = tag is not None and T.is_const(tag) and sorted(map(repr, rest)) == sorted(map(repr, want_fields)) and len(rest) == len(want_fields)
                tags[kind] = tag
                chk.ob('%s:hash:(%s)%s' % (PID, KIND_NAMES[kind], sfx), 'effects',
                       'Hash feeds a constant tag followed by exactly the bounds that == compares (equal intervals hash equally)',
                       good, '' if good else 'hash writes %s' % [show_val(h) for h in hs], where,
                       sample={'kind': KIND_NAMES[kind], 'hash_writes': [show_val(h) for h in hs]})
            if len(tags) == 3:
                chk.ob('%s:hash:tags%s' % (PID, sfx), 'effects', 'the kind tag is injective on the three kinds', len(set(tags.values())) == 3,
                       'tags %r' % ({k: show_val(v) for k, v in tags.items()},), where)
        except Unsupported as e:
            chk.ob('%s:hash:analysable%s' % (PID, sfx), 'effects', 'hash', None, str(e), where)
    # ------------------------------------------------------------------ D6 == (the relation Hash must agree with)
    feq = facts.trait_method('core::cmp::PartialEq', m.path, 'eq')
    if chk.anchor('PartialEq for Interval' + sfx, feq):
        counts['bodies'] += 1

        def sem_eq(kinds, env):
            return kinds[0] == kinds[1] and m.denote('A', kinds[0], env) == m.denote('B', kinds[1], env)
        table_check(chk, PID, facts, m, feq, 'eq' + sfx, ['A', 'B'], [], sem_eq)
    if cfg == 'default':
        chk.floor('fallible-constructors', counts['fallible'], 4)
        chk.floor('bodies', counts['bodies'] + nconv, 43)
    chk.rules.append('E5-table (constructors, accessors, conversions), who-may-construct, compose (round trips), effects (Hash)')
    chk.notes.append('Interval::new(NaN, x) is accepted while try_from((NaN, x)) is rejected: outside the quantifier (ordered element types)')
