"""C19 - approximate interval equality is kind-aware and bound-wise; Display is canonical.

D1 (E5, boolean table): abs_diff_eq / relative_eq / ulps_eq on every kind pair: same kind =>
exactly the conjunction of the element relation on corresponding bounds with the caller's
tolerances passed through unchanged (checked as a boolean function of the opaque element
relations: all truth assignments); different kinds => false.  Reflexivity, symmetry and
"implied by ==" are inherited from the element relation (contract of `approx` on floats).
D2: Display: the three format_args! templates (post-expansion AST) are exactly "[{}, {}]",
"[{},->)", "(<-,{}]" with plain Display placeholders, and in the MIR each template's
arguments are the variant's bounds in order (low, high)."""
import itertools

from .. import terms as T
from ..ivl import IvlModel
from ..symex import Unsupported
from ..tables import summarize, kinds_str, KIND_NAMES

PID = 'C19'
APPROX = [('approx::AbsDiffEq', 'abs_diff_eq', ['eps']), ('approx::RelativeEq', 'relative_eq', ['eps', 'max_relative']),
          ('approx::UlpsEq', 'ulps_eq', ['eps', 'max_ulps'])]


def eval_bool(t, assign):
    if t[0] == 'bool':
        return t[1]
    if t[0] == 'call':
        return assign[t]
    if t[0] == 'op' and t[1] == 'not':
        return not eval_bool(t[2][0], assign)
    if t[0] == 'op' and t[1] == 'and':
        return eval_bool(t[2][0], assign) and eval_bool(t[2][1], assign)
    raise KeyError(T.show(t))


def run(chk, ctx):
    for cfg in ctx.configs():
        facts = ctx.facts(cfg)
        run_cfg(chk, facts, cfg)


def run_cfg(chk, facts, cfg):
    m = IvlModel(facts)
    sfx = '' if cfg == 'default' else '[%s]' % cfg
    if not chk.anchor('Interval+constructors' + sfx, m if m.ok() else None):
        chk.notes.extend(m.problems)
        return
    from ..overrides import obligation as no_overrides
    has_approx = 'approx' in facts.meta['features']
    n = 0
    def check_rel(f, meth, tols, label, negate=False):
        """the impl `f`, as a boolean function of the element relations `meth` on corresponding bounds, is their
        conjunction (false for different kinds); negate: an overridden *_ne form must be the negation of that"""
        ne_name = meth.replace('_eq', '_ne')
        where = facts.loc(f['id'])
        names = ['A', 'B'] + tols
        try:
            sx, paths = summarize(facts, f, names)
        except Unsupported as e:
            chk.ob('%s:%s:analysable%s' % (PID, label, sfx), 'E5-bool', label, None, str(e), where)
            return
        chk.saw(facts, f, paths=len(paths))
        tol_terms = tuple(T.sym(t) for t in tols)

        def norm(atom, pol):
            # an element-level *_ne is the negation of the element-level *_eq (approx's provided method)
            if atom[0] == 'call' and atom[1] == ne_name:
                return ('call', meth, atom[2]), not pol
            return atom, pol

        def norm_term(t):
            if t[0] == 'call' and t[1] == ne_name:
                return T.op('not', ('call', meth, t[2]))
            if t[0] == 'op':
                return ('op', t[1], tuple(norm_term(x) if isinstance(x, tuple) and x and isinstance(x[0], str) else x for x in t[2]))
            return t
        for ka, kb in itertools.product(('two', 'upper', 'lower'), repeat=2):
            key = '%s:%s:%s%s' % (PID, label, kinds_str((ka, kb)), sfx)
            desc = '%s on %s is %sthe bound-wise element relation with the tolerances passed through (%s for different kinds)' % (label, kinds_str((ka, kb)), 'the negation of ' if negate else '', 'true' if negate else 'false')
            variants = {T.sym('A'): m.kinds[ka][0], T.sym('B'): m.kinds[kb][0]}
            cand = []
            for p in paths:
                okp = True
                rest = []
                for atom, pol in p.guard:
                    if atom[0] == 'variant':
                        if (variants.get(atom[1]) == atom[2]) != pol:
                            okp = False
                    else:
                        rest.append(norm(atom, pol))
                if okp:
                    cand.append((p, rest))
            if ka == kb:
                la, ha = m.bounds('A', ka)
                lb, hb = m.bounds('B', kb)
                want_atoms = [('call', meth, (T.sym(x), T.sym(y)) + tol_terms) for x, y in ((la, lb), (ha, hb)) if x and y]
            else:
                want_atoms = []
            atoms = set(want_atoms)
            rets = {}
            for p, rest in cand:
                for atom, pol in rest:
                    atoms.add(atom)
                if p.ret is not None:
                    rets[id(p)] = norm_term(p.ret)
                    T.walk(rets[id(p)], lambda t: atoms.add(t) if t[0] == 'call' else None)
            atoms = sorted(atoms, key=repr)
            bad = und = None
            if any(a_[0] != 'call' or a_[1] != meth for a_ in atoms):
                und = 'guard is not an element relation: %s' % [T.show(a_) for a_ in atoms if a_[0] != 'call' or a_[1] != meth][:2]
            else:
                for vals in itertools.product((False, True), repeat=len(atoms)):
                    assign = dict(zip(atoms, vals))
                    outs = set()
                    for p, rest in cand:
                        if all(assign[a_] == pol for a_, pol in rest):
                            outs.add(eval_bool(rets.get(id(p), p.ret), assign) if p.is_ret() else 'panic')
                    if len(outs) != 1:
                        und = '%d outcomes' % len(outs)
                        break
                    want = (ka == kb) and all(assign[a_] for a_ in want_atoms)
                    if negate:
                        want = not want
                    if outs.pop() != want:
                        bad = 'with element relations %s the result is %s, expected %s' % (
                            {T.show(a_): v for a_, v in assign.items()}, not want, want)
                        break
                extra = [a_ for a_ in atoms if a_ not in want_atoms]
                if extra and not bad and not und:
                    bad = 'compares other operands/tolerances than the corresponding bounds: %s' % [T.show(a_) for a_ in extra][:2]
            chk.ob(key, 'E5-bool', desc, None if und else bad is None, ('undecided: ' + und) if und else (bad or ''), where,
                   sample={'fn': label, 'kinds': kinds_str((ka, kb)), 'atoms': [T.show(a_) for a_ in want_atoms]})

    for trait, meth, tols in APPROX:
        f = facts.trait_method(trait, m.path, meth)
        if not has_approx:
            chk.ob('%s:%s:absent%s' % (PID, meth, sfx), 'cfg', '%s impl is compiled out without the approx feature' % meth, f is None,
                   '' if f is None else 'impl present although the feature is off')
            continue
        if not chk.anchor('%s for Interval%s' % (trait, sfx), f):
            continue
        n += 1
        check_rel(f, meth, tols, meth)
    tol_of = {meth: tols for _tr, meth, tols in APPROX}
    no_overrides(chk, PID, facts, sfx, [m.path], 'approx impls of Interval (the *_ne forms follow from the *_eq forms)', traits=('AbsDiffEq', 'RelativeEq', 'UlpsEq', 'Display', 'Debug'),
                 checkers={(tr.split('::')[-1], meth.replace('_eq', '_ne')): (lambda fnrec, meth=meth: check_rel(fnrec, meth, tol_of[meth], meth.replace('_eq', '_ne') + '(%s)' % ('override' if fnrec.get('impl') is not None and (facts.impls.get(fnrec.get('impl')) or {}).get('trait') else 'inherent'), negate=True)) for tr, meth, _t in APPROX},
                 shadow_checkers={(tr.split('::')[-1], meth): (lambda fnrec, meth=meth: check_rel(fnrec, meth, tol_of[meth], meth + '(inherent)')) for tr, meth, _t in APPROX})
    if has_approx and cfg == 'default':
        chk.floor('approx-impls', n, 3)

    # ---- D2 Display
    f = facts.trait_method('core::fmt::Display', m.path, 'fmt')
    if chk.anchor('Display for Interval' + sfx, f):
        where = facts.loc(f['id'])
        want = {'two': ['[', 0, ', ', 1, ']'], 'upper': ['[', 0, ',->)'], 'lower': ['(<-,', 0, ']']}
        try:
            sx, paths = summarize(facts, f, ['A', 'f'])
        except Unsupported as e:
            chk.ob('%s:display:analysable%s' % (PID, sfx), 'fmt', 'Display analysable', None, str(e), where)
            return
        chk.saw(facts, f, paths=len(paths))
        span = facts.fns[f['id']]['span']
        for kind in ('two', 'upper', 'lower'):
            key = '%s:display:(%s)%s' % (PID, KIND_NAMES[kind], sfx)
            desc = 'Display of a %s interval renders %r with the element type\'s own formatting' % (KIND_NAMES[kind], ''.join('{}' if isinstance(x, int) else x for x in want[kind]))
            v = m.kinds[kind][0]
            hits = [p for p in paths if all((atom[0] != 'variant' or (atom[2] == v) == pol) for atom, pol in p.guard)]
            writes = [e for p in hits for e in p.events if e[0] == 'fmt_write']
            if len(hits) != 1 or len(writes) != 1 or any(p.unknowns for p in hits):
                chk.ob(key, 'fmt', desc, None, 'undecided: %d paths, %d formatter writes' % (len(hits), len(writes)), where)
                continue
            ev = writes[0]
            line = ev[2]
            # arguments of the write, in order
            fargs = []
            T.walk(ev[1], lambda t: fargs.append(t) if (t[0] == 'call' and t[1] == 'fmt_arg') else None)
            vals = []
            for a in fargs:
                x = a[2][0]
                while x[0] == 'op' and x[1] == 'ref':
                    x = x[2][0]
                vals.append(x)
            lo, hi = m.bounds('A', kind)
            want_vals = [T.sym(x) for x in (lo, hi) if x]
            tmpl = [t for t in facts.fmt if t['span'][0] == span[0] and t['span'][1] <= line <= t['span'][2]]
            if len(tmpl) != 1:
                chk.ob(key, 'fmt', desc, None, 'undecided: %d format templates at %s:%s' % (len(tmpl), span[0], line), where)
                continue
            pieces = []
            plain = True
            for pc in tmpl[0]['pieces']:
                if 'lit' in pc:
                    pieces.append(pc['lit'])
                else:
                    pieces.append(pc['arg'])
                    plain = plain and pc['trait'] == 'Display' and pc['plain']
            good = pieces == want[kind] and plain and vals == want_vals
            chk.ob(key, 'fmt', desc, good, '' if good else 'template %r (plain Display: %s) with arguments %s' % (pieces, plain, [T.show(x) for x in vals]), where,
                   sample={'kind': KIND_NAMES[kind], 'template': pieces, 'args': [T.show(x) for x in vals]})
    chk.rules.append('E5-bool: approx impls as boolean functions of the opaque element relation (all truth assignments x 9 kind pairs)')
    chk.rules.append('fmt: format_args! templates from the expanded AST joined with the MIR argument order')
