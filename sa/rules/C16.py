"""C16 - mean / comparison CIs are equivariant under scaling, negation, shift, reordering.

Substitution identities (engine E7) on the code's own real-mode bound terms of the arithmetic,
paired and unpaired producers, in the (mean, variance, n) parametrisation of the state:
D1 scaling by t > 0: (m, v) -> (t m, t^2 v) maps every bound b to t*b.  With every operation
   of the bound being one of + - * / sqrt on homogeneous quantities (that is what the identity
   shows) and int->float of counts, scaling by a power of two commutes exactly with IEEE
   rounding barring over/underflow (meta-theorem): the bounds scale exactly.  Geometric:
   scaling is a shift in log space (D3); harmonic: a scaling by 1/t in reciprocal space.
D2 negation: m -> -m maps lo -> -hi, hi -> -lo and exchanges upper/lower (IEEE negation exact).
D3 shift by a: m -> m + a maps every bound b to b + a (variance term invariant).
D4 reordering: the state is a function of the multiset in real mode: the fold / routing obligations of the
   feeders (C01 front-ends, C04 paired / unpaired feeders) are re-established and reported here.
U: size of the rounding differences for shift / reorder (runtime quantities)."""
from fractions import Fraction

from .. import terms as T
from ..meanci import KINDS, F1
from ..nf import NotReal
from ..producers import Producers
from ..symex import Unsupported

PID = 'C16'
L = T.sym('L')
FLIP = {'two': 'two', 'upper': 'lower', 'lower': 'upper'}


def run(chk, ctx):
    for cfg in ctx.configs():
        run_cfg(chk, ctx.facts(cfg), cfg)


def run_cfg(chk, facts, cfg):
    sfx = '' if cfg == 'default' else '[%s]' % cfg
    pr = Producers(facts)
    if not chk.anchor('state / interval / confidence models' + sfx, pr if pr.ok() else None):
        return
    nf = pr.nf
    nf.nonneg.add('t')
    Tt, A = T.sym('t'), T.sym('a')
    n_id = 0

    def subs(which, kind):
        M, V = T.sym('m'), T.sym('v')
        if which == 'unpaired':
            Ma, Va, Mb, Vb = (T.sym(x) for x in ('ma', 'va', 'mb', 'vb'))
            return {
                'scale': {Ma: T.op('mul', Tt, Ma), Mb: T.op('mul', Tt, Mb), Va: T.op('mul', T.op('mul', Tt, Tt), Va), Vb: T.op('mul', T.op('mul', Tt, Tt), Vb)},
                'neg': {Ma: T.op('neg', Ma), Mb: T.op('neg', Mb)},
                'shift': {Ma: T.op('add', Ma, A), Mb: T.op('add', Mb, A)},   # both samples shifted: the difference is invariant
            }
        return {
            'scale': {M: T.op('mul', Tt, M), V: T.op('mul', T.op('mul', Tt, Tt), V)},
            'neg': {M: T.op('neg', M)},
            'shift': {M: T.op('add', M, A)},
        }

    # exact scaling by a power of two presupposes that no intermediate leaves the float range before the result does:
    # the bound's intermediates must stay within the growth orders (data scale, sample size) of today's form
    # mean -/+ c*sqrt((S2 - mean*S1)/(n-1))/sqrt(n), S1 = n m, S2 = (n-1) v + n m^2.  Squaring the *sum* (S1*S1: data^2, n^2)
    # overflows n times earlier than S2 and, with the zero clamp of the variance, collapses the interval (seed C16-k).
    from ..degree import growth_points, undominated
    from ..meanci import crit, NORMAL, F1 as _F1
    _M, _V, _N = T.sym('m'), T.sym('v'), T.sym('n')
    _fn = T.op('i2f', _N)
    _s1 = T.op('mul', _fn, _M)
    _s2 = T.op('add', T.op('mul', T.op('sub', _fn, _F1), _V), T.op('mul', _fn, T.op('mul', _M, _M)))
    _mean = T.op('div', _s1, _fn)
    _var = T.op('div', T.op('sub', _s2, T.op('mul', _mean, _s1)), T.op('sub', _fn, _F1))
    REF_PTS = growth_points(T.op('add', _mean, T.op('mul', crit(NORMAL, L), T.op('div', T.op('sqrt', _var), T.op('sqrt', _fn)))))

    for which in ('arithmetic', 'paired', 'unpaired'):
        try:
            res = {kind: pr.mean_like(which, kind, L) for kind, _ in KINDS}
        except (Unsupported, NotReal) as e:
            chk.ob('%s:%s%s' % (PID, which, sfx), 'E7', which, None, 'undecided: %s' % e, which)
            continue
        for below in (True, False):
            br = 't' if below else 'z'
            for kind, kname in KINDS:
                gk, lo, hi = res[kind][below]
                sb = subs(which, kind)
                for name, b in (('lo', lo), ('hi', hi)):
                    if isinstance(b, int):
                        continue
                    key0 = '%s:%s:%s:%s:%s' % (PID, which, kname, br, name)
                    try:
                        # D1 scaling
                        g = nf.term_equal(T.subst(b, sb['scale']), T.op('mul', Tt, b))
                        chk.ob(key0 + ':scale' + sfx, 'E7-substitution', '%s %s bound is homogeneous of degree 1 in the data (scales by t > 0; exactly for powers of two)' % (which, name),
                               g, '' if g else 'b(t x) != t b(x) for b = %s' % T.show(b)[:160], which, sample={'producer': which, 'kind': kname, 'identity': 'b(t*x) = t*b(x)'})
                        if which != 'unpaired':
                            extra = undominated(growth_points(b), REF_PTS)
                            chk.ob(key0 + ':scale-range' + sfx, 'E9 growth orders', '%s %s bound: no intermediate grows faster in (data scale, sample size) than those of mean -/+ c*sqrt((S2 - mean*S1)/(n-1))/sqrt(n), so scaling the data by 2^k scales the bound exactly wherever that form stays in range' % (which, name),
                                   not extra, '' if not extra else 'intermediates of growth (data^a, n^b) with (a, b) in %s overflow / underflow before the scaled result does' % [tuple(str(x) for x in w) for w in extra[:3]], which)
                        # D3 shift
                        want = b if which == 'unpaired' else T.op('add', b, A)
                        g = nf.term_equal(T.subst(b, sb['shift']), want)
                        chk.ob(key0 + ':shift' + sfx, 'E7-substitution', '%s %s bound moves with a common shift of the data (difference of means invariant for unpaired)' % (which, name),
                               g, '' if g else 'b(x + a) != b(x) + a', which)
                        # D2 negation: mirrored bound of the mirrored kind
                        ok2, olo, ohi = res[FLIP[kind]][below]
                        other = ohi if name == 'lo' else olo
                        if isinstance(other, int):
                            chk.ob(key0 + ':neg' + sfx, 'E7-substitution', 'negation mirrors', False, 'mirrored kind has no bound on that side', which)
                        else:
                            g = nf.term_equal(T.subst(b, sb['neg']), T.op('neg', other))
                            chk.ob(key0 + ':neg' + sfx, 'E7-substitution', '%s: negating the data maps the %s bound to minus the opposite bound of the mirrored kind' % (which, name),
                                   g, '' if g else 'b(-x) != -b\'(x)', which)
                        n_id += 3
                    except NotReal as e:
                        chk.ob(key0 + sfx, 'E7-substitution', which, None, 'undecided: %s' % e, which)
    # geometric / harmonic by composition (C05): scaling x -> t x is ln x -> ln x + ln t (shift in log
    # space, D3 of the wrapped arithmetic producer) resp. 1/x -> (1/t)(1/x) (scaling in reciprocal space, D1)
    chk.notes.append('geometric / harmonic scale up to rounding by composition of C05-D2/D3 with the shift / scaling identities of the wrapped arithmetic producer')
    # D4 reordering: every feeder is a fold that takes each element of each sample exactly once and adds a function
    # of that element alone to additive statistics - so the state, hence the interval, is a function of the multisets
    # over the reals.  These are the fold / routing obligations of C01 (arithmetic front-ends) and C04 (paired and
    # unpaired feeders), re-established here on the same facts and reported under this property.
    # "negating the data mirrors the interval exactly": float arithmetic is odd-symmetric operation by operation, so the
    # mirror image is bit-exact as long as no *decision* on the way depends on the sign of the data.  Every condition the
    # accumulation kernel, the register merge and `append` make on data values must be invariant under negating all of
    # them (|a| < |b| is; a < |b| is not).
    from ..statsmodel import StatsModel, by_ref
    from ..symex import Summarizer
    sm_ = pr.sm if hasattr(pr, 'sm') else StatsModel(facts)
    if sm_.ok():
        kp_ = sm_.kahan['path']
        S_, C_, X_, BS_, BC_ = (T.sym(n_) for n_ in ('s', 'c', 'x', 'bs', 'bc'))

        def negated(t):
            if t[0] == 'sym' and t in (S_, C_, X_, BS_, BC_):
                return T.op('neg', t)
            if t[0] == 'op':
                args = tuple(negated(a_) for a_ in t[2])
                if t[1] == 'abs' and args[0][0] == 'op' and args[0][1] == 'neg':
                    return ('op', 'abs', (args[0][2][0],))
                if t[1] == 'neg' and args[0][0] == 'op' and args[0][1] == 'neg':
                    return args[0][2][0]
                return ('op', t[1], args)
            if t[0] == 'call':
                return ('call', t[1], tuple(negated(a_) for a_ in t[2]))
            return t

        def sign_free(atom):
            if atom[0] == 'variant':
                return True
            syms = set()
            T.walk(atom, lambda t: syms.add(t) if t[0] == 'sym' else None)
            if not (syms & {S_, C_, X_, BS_, BC_}):
                return True
            na = negated(atom)
            if na == atom:
                return True
            if atom[0] == 'op' and atom[1] in ('lt', 'le', 'eq') and len(atom[2]) == 2:
                try:
                    # a < b  ==  (-a') < (-b')  iff  b - a == a' - b' ... decided by normal form when both differences are real
                    d0 = nf.sub(nf.of_term(atom[2][1]), nf.of_term(atom[2][0]))
                    d1 = nf.sub(nf.of_term(na[2][1]), nf.of_term(na[2][0]))
                    return nf.equal(d0, d1)
                except (NotReal, Unsupported, KeyError, TypeError):
                    return False
            return False
        targets = [('KahanSum += x', facts.trait_method('core::ops::AddAssign', kp_, 'add_assign', trait_args=lambda imp: [t.get('k') for t in imp.get('trait_args', [])] == ['param']),
                    [by_ref(sm_.kahan_value(S_, [C_])), None], ['self', 'x']),
                   ('KahanSum += KahanSum', facts.trait_method('core::ops::AddAssign', kp_, 'add_assign', trait_args=lambda imp: [t.get('adt') for t in imp.get('trait_args', [])] == [kp_]),
                    [by_ref(sm_.kahan_value(S_, [C_])), sm_.kahan_value(BS_, [BC_])], ['self', 'rhs'])]
        for tlabel, tfn, targs, tnames in targets:
            if not chk.anchor(tlabel + sfx, tfn):
                continue
            try:
                sx_ = Summarizer(facts, assume_no_overflow=True)
                ps_ = sx_.summarize(tfn['id'], args=targs, arg_names=tnames)
                chk.saw(facts, tfn, paths=len(ps_))
                bad_ = sorted(set(T.show(a_)[:70] for p_ in ps_ for a_, pol in p_.guard if not sign_free(a_)))
                chk.ob('%s:negation:guards:%s%s' % (PID, tlabel, sfx), 'E7-substitution', '%s: every condition on data values is invariant under negating the data (premise of the exact mirror image)' % tlabel,
                       not bad_, 'depends on the sign of the data: %s' % bad_[:2] if bad_ else '', facts.loc(tfn['id']))
            except (Unsupported, NotReal) as e:
                chk.ob('%s:negation:guards:%s%s' % (PID, tlabel, sfx), 'E7-substitution', tlabel, None, 'undecided: %s' % e, facts.loc(tfn['id']))
    n_fold = 0
    try:
        from .. import core as core_
        from . import C01 as R1, C04 as R4
        for R, sub_pid in ((R1, 'C01'), (R4, 'C04')):
            sub = core_.Check(sub_pid, chk.tier)
            R.run_cfg(sub, facts, cfg)
            for o in sub.obligations:
                if o['rule'] in ('T1-fold', 'T-fold', 'T2-lockstep') or (o['rule'] == 'E3+E4' and 'append' in o['key']):
                    n_fold += 1
                    chk.ob('%s:reorder:%s' % (PID, o['key'].split(':', 1)[1]), 'composition ' + o['rule'],
                           'reordering: ' + (o.get('desc') or o['key']) + ' (each element once, additive step => function of the multiset)',
                           None if o['status'] == 'undecided' else o['status'] == 'ok', o.get('detail') or '', o.get('where') or which)
    except Exception as e:
        chk.ob('%s:reorder%s' % (PID, sfx), 'composition', 'fold obligations of the feeders', None, 'undecided: %r' % (e,), 'feeders')
    if cfg == 'default':
        chk.floor('feeder-folds', n_fold, 20)
    chk.analysed['paths'] += pr.npaths
    chk.analysed['functions'] |= pr.fns
    chk.analysed['configs'].add(cfg)
    if cfg == 'default':
        chk.floor('identities', n_id, 72)
    chk.rules.append('E7-substitution: scaling / shift / negation identities on the code terms, decided by rational-function normal form')


ASSUMPTIONS = ['floats as reals for the identities; exactness under powers of two by the stated IEEE meta-theorem (no over/underflow)',
               'state parametrised by (mean, variance, n): S1 = n m, S2 = (n-1) v + n m^2 (bijection for n >= 2)']
