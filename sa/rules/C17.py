"""C17 - proportion CIs: mirror symmetry (decided) and consequences of the formula (cited).

D1 k -> n-k on the Wilson and Wald summaries: the interval for n-k successes is the mirror
   image 1 - (interval for k) with upper and lower one-sidedness exchanged, including the far
   ends 1 <-> 0:  lo_two(n-k) = 1 - hi_two(k);  lo_upper(n-k) = 1 - hi_lower(k), far ends 1/0.
D2 the score-polynomial identity of C02 is re-asserted as the premise of the cited consequences.
D3 the remaining clauses, decided for the code's own Wilson bounds by sign certificates over the reals
   (wilson_theorems): bounds in [0,1]; midpoint between k/n and 1/2; finite bounds move outwards with the
   critical value; width^2 strictly smaller on (t n, t k), t > 1; monotone in k via the implicit-function
   premises (root of the score polynomial; same side of k/n and of the vertex).
U: db/dk >= 0 on real k => monotone over integer steps, and quantile monotone in the level (C06 contract): cited."""
from fractions import Fraction

from .. import terms as T
from ..ivl import IvlModel
from ..meanci import ConfModel, KINDS, F0, F1, NORMAL, crit, unwrap_ok, nonneg_crit
from ..nf import Ctx as NF, NotReal
from ..realmode import prune
from ..symex import Unsupported
from .C02 import summ, mk_domain, score_poly, wilson_ref, wald_ref, N, K, L, FN, FK

PID = 'C17'
MIRROR = {'two': 'two', 'upper': 'lower', 'lower': 'upper'}


def ok_interval(facts, nf, im, cm, fn, kind, kterm, dom):
    sx, paths = summ(facts, fn, ['confidence', 'n', 'k'], [cm.value(kind, L), None, kterm])
    feas = prune(paths, dom)
    oks = [p for p, r in feas if p.is_ret() and unwrap_ok(p.ret) is not None]
    if len(oks) != 1:
        raise Unsupported('%d Ok paths' % len(oks))
    dec = im.decode(unwrap_ok(oks[0].ret))
    if dec is None:
        raise Unsupported('not an interval')
    return dec, len(paths)


POS = (Fraction(0), None, False, True)
SPOS = (Fraction(0), None, True, True)
NEG = (None, Fraction(0), True, False)
SNEG = (None, Fraction(0), True, True)


def wilson_theorems(chk, nf, label, sfx, where, kind, kname, zterm, lo, hi, lim=2, pid=None, clauses=None, emit=True):
    """The remaining clauses of the statement, decided for the code's own bound expressions by sign
    certificates over the reals (nf.decide_sign_sqrt): coefficient signs after shifting every variable to
    its lower bound, square-root parts compared through their squares, with the case split m >= k / k >= m
    (m = n - k failures) that makes the centre's side of k/n definite.  One obligation per clause and kind.
      unit      0 <= bound <= 1
      midpoint  (two-sided) (mid - k/n) * (1/2 - mid) >= 0
      level     the finite bounds move outwards when the critical value grows (either sign of z)
      larger-n  same proportion on t times the population, t > 1 (real): width^2 strictly smaller (two-sided),
                finite bound moves towards k/n for z > 0 (one-sided)
      monotone  premises of the implicit-function argument: the bound b is a root of the score polynomial
                F(p; k) and (b - k/n) and (b - vertex) have the same sign, so db/dk = -F_k/F_p >= 0
    """
    from ..nf import decide_sign_sqrt, decide_sign
    from ..meanci import crit_atoms
    # the critical value as it occurs in the code's bounds (one inverse_cdf call, equal to zterm by normal form)
    occ = set(crit_atoms(lo)) | set(crit_atoms(hi))
    if len(occ) == 1 and nf.term_equal(list(occ)[0], zterm):
        zterm = occ.pop()
    Z, Dd, Uu, Ee, Mm = T.sym('z'), T.sym('d'), T.sym('u'), T.sym('e'), T.sym('m')
    saved = set(nf.nonneg)
    nf.nonneg.update(['m', 'e', 'd', 'u'])
    cases = {'m>=k': (K, T.op('add', K, Ee)), 'k>=m': (T.op('add', Mm, Ee), Mm)}
    base = {'k': (Fraction(lim), None, False, True), 'm': (Fraction(lim), None, False, True), 'e': POS}
    finite = [b for b, use in ((lo, kind in ('two', 'upper')), (hi, kind in ('two', 'lower'))) if use]
    names = [nm for nm, use in (('lower', kind in ('two', 'upper')), ('upper', kind in ('two', 'lower'))) if use]
    zsigns = [('z>=0', POS)] if kind == 'two' else [('z>=0', POS), ('z<=0', NEG)]
    res = {c: [] for c in ('unit', 'midpoint', 'level', 'larger-n', 'monotone', 'contains')}

    def inst(b, kk, mm, zz=Z, t=None):
        sub = {zterm: zz}
        b = T.subst(b, sub)
        if t is not None:
            kk, mm = T.op('mul', kk, t), T.op('mul', mm, t)
        return T.subst(b, {K: kk, N: T.op('add', kk, mm)})

    def need(clause, what, rf, rg, accept, two_roots=True):
        sg = decide_sign_sqrt(nf, rf, rg)
        if sg not in accept:
            res[clause].append('%s: no certificate (sign %s)' % (what, sg))
    NN, NP = ('+', '0+', '0'), ('-', '0-', '0')
    try:
        one, half, two_ = nf.of_term(F1), nf.of_term(T.mk_flt(Fraction(1, 2))), nf.of_term(T.mk_flt(Fraction(2)))
        for cname, (kk, mm) in cases.items():
            prop = nf.div(nf.of_term(T.op('i2f', kk)), nf.of_term(T.op('i2f', T.op('add', kk, mm))))
            for zn, zr in zsigns:
                rg = dict(base)
                rg['z'] = zr
                for b, nm in zip(finite, names):
                    B = nf.of_term(inst(b, kk, mm))
                    need('unit', '%s bound >= 0 [%s, %s]' % (nm, cname, zn), B, rg, NN)
                    need('unit', '%s bound <= 1 [%s, %s]' % (nm, cname, zn), nf.sub(one, B), rg, NN)
                    # monotone in k: b - k/n and b - vertex have the same sign; vertex of F is (2k + z^2)/(2(n + z^2))
                    zz = nf.of_term(Z)
                    w = nf.mul(zz, zz)
                    n_ = nf.of_term(T.op('i2f', T.op('add', kk, mm)))
                    k_ = nf.of_term(T.op('i2f', kk))
                    vertex = nf.div(nf.add(nf.mul(two_, k_), w), nf.mul(two_, nf.add(n_, w)))
                    s1 = decide_sign_sqrt(nf, nf.sub(B, prop), rg)
                    s2 = decide_sign_sqrt(nf, nf.sub(B, vertex), rg)
                    if zr is POS and ((nm == 'lower' and s1 not in NP) or (nm == 'upper' and s1 not in NN)):
                        res['contains'].append('%s bound is not certified on its side of k/n for z >= 0 [%s] (sign %s)' % (nm, cname, s1))
                    if not ((s1 in NN and s2 in NN) or (s1 in NP and s2 in NP)):
                        res['monotone'].append('%s bound: sides of k/n and of the vertex not certified equal [%s, %s] (%s, %s)' % (nm, cname, zn, s1, s2))
                    # the bound is a root of the score polynomial for this z
                    if not nf.is_zero(nf.of_term(T.subst(T.subst(score_poly(Z, T.subst(b, {zterm: Z})), {}), {K: kk, N: T.op('add', kk, mm)}))):
                        res['monotone'].append('%s bound is not a root of the score polynomial [%s]' % (nm, cname))
                # level: z -> z + d within one sign region (regions are closed at 0, so crossing 0 follows)
                rgd = dict(rg)
                rgd['d'] = POS
                if zr is POS:
                    z0, z1 = Z, T.op('add', Z, Dd)
                else:
                    z0, z1 = T.op('sub', Z, Dd), Z
                for b, nm in zip(finite, names):
                    B0, B1 = nf.of_term(inst(b, kk, mm, z0)), nf.of_term(inst(b, kk, mm, z1))
                    if nm == 'lower':
                        need('level', 'lower bound does not rise with z [%s, %s]' % (cname, zn), nf.sub(B0, B1), rgd, NN)
                    else:
                        need('level', 'upper bound does not fall with z [%s, %s]' % (cname, zn), nf.sub(B1, B0), rgd, NN)
            # midpoint and larger population (z >= 0 / z > 0)
            rg = dict(base)
            rg['z'] = POS
            if kind == 'two':
                L_, H_ = nf.of_term(inst(lo, kk, mm)), nf.of_term(inst(hi, kk, mm))
                mid = nf.div(nf.add(L_, H_), two_)
                need('midpoint', 'midpoint between k/n and 1/2 [%s]' % cname, nf.mul(nf.sub(mid, prop), nf.sub(half, mid)), rg, NN)
                tt = T.op('add', T.mk_flt(Fraction(1)), Uu)
                rgt = dict(base)
                rgt['z'] = SPOS
                rgt['u'] = SPOS
                Wd = nf.sub(H_, L_)
                Lt, Ht = nf.of_term(inst(lo, kk, mm, Z, tt)), nf.of_term(inst(hi, kk, mm, Z, tt))
                Wt = nf.sub(Ht, Lt)
                sg = decide_sign(nf, nf.sub(nf.mul(Wd, Wd), nf.mul(Wt, Wt)), rgt)
                if sg != '+':
                    res['larger-n'].append('width^2(n,k) - width^2(tn,tk) > 0 not certified [%s] (sign %s)' % (cname, sg))
                need('larger-n', 'width >= 0 [%s]' % cname, Wd, rg, NN)
            else:
                tt = T.op('add', T.mk_flt(Fraction(1)), Uu)
                rgt = dict(base)
                rgt['z'] = SPOS
                rgt['u'] = SPOS
                for b, nm in zip(finite, names):
                    B0, Bt = nf.of_term(inst(b, kk, mm)), nf.of_term(inst(b, kk, mm, Z, tt))
                    need('larger-n', '%s bound moves towards k/n on a larger population for z > 0 [%s]' % (nm, cname),
                         nf.sub(Bt, B0) if nm == 'lower' else nf.sub(B0, Bt), rgt, NN)
    except NotReal as e:
        for c in res:
            res[c].append('not a real formula: %s' % e)
    finally:
        nf.nonneg.clear()
        nf.nonneg.update(saved)
    texts = {'unit': 'the finite bounds lie in [0,1]',
             'midpoint': 'the midpoint lies between k/n and 1/2',
             'level': 'a larger critical value (higher level; quantile monotone by the C06 contract) moves every finite bound outwards',
             'larger-n': 'the same proportion on a larger population gives a strictly narrower interval (two-sided: width; one-sided, level above 1/2: the finite bound moves towards k/n)',
             'monotone': 'premises of db/dk >= 0: the bound is a root of the score polynomial and lies on the same side of k/n and of the vertex',
             'contains': 'the interval contains the point estimate k/n (two-sided; one-sided at a level of at least 1/2)'}
    n = 0
    if not emit:
        return res
    for c, probs in res.items():
        if c == 'midpoint' and kind != 'two':
            continue
        if clauses is not None and c not in clauses:
            continue
        if clauses is None and c == 'contains':
            continue   # claimed by C10
        chk.ob('%s:%s:%s:%s%s' % (pid or PID, c, label, kname, sfx), 'E4 sign', '%s(%s): %s (sign certificates over the reals on the accepted domain)' % (label, kname, texts[c]),
               not probs, '; '.join(probs[:3]), where)
        n += 1
    return n


def run(chk, ctx):
    for cfg in ctx.configs():
        run_cfg(chk, ctx.facts(cfg), cfg)


def run_cfg(chk, facts, cfg):
    sfx = '' if cfg == 'default' else '[%s]' % cfg
    im = IvlModel(facts)
    cm = ConfModel(facts)
    if not chk.anchor('Interval / Confidence models' + sfx, im if (im.ok() and cm.ok) else None):
        return
    nf = NF(nonneg=['n', 'k'])
    dom = mk_domain(nf)
    n_ok = 0
    n_thm = 0
    for label, path in (('ci_wilson', 'proportion::ci_wilson'), ('ci_z_normal', 'proportion::ci_z_normal'), ('ci', 'proportion::ci')):
        fn = facts.free_fn(path)
        if not chk.anchor(path + sfx, fn):
            continue
        where = facts.loc(fn['id'])
        # the mirror identity above is an identity of real-mode summaries; for the *domain* (which counts are accepted)
        # it transfers to the floating-point code only if the guards over the counts are computed without rounding
        try:
            from ..exact import inexact_side
            sx0, paths0 = summ(facts, fn, ['confidence', 'n', 'k'], [cm.value('two', L), None, None])
            rounded = set()
            nguards = 0
            for p0 in paths0:
                for atom, pol in p0.guard:
                    if atom[0] != 'op' or atom[1] not in ('lt', 'le', 'eq') or len(atom[2]) != 2:
                        continue
                    names = set()
                    T.walk(atom, lambda t: names.add(t[1]) if t[0] == 'sym' else None)
                    calls = []
                    T.walk(atom, lambda t: calls.append(t) if t[0] == 'call' else None)
                    if calls or not names or not names <= {'n', 'k'}:
                        continue
                    nguards += 1
                    b = inexact_side(atom)
                    if b is not None:
                        rounded.add('%s (rounded operand %s)' % (T.show(atom)[:80], T.show(b)[:50]))
            chk.ob('%s:exact-domain:%s%s' % (PID, label, sfx), 'E9 exactness', '%s: the guards over the counts (%d) are computed without rounding, so the accepted domain is mirror-symmetric in floating point too' % (label, nguards),
                   not rounded and nguards > 0, '; '.join(sorted(rounded)[:2]) or ('no guard over the counts found' if not nguards else ''), where)
            # the laws are read over the reals: every integer operation behind an Ok result must be unable to overflow
            # for admissible counts (a wrapped product of counts collapses the span for large populations)
            from ..overflow import undischarged
            ovp = set()
            for p0 in paths0:
                if p0.is_ret() and unwrap_ok(p0.ret) is not None:
                    for flag, wh in undischarged(p0):
                        ovp.add('%s at %s' % (T.show(flag)[:80], wh))
            chk.ob('%s:int-arith:%s%s' % (PID, label, sfx), 'zones', '%s: no integer operation behind an Ok result can overflow for admissible counts (else the bounds are not the real-arithmetic ones the laws are proven for)' % label,
                   not ovp, '; '.join(sorted(ovp)[:3]), where)
        except Unsupported as e:
            chk.ob('%s:exact-domain:%s%s' % (PID, label, sfx), 'E9 exactness', label, None, 'undecided: %s' % e, where)
        # the laws speak about every admissible (n, k) at every level: on the accepted count domain the function must
        # return its interval unconditionally - a rejection (or an acceptance) that depends on the level or on the computed
        # bounds makes the accepted domain neither mirror-symmetric nor monotone in k
        from .C02 import err_variant
        for kind, kname in KINDS:
            try:
                sx_d, paths_d = summ(facts, fn, ['confidence', 'n', 'k'], [cm.value(kind, L), None, None])
                probs = []

                def beyond_counts(atom):
                    """the condition depends on the level or on computed (rounded) quantities, not on the counts alone"""
                    hit = []
                    T.walk(atom, lambda t: hit.append(t) if (t[0] == 'call' or (t[0] == 'op' and t[1] in ('sqrt', 'div', 'mul')) or (t[0] == 'sym' and t[1] not in ('n', 'k'))) else None)
                    return bool(hit)
                for p_d, resid in prune(paths_d, dom):
                    lits = [a_ for a_, pol in resid if beyond_counts(a_)]
                    if not lits:
                        continue      # conditions on the counts alone: the domain guards (C02, exact-domain above)
                    if p_d.is_ret() and unwrap_ok(p_d.ret) is not None:
                        if kind != 'two':
                            # the checked constructor compares the computed bound with the fixed end 0 / 1 (complement of the
                            # documented InvalidBounds case)
                            lits = [a_ for a_ in lits if not (a_[0] == 'op' and a_[1] in ('lt', 'le') and any(T.const_num(x) in (Fraction(0), Fraction(1)) for x in a_[2]))]
                            if not lits:
                                continue
                        probs.append('the interval is returned only under the further condition %s' % T.show(lits[0])[:90])
                        continue
                    ev = err_variant(facts, p_d.ret) if p_d.is_ret() else 'panic'
                    if kind != 'two' and ev == 'IntervalError/InvalidBounds':
                        continue      # documented: a one-sided bound beyond the fixed end of the unit interval
                    probs.append('admissible counts are rejected with %s under the condition %s' % (ev, T.show(lits[0])[:90]))
                chk.ob('%s:domain-total:%s:%s%s' % (PID, label, kname, sfx), 'E3-regions', '%s(%s) returns its interval for every admissible (n, k), whatever the level' % (label, kname),
                       not probs, '; '.join(sorted(set(probs))[:2]), where)
            except (Unsupported, NotReal) as e:
                chk.ob('%s:domain-total:%s:%s%s' % (PID, label, kname, sfx), 'E3-regions', label, None, 'undecided: %s' % e, where)
        for kind, kname in KINDS:
            key = '%s:mirror:%s:%s%s' % (PID, label, kname, sfx)
            try:
                (k1, lo1, hi1), np1 = ok_interval(facts, nf, im, cm, fn, kind, None, dom)
                (k2, lo2, hi2), np2 = ok_interval(facts, nf, im, cm, fn, MIRROR[kind], T.op('sub', N, K), dom)
                chk.saw(facts, fn, paths=np1 + np2)
                probs = []
                # interval(n-k, mirrored kind) == 1 - interval(k, kind)
                if not nf.term_equal(lo2, T.op('sub', F1, hi1)):
                    probs.append('lower bound for n-k is not 1 - upper bound for k')
                if not nf.term_equal(hi2, T.op('sub', F1, lo1)):
                    probs.append('upper bound for n-k is not 1 - lower bound for k')
                chk.ob(key, 'E7-substitution', '%s: the %s interval for n-k successes is the mirror image of the %s interval for k' % (label, dict(KINDS)[MIRROR[kind]], kname),
                       not probs, '; '.join(probs), where, sample={'fn': label, 'kind': kname, 'identity': 'I(n-k, mirror kind) = 1 - I(k, kind)'})
                n_ok += 1
            except (Unsupported, NotReal) as e:
                chk.ob(key, 'E7-substitution', label, None, 'undecided: %s' % e, where)
        # premise of the cited consequences (monotone in k, wider with the level, ...): the bounds are the
        # *signed* formula - span carries the sign of z, so that levels below 1/2 move the bound the other way
        for kind, kname in KINDS:
            try:
                (k1, lo1, hi1), _ = ok_interval(facts, nf, im, cm, fn, kind, None, dom)
                z = crit(NORMAL, cm.quantile(kind, L))
                centre, span = wilson_ref(z) if label != 'ci_z_normal' else wald_ref(z)
                probs = []
                with nonneg_crit(nf, z, kind == 'two'):
                    if kind in ('two', 'upper') and not nf.term_equal(lo1, T.op('sub', centre, span)):
                        probs.append('lower bound is not centre - span with the signed span z/(n+z^2)*sqrt(..)')
                    if kind in ('two', 'lower') and not nf.term_equal(hi1, T.op('add', centre, span)):
                        probs.append('upper bound is not centre + span with the signed span')
                chk.ob('%s:signed-formula:%s:%s%s' % (PID, label, kname, sfx), 'E4', '%s(%s): bounds are centre -/+ span with span odd in z (premise of "a higher level gives a wider interval")' % (label, kname),
                       not probs, '; '.join(probs), where)
                if label != 'ci_z_normal':
                    n_thm += wilson_theorems(chk, nf, label, sfx, where, kind, kname, z, lo1, hi1)
            except (Unsupported, NotReal) as e:
                chk.ob('%s:signed-formula:%s:%s%s' % (PID, label, kname, sfx), 'E4', label, None, 'undecided: %s' % e, where)
        if label != 'ci_z_normal':
            # premise of the cited consequences
            try:
                (k1, lo1, hi1), _ = ok_interval(facts, nf, im, cm, fn, 'two', None, dom)
                z = crit(NORMAL, cm.quantile('two', L))
                good = nf.is_zero(nf.of_term(score_poly(z, lo1))) and nf.is_zero(nf.of_term(score_poly(z, hi1)))
                chk.ob('%s:score-roots:%s%s' % (PID, label, sfx), 'E4', 'both bounds are roots of (p - k/n)^2 = z^2 p(1-p)/n (premise of the cited monotonicity/shrinkage theorems)',
                       good, '', where)
            except (Unsupported, NotReal) as e:
                chk.ob('%s:score-roots:%s%s' % (PID, label, sfx), 'E4', label, None, 'undecided: %s' % e, where)
    if cfg == 'default':
        chk.floor('mirror-identities', n_ok, 9)
        chk.floor('theorem-clauses', n_thm, 26)
    chk.rules.append('E7-substitution: k -> n-k on the real-mode summaries, identity by normal form')
    chk.notes.append('monotone in k is decided through its implicit-function premises (root of the score polynomial, side of k/n = side of the vertex); the induction from db/dk >= 0 on real k to integer steps is the cited argument')


ASSUMPTIONS = ['floats as reals; admissible domain of C02; level in (0,1)']
