"""C17 - proportion CIs: mirror symmetry (decided) and consequences of the formula (cited).

D1 k -> n-k on the Wilson and Wald summaries: the interval for n-k successes is the mirror
   image 1 - (interval for k) with upper and lower one-sidedness exchanged, including the far
   ends 1 <-> 0:  lo_two(n-k) = 1 - hi_two(k);  lo_upper(n-k) = 1 - hi_lower(k), far ends 1/0.
D2 the score-polynomial identity of C02 is re-asserted as the premise of the cited consequences.
U (theorems about Wilson's formula, not decidable from code by this family): monotone in k,
   strictly narrower with larger n, wider with the level, bounds within [0,1], midpoint
   between k/n and 1/2.  They hold over the reals for the formula D2 pins down."""
from fractions import Fraction

from .. import terms as T
from ..ivl import IvlModel
from ..meanci import ConfModel, KINDS, F0, F1, NORMAL, crit, unwrap_ok, nonneg_crit
from ..nf import Ctx as NF, NotReal
from ..realmode import prune
from ..symex import Unsupported
from .C02 import summ, mk_domain, score_poly, wilson_ref, wald_ref, N, K, L, FN, FK

PID = 'C17'
MIRROR = {'two': 'two', 'upper': 'lower', 'lower': 'upper'}


def ok_interval(facts, nf, im, cm, fn, kind, kterm, dom):
    sx, paths = summ(facts, fn, ['confidence', 'n', 'k'], [cm.value(kind, L), None, kterm])
    feas = prune(paths, dom)
    oks = [p for p, r in feas if p.is_ret() and unwrap_ok(p.ret) is not None]
    if len(oks) != 1:
        raise Unsupported('%d Ok paths' % len(oks))
    dec = im.decode(unwrap_ok(oks[0].ret))
    if dec is None:
        raise Unsupported('not an interval')
    return dec, len(paths)


def run(chk, ctx):
    for cfg in ctx.configs():
        run_cfg(chk, ctx.facts(cfg), cfg)


def run_cfg(chk, facts, cfg):
    sfx = '' if cfg == 'default' else '[%s]' % cfg
    im = IvlModel(facts)
    cm = ConfModel(facts)
    if not chk.anchor('Interval / Confidence models' + sfx, im if (im.ok() and cm.ok) else None):
        return
    nf = NF(nonneg=['n', 'k'])
    dom = mk_domain(nf)
    n_ok = 0
    for label, path in (('ci_wilson', 'proportion::ci_wilson'), ('ci_z_normal', 'proportion::ci_z_normal'), ('ci', 'proportion::ci')):
        fn = facts.free_fn(path)
        if not chk.anchor(path + sfx, fn):
            continue
        where = facts.loc(fn['id'])
        for kind, kname in KINDS:
            key = '%s:mirror:%s:%s%s' % (PID, label, kname, sfx)
            try:
                (k1, lo1, hi1), np1 = ok_interval(facts, nf, im, cm, fn, kind, None, dom)
                (k2, lo2, hi2), np2 = ok_interval(facts, nf, im, cm, fn, MIRROR[kind], T.op('sub', N, K), dom)
                chk.saw(facts, fn, paths=np1 + np2)
                probs = []
                # interval(n-k, mirrored kind) == 1 - interval(k, kind)
                if not nf.term_equal(lo2, T.op('sub', F1, hi1)):
                    probs.append('lower bound for n-k is not 1 - upper bound for k')
                if not nf.term_equal(hi2, T.op('sub', F1, lo1)):
                    probs.append('upper bound for n-k is not 1 - lower bound for k')
                chk.ob(key, 'E7-substitution', '%s: the %s interval for n-k successes is the mirror image of the %s interval for k' % (label, dict(KINDS)[MIRROR[kind]], kname),
                       not probs, '; '.join(probs), where, sample={'fn': label, 'kind': kname, 'identity': 'I(n-k, mirror kind) = 1 - I(k, kind)'})
                n_ok += 1
            except (Unsupported, NotReal) as e:
                chk.ob(key, 'E7-substitution', label, None, 'undecided: %s' % e, where)
        # premise of the cited consequences (monotone in k, wider with the level, ...): the bounds are the
        # *signed* formula - span carries the sign of z, so that levels below 1/2 move the bound the other way
        for kind, kname in KINDS:
            try:
                (k1, lo1, hi1), _ = ok_interval(facts, nf, im, cm, fn, kind, None, dom)
                z = crit(NORMAL, cm.quantile(kind, L))
                centre, span = wilson_ref(z) if label != 'ci_z_normal' else wald_ref(z)
                probs = []
                with nonneg_crit(nf, z, kind == 'two'):
                    if kind in ('two', 'upper') and not nf.term_equal(lo1, T.op('sub', centre, span)):
                        probs.append('lower bound is not centre - span with the signed span z/(n+z^2)*sqrt(..)')
                    if kind in ('two', 'lower') and not nf.term_equal(hi1, T.op('add', centre, span)):
                        probs.append('upper bound is not centre + span with the signed span')
                chk.ob('%s:signed-formula:%s:%s%s' % (PID, label, kname, sfx), 'E4', '%s(%s): bounds are centre -/+ span with span odd in z (premise of "a higher level gives a wider interval")' % (label, kname),
                       not probs, '; '.join(probs), where)
            except (Unsupported, NotReal) as e:
                chk.ob('%s:signed-formula:%s:%s%s' % (PID, label, kname, sfx), 'E4', label, None, 'undecided: %s' % e, where)
        if label != 'ci_z_normal':
            # premise of the cited consequences
            try:
                (k1, lo1, hi1), _ = ok_interval(facts, nf, im, cm, fn, 'two', None, dom)
                z = crit(NORMAL, cm.quantile('two', L))
                good = nf.is_zero(nf.of_term(score_poly(z, lo1))) and nf.is_zero(nf.of_term(score_poly(z, hi1)))
                chk.ob('%s:score-roots:%s%s' % (PID, label, sfx), 'E4', 'both bounds are roots of (p - k/n)^2 = z^2 p(1-p)/n (premise of the cited monotonicity/shrinkage theorems)',
                       good, '', where)
            except (Unsupported, NotReal) as e:
                chk.ob('%s:score-roots:%s%s' % (PID, label, sfx), 'E4', label, None, 'undecided: %s' % e, where)
    if cfg == 'default':
        chk.floor('mirror-identities', n_ok, 9)
    chk.rules.append('E7-substitution: k -> n-k on the real-mode summaries, identity by normal form')
    chk.notes.append('monotone in k, narrower with n, wider with the level, bounds in [0,1], midpoint between k/n and 1/2: theorems about the formula pinned by the score-root identity; not decided')


ASSUMPTIONS = ['floats as reals; admissible domain of C02; level in (0,1)']
