"""C11 - invalid input yields the documented error: never a panic or a NaN interval.

IEEE semantics, nothing assumed about inputs (floats top incl. NaN / +-inf, counters
0..2^64-1, levels in [0.001, 0.9999]); overflow checks on (dev-profile MIR).
D1 panic reachability: every panic edge (overflow / bounds Assert, unwrap / expect, panic! /
   assert!, external precondition) on every path of every entry point is either proved
   unreachable by the class/range domain (absint) or listed in the documented-panic table.
D2 no Ok(NaN): on every Ok path each float bound of the returned interval has an abstract
   value that excludes NaN.
D3 no inverted Ok: two-sided results are built by the checked constructor only, or by a function proven to
   keep low <= high (who-may-construct, sa/construct.py, the rule C14 also applies).
D4 error table on the state-based producers: n < 2 => TooFewSamples; non-finite statistics =>
   InvalidInputData (Arithmetic, Geometric, Harmonic, Paired, Unpaired).
D5 unequal paired lengths: Paired::extend / Paired::ci return Ok only on paths that saw both samples end
   after equally many elements (trace rule over the `next` events, loop iterations balanced); paths that
   established a mismatch return DifferentSampleSizes.
U: panics inside generic element operators (T: Sub on integers in `width`) are not visible in
   generic MIR."""
from fractions import Fraction

from .. import terms as T
from ..absint import AV, Env, feasible, eval_av, top_float, const, U64MAX
from ..ivl import IvlModel
from ..meanci import ConfModel, KINDS, unwrap_ok
from ..statsmodel import StatsModel, by_ref
from ..symex import Summarizer, Unsupported
from ..types import is_int, RESULT
from .C02 import err_variant

PID = 'C11'
ENTRY_NAMES = {'ci', 'ci_mean', 'ci_indices', 'ci_wilson', 'ci_wilson_ratio', 'ci_z_normal', 'ci_true', 'ci_if', 'is_significant',
               'append', 'append_pair', 'append_a', 'append_b', 'extend', 'extend_a', 'extend_b', 'extend_tuple', 'extend_if', 'from_iter',
               'ci_sorted_unchecked', 'ci_max_size', 'index', 'add_success', 'add_failure'}
MODULES = ('mean::', 'comparison::', 'proportion::', 'quantile::')
LEVEL_RANGE = AV(Fraction(1, 1000), Fraction(9999, 10000))

# documented / reasoned-out panics: (predicate on (kind, where), reason)
def documented(kind, where):
    if kind.startswith('Overflow(Add'):
        return 'observation / merge counters: overflow needs 2^64 observations (reasoned exclusion, DESIGN C11)'
    if kind == 'unwrap on None' and ('quantile::ci::{closure' in where or 'quantile::ci_max_size::{closure' in where):
        return 'documented: incomparable elements while sorting for a quantile'
    if 'Number of successes must not be larger' in kind:
        return 'documented: Stats::new with successes > population'
    return None


def lockstep_errors(chk, facts, fn, name, names, sfx):
    """Paired feeders walk two samples in lockstep.  Treating the samples as (fused) sequences, a path has
    established len(a) == len(b) only if it saw both iterators exhausted after the same number of elements;
    every other path must not return Ok.  Counting: iterations of a summarised loop must take equally many
    elements from both samples; outside the loop templates the `next` events of the path are counted per sample."""
    from .. import iters
    where = facts.loc(fn['id'])
    key = '%s:lengths:Paired::%s%s' % (PID, name, sfx)
    try:
        sx = Summarizer(facts, assume_no_overflow=True)
        paths = sx.summarize(fn['id'], arg_names=names)
        chk.saw(facts, fn, paths=len(paths))
    except Unsupported as e:
        chk.ob(key, 'E3 trace', 'Paired::%s' % name, None, 'undecided: %s' % e, where)
        return
    A, B = ('op', 'ref', (T.sym('a'),)), ('op', 'ref', (T.sym('b'),))
    probs = []

    def side(it):
        src = iters.source(sx, it, sx.loop_records)
        return 'a' if src in (A, T.sym('a')) else ('b' if src in (B, T.sym('b')) else None)
    for rec in sx.loop_records:
        for stp in rec.get('steps', []):
            cnt = {'a': 0, 'b': 0, None: 0}
            for e in stp['events']:
                if e[0] == 'next' and e[2] is not None:
                    cnt[side(e[1])] += 1
            if cnt[None]:
                probs.append('loop at %s draws from an iterator that is neither sample' % rec['where'])
            elif cnt['a'] != cnt['b']:
                probs.append('an iteration of the loop at %s takes %d element(s) of the first sample and %d of the second' % (rec['where'], cnt['a'], cnt['b']))
    n_ok = n_mis = 0
    for p in paths:
        tr = {'a': [], 'b': []}
        unknown = False
        for e in p.events:
            if e[0] == 'next':
                sd = side(e[1])
                if sd is None:
                    unknown = True
                else:
                    tr[sd].append(e[2] is not None)
        if unknown:
            probs.append('a path draws from an iterator that is neither sample')
            continue
        # fused sequences: nothing after exhaustion
        if any((False in t) and (True in t[t.index(False):]) for t in tr.values()):
            continue
        extra = {k: sum(1 for x in t if x) for k, t in tr.items()}
        done = {k: (False in t) for k, t in tr.items()}
        is_ok = p.is_ret() and unwrap_ok(p.ret) is not None
        equal = done['a'] and done['b'] and extra['a'] == extra['b']
        differ = (done['a'] and done['b'] and extra['a'] != extra['b']) or (done['a'] and not done['b'] and extra['b'] > extra['a']) or (done['b'] and not done['a'] and extra['a'] > extra['b'])
        shown = 'first sample: %s, second sample: %s' % (''.join('S' if x else 'N' for x in tr['a']) or '-', ''.join('S' if x else 'N' for x in tr['b']) or '-')
        if is_ok:
            n_ok += 1
            if not equal:
                probs.append('returns Ok without having seen both samples end after equally many elements (polls after the loop template: %s)' % shown)
        elif differ and p.is_ret():
            n_mis += 1
            if err_variant(facts, p.ret) != 'DifferentSampleSizes':
                probs.append('unequal lengths give %s (polls: %s)' % (err_variant(facts, p.ret), shown))
    if not n_ok:
        probs.append('no Ok path')
    if not n_mis:
        probs.append('no path reports a length mismatch')
    chk.ob(key, 'E3 trace', 'Paired::%s: Ok only after both samples ended after equally many elements; unequal lengths => DifferentSampleSizes' % name,
           not probs, '; '.join(sorted(set(probs))[:3]), where, sample={'paths': len(paths), 'ok_paths': n_ok, 'mismatch_paths': n_mis})


def entry_points(facts):
    out = []
    for f in facts.raw['fns']:
        if f['kind'] == 'Closure' or not f.get('exported'):
            continue
        if f.get('name') not in ENTRY_NAMES:
            continue
        p = f['path']
        core_path = p
        if p.startswith('<'):
            core_path = p[1:]
        if not core_path.startswith(MODULES):
            continue
        if p.startswith('mean::StatisticsOps::') or p.startswith('mean::MeanCI::'):
            continue  # default trait methods are analysed as instantiated through the impls' callers
        out.append(f)
    return out


def base_env(sx, facts):
    env = Env()
    for name, ty in sx.symty.items():
        if ty is not None and is_int(ty):
            env.int_syms.add(name)
    return env


def conf_payload_syms(sx, cm):
    out = []
    for name, ty in list(sx.symty.items()):
        pass
    return out


def run(chk, ctx):
    for cfg in ctx.configs():
        run_cfg(chk, ctx.facts(cfg), cfg)


def run_cfg(chk, facts, cfg):
    sfx = '' if cfg == 'default' else '[%s]' % cfg
    im = IvlModel(facts)
    cm = ConfModel(facts)
    sm = StatsModel(facts)
    if not chk.anchor('Interval / Confidence models' + sfx, im if (im.ok() and cm.ok) else None):
        return
    # D3: no Ok result with its lower bound above its upper bound - every two-sided interval of the crate is written by
    # the checked constructor, by arithmetic on well-formed operands, or by a function proven to keep low <= high
    from ..construct import obligation as who_may_construct
    nsites = who_may_construct(chk, PID, facts, sfx, im, cfg)
    if cfg == 'default':
        chk.floor('two-sided-construction-sites', nsites, 4)
    eps = entry_points(facts)
    n_edges = 0
    n_entries = 0
    for fn in eps:
        where = facts.loc(fn['id'])
        label = fn['path']
        try:
            sx = Summarizer(facts, assume_no_overflow=False)
            paths = sx.summarize(fn['id'])
        except Unsupported as e:
            chk.ob('%s:%s:analysable%s' % (PID, label, sfx), 'E6', label, None, 'undecided: %s' % e, where)
            continue
        n_entries += 1
        chk.saw(facts, fn, paths=len(paths))
        env0 = base_env(sx, facts)
        # concrete-f64 entry points (proportion / quantile) cannot overflow at f32 magnitudes
        out_s = fn.get('output', {}).get('s', '')
        generic_float = any(t.get('k') == 'param' for t in (facts.impls.get(fn.get('impl'), {}) or {}).get('self_ty', {}).get('args', []) or []) or 'Interval<T>' in out_s or 'Interval<F>' in out_s
        env0.big = Fraction(10) ** 30 if generic_float else Fraction(10) ** 300
        # confidence levels: payload symbols of Confidence-typed inputs range over [0.001, 0.9999]
        for name, ty in sx.symty.items():
            if ty is not None and ty.get('k') == 'f64' and '.' in name:
                base = name.rsplit('.', 2)[0]
                bty = sx.symty.get(base)
                if bty is not None and bty.get('adt') == cm.path:
                    env0.ref[T.sym(name)] = LEVEL_RANGE
        bad_panics = {}
        nan_ok = []
        proved = 0
        allowed = {}
        unknown = set()
        for p in paths:
            if p.unknowns:
                for u in p.unknowns:
                    unknown.add(u[0])
            if p.is_panic():
                n_edges += 1
                kind, wh = p.outcome[1], p.outcome[2]
                env = feasible(p.guard, env0)
                if env is None:
                    proved += 1
                    continue
                doc = documented(kind, wh)
                if doc:
                    allowed[(kind.split(':')[0], wh)] = doc
                    continue
                bad_panics.setdefault((kind, wh), p)
            elif p.is_ret():
                iv = unwrap_ok(p.ret)
                if iv is None and p.ret[0] == 'adt' and p.ret[1] == im.path:
                    iv = p.ret
                if iv is not None and iv[0] == 'adt' and iv[1] == im.path:
                    env = feasible(p.guard, env0)
                    if env is None:
                        continue
                    for b in iv[3]:
                        if b[0] == 'op' and b[1] == 'index':
                            continue  # an element of the caller's data, not a computed bound
                        av = eval_av(b, env)
                        if av.nan:
                            nan_ok.append((b, p))
        # obligations
        for (kind, wh), p in sorted(bad_panics.items(), key=lambda x: repr(x[0])):
            wh_fn = wh.split(' in ')[-1]
            key = '%s:panic:%s:%s@%s%s' % (PID, label, kind.split(':')[0][:40], wh_fn, sfx)
            g = [('' if pol else '!') + T.show(a)[:70] for a, pol in p.guard if a[0] != 'variant'][-3:]
            chk.ob(key, 'E6 panic-reachability', '%s cannot panic (%s)' % (label, kind[:60]), False,
                   'reachable panic "%s" at %s; path condition (last literals): %s' % (kind[:80], wh, g), where)
        key = '%s:panic-free:%s%s' % (PID, label, sfx)
        if unknown:
            chk.ob(key, 'E6 panic-reachability', label, None, 'undecided: unmodelled callee(s) %s' % sorted(unknown)[:3], where)
        elif not bad_panics:
            chk.ob(key, 'E6 panic-reachability', '%s: every panic edge is unreachable or documented' % label, True, '', where,
                   sample={'entry': label, 'paths': len(paths), 'panic_edges_proved_unreachable': proved, 'documented': sorted(set(allowed.values()))})
        key = '%s:no-nan:%s%s' % (PID, label, sfx)
        if nan_ok:
            b, p = nan_ok[0]
            chk.ob(key, 'E6 NaN-class', '%s never returns Ok with a NaN bound' % label, False,
                   'an Ok path returns the bound %s whose abstract value admits NaN' % T.show(b)[:200], where)
        else:
            chk.ob(key, 'E6 NaN-class', '%s never returns Ok with a NaN bound' % label, True, '', where)

    # ---- D4 error table on the state-based producers
    # D4 needs the state layouts: losing them is reported, not skipped
    chk.anchor('state layouts (error table of the state-based producers)' + sfx, sm if sm.ok() else None)
    if not sm.ok():
        chk.notes.extend(sm.problems)
    if sm.ok():
        S1, S2, N = T.sym('S1'), T.sym('S2'), T.sym('n')
        inner = sm.arith_state(S1, S2, N)
        prods = [('Arithmetic', sm.arith, inner)]
        for nm in ('Geometric', 'Harmonic', 'Paired'):
            adt = sm.adt(nm)
            if adt:
                try:
                    prods.append((nm, adt, sm.wrapper_state(adt, inner)))
                except Unsupported as e:
                    chk.ob('%s:errors:%s:layout%s' % (PID, nm, sfx), 'layout', '%s wraps one statistics state' % nm, False, str(e), adt['span'][0])
        for nm, adt, st in prods:
            fn = facts.inherent(adt['path'], 'ci_mean')
            if not chk.anchor('%s::ci_mean%s' % (nm, sfx), fn):
                continue
            where = facts.loc(fn['id'])
            try:
                sx = Summarizer(facts, assume_no_overflow=False)
                paths = sx.summarize(fn['id'], args=[by_ref(st), None], arg_names=['self', 'confidence'])
                chk.saw(facts, fn, paths=len(paths))
            except Unsupported as e:
                chk.ob('%s:errors:%s%s' % (PID, nm, sfx), 'E6 error-table', nm, None, 'undecided: %s' % e, where)
                continue
            regions = [
                ('n<2', {N: AV(Fraction(0), Fraction(1))}, 'TooFewSamples'),
                ('S1=NaN', {N: AV(Fraction(2), Fraction(U64MAX)), S1: const('nan')}, 'InvalidInputData'),
                ('S1=+inf', {N: AV(Fraction(2), Fraction(U64MAX)), S1: const('inf')}, 'InvalidInputData'),
                ('S1=-inf', {N: AV(Fraction(2), Fraction(U64MAX)), S1: const('-inf')}, 'InvalidInputData'),
                ('S2=NaN', {N: AV(Fraction(2), Fraction(U64MAX)), S1: AV(None, None), S2: const('nan')}, 'InvalidInputData'),
                ('S2=+inf', {N: AV(Fraction(2), Fraction(U64MAX)), S1: AV(Fraction(-10) ** 9, Fraction(10) ** 9), S2: const('inf')}, 'InvalidInputData'),
            ]
            for rname, ref, want in regions:
                env0 = base_env(sx, facts)
                env0.int_syms.add('n')
                for name, ty in sx.symty.items():
                    if ty is not None and ty.get('k') == 'f64' and name.startswith('confidence.'):
                        env0.ref[T.sym(name)] = LEVEL_RANGE
                env0.ref.update(ref)
                probs = []
                nfeas = 0
                for p in paths:
                    if feasible(p.guard, env0) is None:
                        continue
                    nfeas += 1
                    got = err_variant(facts, p.ret) if p.is_ret() else 'panic: %s' % (p.outcome[1][:50],)
                    if got != want:
                        probs.append('outcome %s' % (got or 'Ok',))
                if not nfeas:
                    probs.append('no feasible path')
                chk.ob('%s:errors:%s:%s%s' % (PID, nm, rname, sfx), 'E6 error-table', '%s::ci_mean with %s yields %s' % (nm, rname, want), not probs,
                       '; '.join(sorted(set(probs))[:3]), where, sample={'producer': nm, 'region': rname, 'feasible_paths': nfeas})
    # ---- D4' a quantile outside (0,1) - NaN included - yields InvalidQuantile on every quantile entry point that takes one
    qrows = [('q=NaN', const('nan')), ('q<=0', AV(None, Fraction(0))), ('q>=1', AV(Fraction(1), None))]
    for qlabel, qfn, qnames, qidx in (('quantile::Stats::ci', facts.inherent('quantile::Stats', 'ci'), ['self', 'confidence', 'q'], 2),
                                      ('quantile::ci_indices', facts.free_fn('quantile::ci_indices'), ['confidence', 'n', 'q'], 2),
                                      ('quantile::ci_sorted_unchecked', facts.free_fn('quantile::ci_sorted_unchecked'), ['confidence', 'sorted', 'q'], 2),
                                      ('quantile::Stats::index', facts.inherent('quantile::Stats', 'index'), ['self', 'q'], 1)):
        if not chk.anchor(qlabel + ' (quantile domain)' + sfx, qfn):
            continue
        where = facts.loc(qfn['id'])
        try:
            sx = Summarizer(facts, assume_no_overflow=False)
            paths = sx.summarize(qfn['id'], arg_names=qnames)
            chk.saw(facts, qfn, paths=len(paths))
        except Unsupported as e:
            chk.ob('%s:errors:%s%s' % (PID, qlabel, sfx), 'E6 error-table', qlabel, None, 'undecided: %s' % e, where)
            continue
        rows_ = qrows
        if qlabel.endswith('::index'):
            # index accepts the closed unit interval, and reports an empty population first
            rows_ = [('q=NaN', const('nan')), ('q<0', AV(None, Fraction(-1, 10 ** 9))), ('q>1', AV(Fraction(10 ** 9 + 1, 10 ** 9), None))]
        for rname, av in rows_:
            env0 = base_env(sx, facts)
            if qlabel.endswith('::index'):
                env0.ref[T.sym('self.population')] = AV(Fraction(1), Fraction(U64MAX))
            for name, ty in sx.symty.items():
                if ty is not None and ty.get('k') == 'f64' and name.startswith('confidence.'):
                    env0.ref[T.sym(name)] = LEVEL_RANGE
            env0.ref[T.sym('q')] = av
            probs, nfeas = [], 0
            for p in paths:
                if feasible(p.guard, env0) is None:
                    continue
                nfeas += 1
                got = err_variant(facts, p.ret) if p.is_ret() else 'panic: %s' % (p.outcome[1][:50],)
                if got != 'InvalidQuantile':
                    probs.append('outcome %s' % (got or 'Ok',))
            if not nfeas:
                probs.append('no feasible path')
            chk.ob('%s:errors:%s:%s%s' % (PID, qlabel, rname, sfx), 'E6 error-table', '%s with %s yields InvalidQuantile' % (qlabel, rname), not probs,
                   '; '.join(sorted(set(probs))[:3]), where, sample={'entry': qlabel, 'region': rname, 'feasible_paths': nfeas})
    # ---- D5 unequal paired lengths => DifferentSampleSizes (trace rule over the `next` events of the two samples)
    n_lock = 0
    padt = [a for a in facts.raw['adts'] if a['path'].split('::')[-1] == 'Paired' and a.get('exported')]
    if chk.anchor('comparison::Paired' + sfx, padt[0] if len(padt) == 1 else None):
        for name, names in (('extend', ['self', 'a', 'b']), ('ci', ['confidence', 'a', 'b'])):
            fn = facts.inherent(padt[0]['path'], name)
            if not chk.anchor('Paired::%s%s' % (name, sfx), fn):
                continue
            n_lock += 1
            lockstep_errors(chk, facts, fn, name, names, sfx)
    if cfg == 'default':
        chk.floor('lockstep-entry-points', n_lock, 2)
        chk.floor('entry-points', n_entries, 54)
        chk.floor('panic-edges', n_edges, 45)
    chk.rules.append('E6: IEEE class/range abstract interpretation of every path condition (panic reachability, NaN-freeness of Ok bounds, error table)')
    chk.notes.append('documented panics allowed: sort comparator on incomparable elements, Stats::new with successes > population, counter overflow at 2^64 observations; Confidence constructors and interval operations are decided under C18 / C13')
    chk.notes.append('external contract: inverse_cdf(valid distribution, q) is finite for q strictly inside (0,1)')


ASSUMPTIONS = ['levels in [0.001, 0.9999]', 'statrs inverse_cdf finite on (0,1) for a valid distribution', 'two-sided results only through the checked constructor (C14)']
