"""C10 - confidence kind and level act coherently on every interval producer.

Producers: arithmetic, geometric, harmonic, paired, unpaired, Wilson, Wald, quantile.
D1 kind table: two-sided -> bounded on both sides, upper -> bounded below only ([lo, 1] for
   proportions), lower -> bounded above only ([0, hi]).
D2 the finite bound of a one-sided interval at level L coincides with the corresponding bound
   of the two-sided interval at level 2L-1: substitution identity on the code's own bound terms
   (lo_upper(L) == lo_two(2L-1), hi_lower(L) == hi_two(2L-1)); this also shows that the bounds
   depend on the kind only through the quantile argument.
D3 point estimate inside: for the mean-type producers and Wald the bounds are centre -/+ c*se
   (C06) with c >= 0 whenever q >= 1/2 (zero-location symmetric distribution: contract), so a
   two-sided interval, or a one-sided one at L >= 1/2, contains the centre: sign certificates of
   centre - lo and hi - centre.
D4 nesting in the level: affine producers by the sign of the coefficient of the critical value; Wilson by
   sign certificates (finite bounds move outwards with z in both sign regions); Wilson contains k/n for z >= 0.
U: monotonicity of the external quantile functions in the level (contract); quantile-rank containment."""
from fractions import Fraction

from .. import terms as T
from ..meanci import KINDS, F0, F1, F2
from ..nf import NotReal
from ..producers import Producers
from ..symex import Unsupported

PID = 'C10'
L = T.sym('L')
TWO_LEVEL = T.op('sub', T.op('mul', F2, L), F1)     # 2L - 1
HALF_UP = (Fraction(1, 2), Fraction(1), True, True)  # L in (1/2, 1) so that 2L-1 is a level


def run(chk, ctx):
    for cfg in ctx.configs():
        run_cfg(chk, ctx.facts(cfg), cfg)


def run_cfg(chk, facts, cfg):
    sfx = '' if cfg == 'default' else '[%s]' % cfg
    pr = Producers(facts)
    if not chk.anchor('state / interval / confidence models' + sfx, pr if pr.ok() else None):
        return
    nf = pr.nf
    nprod = 0
    M, V, N = T.sym('m'), T.sym('v'), T.sym('n')
    centres = {
        'arithmetic': M, 'paired': M,
        'geometric': T.op('exp', M), 'harmonic': T.op('div', F1, M),
        'unpaired': T.op('sub', T.sym('ma'), T.sym('mb')),
    }

    def finite(b):
        return not isinstance(b, int)

    def kind_ok(key, label, kind, dec, far=None):
        gk, lo, hi = dec
        if far is None:
            good = gk == kind and finite(lo) == (kind in ('two', 'upper')) and finite(hi) == (kind in ('two', 'lower'))
        else:
            # proportions: two-sided values with the natural far ends 1 / 0
            good = gk == 'two' and (kind != 'upper' or nf.term_equal(hi, F1)) and (kind != 'lower' or nf.term_equal(lo, F0))
        chk.ob(key + ':kind', 'E3 kind-table', '%s: the kind of the result matches the kind of the confidence' % label, good,
               '' if good else 'returns (%s, %s, %s)' % (gk, T.show(lo)[:50] if finite(lo) else lo, T.show(hi)[:50] if finite(hi) else hi), label)
        return good

    def coincide(key, label, one, two, side):
        """one-sided bound at L == two-sided bound at 2L-1 (both as code terms)."""
        b1 = one[1] if side == 'lo' else one[2]
        b2 = two[1] if side == 'lo' else two[2]
        if isinstance(b1, int) or isinstance(b2, int):
            chk.ob(key, 'E7-substitution', label, False, 'the %s bound is missing (unbounded side)' % side, label)
            return
        try:
            good = nf.term_equal(b1, b2)
        except NotReal as e:
            chk.ob(key, 'E7-substitution', label, None, 'undecided: %s' % e, label)
            return
        chk.ob(key, 'E7-substitution', '%s: the %s bound of the one-sided interval at L equals that of the two-sided interval at 2L-1' % (label, 'lower' if side == 'lo' else 'upper'),
               good, '' if good else 'one-sided: %s ; two-sided at 2L-1: %s' % (T.show(b1)[:160], T.show(b2)[:160]), label,
               sample={'producer': label, 'identity': 'bound_one_sided(L) = bound_two_sided(2L-1)'})

    # ---- mean-type producers
    for which in ('arithmetic', 'geometric', 'harmonic', 'paired', 'unpaired'):
        try:
            res = {kind: pr.mean_like(which, kind, L, ranges={'L': HALF_UP} if False else None) for kind, _ in KINDS}
            two2 = pr.mean_like(which, 'two', TWO_LEVEL, ranges={'L': HALF_UP})
            nprod += 1
        except (Unsupported, NotReal) as e:
            chk.ob('%s:%s%s' % (PID, which, sfx), 'E3', which, None, 'undecided: %s' % e, which)
            continue
        for below in (True, False):
            br = 't' if below else 'z'
            for kind, kname in KINDS:
                kind_ok('%s:%s:%s:%s%s' % (PID, which, kname, br, sfx), '%s(%s,%s)' % (which, kname, br), kind, res[kind][below])
            coincide('%s:%s:upper=two(2L-1):%s%s' % (PID, which, br, sfx), '%s(%s)' % (which, br), res['upper'][below], two2[below], 'lo')
            coincide('%s:%s:lower=two(2L-1):%s%s' % (PID, which, br, sfx), '%s(%s)' % (which, br), res['lower'][below], two2[below], 'hi')
            # D3 containment of the point estimate
            c = centres[which]
            rng = {'n': (Fraction(2), None, False, True), 'v': (Fraction(0), None, False, True), 'na': (Fraction(2), None, False, True),
                   'nb': (Fraction(2), None, False, True), 'va': (Fraction(0), None, True, True), 'vb': (Fraction(0), None, False, True)}
            if which == 'harmonic':
                continue  # containment of 1/m needs the positivity proviso on both reciprocal bounds; follows from the arithmetic case by monotonicity of 1/x
            for kind, kname, lvl in (('two', 'TwoSided', (Fraction(0), Fraction(1), True, True)), ('upper', 'UpperOneSided', (Fraction(1, 2), Fraction(1), False, True)),
                                     ('lower', 'LowerOneSided', (Fraction(1, 2), Fraction(1), False, True))):
                key = '%s:%s:contains-estimate:%s:%s%s' % (PID, which, kname, br, sfx)
                gk, lo, hi = res[kind][below]
                dom = pr.dom(rng, level=lvl)
                probs = []
                try:
                    for b, sgn_ok, nm in ((lo, ('+', '0+', '0'), 'estimate - lower bound'), (hi, ('+', '0+', '0'), 'upper bound - estimate')):
                        if not finite(b):
                            continue
                        if which == 'geometric':
                            # exp monotone: compare in log space
                            if not (b[0] == 'op' and b[1] == 'exp'):
                                probs.append('bound is not exp(..)')
                                continue
                            b_, c_ = b[2][0], M
                        else:
                            b_, c_ = b, c
                        d = nf.sub(nf.of_term(c_), nf.of_term(b_)) if nm.startswith('estimate') else nf.sub(nf.of_term(b_), nf.of_term(c_))
                        s = dom.sign(d)
                        if s not in sgn_ok:
                            probs.append('%s has sign %s' % (nm, s))
                except NotReal as e:
                    probs.append(str(e))
                chk.ob(key, 'sign-certificate', '%s(%s,%s): the interval contains the point estimate (level >= 1/2 for one-sided)' % (which, kname, br), not probs, '; '.join(probs), which)
    # ---- proportions
    for method in ('wilson', 'wald'):
        try:
            res = {kind: pr.proportion(method, kind, L) for kind, _ in KINDS}
            two2 = pr.proportion(method, 'two', TWO_LEVEL)
            nprod += 1
        except (Unsupported, NotReal) as e:
            chk.ob('%s:%s%s' % (PID, method, sfx), 'E3', method, None, 'undecided: %s' % e, method)
            continue
        for kind, kname in KINDS:
            kind_ok('%s:%s:%s%s' % (PID, method, kname, sfx), '%s(%s)' % (method, kname), kind, res[kind], far=True)
        coincide('%s:%s:upper=two(2L-1)%s' % (PID, method, sfx), method, res['upper'], two2, 'lo')
        coincide('%s:%s:lower=two(2L-1)%s' % (PID, method, sfx), method, res['lower'], two2, 'hi')
        if method == 'wald':
            c = T.op('div', T.op('i2f', T.sym('k')), T.op('i2f', T.sym('n')))
            for kind, kname, lvl in (('two', 'TwoSided', (Fraction(0), Fraction(1), True, True)), ('upper', 'UpperOneSided', (Fraction(1, 2), Fraction(1), False, True)),
                                     ('lower', 'LowerOneSided', (Fraction(1, 2), Fraction(1), False, True))):
                gk, lo, hi = res[kind]
                # k <= n so that p(1-p) >= 0: parametrise n = k + f with f >= 0
                sub = {T.sym('n'): T.op('add', T.sym('k'), T.sym('f'))}
                dom = pr.dom({'k': (Fraction(1), None, False, True), 'f': (Fraction(0), None, False, True)}, level=lvl)
                probs = []
                try:
                    if kind in ('two', 'upper'):
                        s = dom.sign(nf.sub(nf.of_term(T.subst(c, sub)), nf.of_term(T.subst(lo, sub))))
                        if s not in ('+', '0+', '0'):
                            probs.append('k/n - lower bound has sign %s' % s)
                    if kind in ('two', 'lower'):
                        s = dom.sign(nf.sub(nf.of_term(T.subst(hi, sub)), nf.of_term(T.subst(c, sub))))
                        if s not in ('+', '0+', '0'):
                            probs.append('upper bound - k/n has sign %s' % s)
                except NotReal as e:
                    probs.append(str(e))
                chk.ob('%s:wald:contains-estimate:%s%s' % (PID, kname, sfx), 'sign-certificate', 'Wald(%s) contains k/n' % kname, not probs, '; '.join(probs), 'proportion::ci_z_normal')
    # ---- D4 nesting in the level
    # (a) producers whose bounds are affine in the critical value c: lo = a - b*c, hi = a + b*c with b >= 0,
    #     and c = quantile(q(L)) is non-decreasing in L (contract of a quantile function) => CI(L1) in CI(L2)
    from .C06 import affine_in
    from ..meanci import crit_atoms
    for which in ('arithmetic', 'paired', 'unpaired', 'geometric'):
        for kind, kname in KINDS:
            key = '%s:%s:nested:%s%s' % (PID, which, kname, sfx)
            try:
                res = pr.mean_like(which, kind, L)
                probs = []
                for below, dec in res.items():
                    bnds = [(n_, b) for n_, b in (('lo', dec[1]), ('hi', dec[2])) if finite(b)]
                    for n_, b in bnds:
                        if which == 'geometric':
                            if not (b[0] == 'op' and b[1] == 'exp'):
                                probs.append('bound is not exp(..)')
                                continue
                            b = b[2][0]   # exp is increasing
                        cs = set(crit_atoms(b))
                        if len(cs) != 1:
                            probs.append('%d critical values in the %s bound' % (len(cs), n_))
                            continue
                        ab = affine_in(nf, b, cs.pop())
                        if ab is None:
                            probs.append('%s bound is not affine in the critical value' % n_)
                            continue
                        dom = pr.dom({'n': (Fraction(2), None, False, True), 'v': (Fraction(0), None, False, True), 'na': (Fraction(2), None, False, True),
                                      'nb': (Fraction(2), None, False, True), 'va': (Fraction(0), None, True, True), 'vb': (Fraction(0), None, False, True)})
                        sg = dom.sign(ab[1])
                        if (n_ == 'lo' and sg not in ('-', '0-', '0')) or (n_ == 'hi' and sg not in ('+', '0+', '0')):
                            probs.append('the %s bound moves the wrong way with the critical value (coefficient sign %s)' % (n_, sg))
                chk.ob(key, 'monotone-in-c', '%s(%s): raising the level never shrinks the interval (bounds affine in c with -se / +se, c non-decreasing in the level)' % (which, kname),
                       not probs, '; '.join(probs[:2]), which)
            except (Unsupported, NotReal) as e:
                chk.ob(key, 'monotone-in-c', which, None, 'undecided: %s' % e, which)
    # (b) Wilson: the bounds must be the signed formula centre -/+ z/(n+z^2)*sqrt(..) (monotonicity of that
    #     formula in z is the cited theorem); quantile ranks are monotone images (floor, min) of the Wilson bounds
    from .C02 import wilson_ref, wald_ref
    from ..meanci import NORMAL, crit, nonneg_crit
    for method in ('wilson', 'wald'):
        for kind, kname in KINDS:
            key = '%s:%s:nested-premise:%s%s' % (PID, method, kname, sfx)
            try:
                gk, lo, hi = pr.proportion(method, kind, L)
                z = crit(NORMAL, pr.cm.quantile(kind, L))
                centre, span = wilson_ref(z) if method == 'wilson' else wald_ref(z)
                probs = []
                with nonneg_crit(nf, z, kind == 'two'):
                    if kind in ('two', 'upper') and not nf.term_equal(lo, T.op('sub', centre, span)):
                        probs.append('lower bound is not centre - span with the signed span')
                    if kind in ('two', 'lower') and not nf.term_equal(hi, T.op('add', centre, span)):
                        probs.append('upper bound is not centre + span with the signed span')
                chk.ob(key, 'E4', '%s(%s): bounds are centre -/+ span with span carrying the sign of z (premise of nesting in the level)' % (method, kname), not probs, '; '.join(probs), method)
                if method == 'wilson':
                    # nesting in the level and containment of k/n, decided on the code's own bounds by sign certificates
                    # (DESIGN §16): outward movement with z in both sign regions; lo <= k/n <= hi for z >= 0
                    from .C17 import wilson_theorems
                    wilson_theorems(chk, nf, 'wilson', sfx, 'proportion::ci_wilson', kind, kname, z, lo, hi, pid=PID, clauses=('level', 'contains'))
            except (Unsupported, NotReal) as e:
                chk.ob(key, 'E4', method, None, 'undecided: %s' % e, method)
    # ---- quantile ranks
    try:
        res = {kind: pr.quantile(kind, L) for kind, _ in KINDS}
        two2 = pr.quantile('two', TWO_LEVEL)
        nprod += 1
        for kind, kname in KINDS:
            kind_ok('%s:quantile:%s%s' % (PID, kname, sfx), 'quantile(%s)' % kname, kind, res[kind])
        coincide('%s:quantile:upper=two(2L-1)%s' % (PID, sfx), 'quantile', res['upper'], two2, 'lo')
        coincide('%s:quantile:lower=two(2L-1)%s' % (PID, sfx), 'quantile', res['lower'], two2, 'hi')
    except (Unsupported, NotReal) as e:
        chk.ob('%s:quantile%s' % (PID, sfx), 'E3', 'quantile', None, 'undecided: %s' % e, 'quantile::Stats::ci')
    # geometric / harmonic: the coincidence and nesting clauses above are decided on the statement's positivity proviso
    # through the wrapped arithmetic producer; *that* the wrappers return an interval exactly on the proviso, for every
    # kind alike, is the region table of C05 (a one-sided harmonic request that inverts a non-positive bound has no
    # two-sided counterpart at 2L-1 and shrinks when the level rises: seed C10-k, defect bdf2998).  Re-established here.
    n_wr = 0
    try:
        from .. import core as core_
        from . import C05 as R5
        sub = core_.Check('C05', chk.tier)
        R5.run_cfg(sub, facts, cfg)
        for o in sub.obligations:
            if '::ci_mean:' in o['key']:
                n_wr += 1
                chk.ob('%s:wrapper-regions:%s' % (PID, o['key'].split(':', 1)[1]), 'composition ' + o['rule'],
                       'same outcome for every kind on each region: ' + (o.get('desc') or o['key']),
                       None if o['status'] == 'undecided' else o['status'] == 'ok', o.get('detail') or '', o.get('where') or 'mean::Harmonic / Geometric')
    except Exception as e:
        chk.ob('%s:wrapper-regions%s' % (PID, sfx), 'composition', 'region tables of the geometric / harmonic wrappers', None, 'undecided: %r' % (e,), 'mean')
    if cfg == 'default':
        chk.floor('wrapper-region-obligations', n_wr, 9)
    from ..effects import obligation as no_hidden_state
    no_hidden_state(chk, PID, facts, sfx, 'every producer is a pure function of its inputs (kind and level cannot leak between calls)')
    chk.analysed['paths'] += pr.npaths
    chk.analysed['functions'] |= pr.fns
    chk.analysed['configs'].add(cfg)
    if cfg == 'default':
        chk.floor('producers', nprod, 8)
    chk.rules.append('E3 kind table; E7 substitution L -> 2L-1 on the code terms; sign certificates for containment of the point estimate')
    chk.notes.append('nesting in the level: decided for the affine producers modulo the contract "a quantile function is non-decreasing"; Wilson: outward movement with z and containment of k/n are decided by sign certificates; quantile ranks are monotone images (floor, min) of the Wilson bounds; quantile-rank containment of the point estimate is not decided')


ASSUMPTIONS = ['floats as reals; admissible inputs; quantile of a zero-location symmetric distribution is >= 0 at q >= 1/2 (contract)']
