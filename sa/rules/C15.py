"""C15 - interval comparison is a strict partial order consistent with equality.

E5: (a) the decision table of partial_cmp on every (kind pair x weak order of the bounds)
equals the table fixed by the statement (Equal iff a == b; Less iff a != b and sup a <= inf b;
Greater symmetrically; otherwise None); (b) on the complete table over a 6-point chain
(33 abstract intervals, 1089 pairs, 35937 triples) the order axioms of the statement are
checked directly on the code's own outcomes; (c) derived == equates exactly same-kind,
same-bound intervals."""
import itertools

from .. import terms as T
from ..ivl import IvlModel
from ..order import guard_holds, eval_term, NotParametric, NEG_INF, POS_INF
from ..symex import Unsupported
from ..tables import table_check, summarize
from ..types import OPTION, ORDERING

PID = 'C15'
ORD = ['Less', 'Equal', 'Greater']


def dec_ord(v, env=None):
    if v[0] == 'adt' and v[1] == OPTION:
        if v[2] == 0:
            return 'None'
        o = v[3][0]
        if o[0] == 'adt' and o[1] == ORDERING:
            return ORD[o[2]]
    return ('?', v)


def run(chk, ctx):
    for cfg in ctx.configs():
        run_cfg(chk, ctx.facts(cfg), cfg)


def run_cfg(chk, facts, cfg):
    m = IvlModel(facts)
    sfx = '' if cfg == 'default' else '[%s]' % cfg
    if not chk.anchor('Interval+constructors' + sfx, m if m.ok() else None):
        chk.notes.extend(m.problems)
        return
    from ..overrides import obligation as no_overrides
    def _sem_eq(kinds, env):
        return kinds[0] == kinds[1] and m.denote('A', kinds[0], env) == m.denote('B', kinds[1], env)

    def _ref(kinds, env):
        a, b = m.denote('A', kinds[0], env), m.denote('B', kinds[1], env)
        if _sem_eq(kinds, env):
            return 'Equal'
        if a[1] <= b[0]:
            return 'Less'
        if b[1] <= a[0]:
            return 'Greater'
        return 'None'

    def _op_checker(opname, accept):
        return lambda fnrec: table_check(chk, PID, facts, m, fnrec, '%s(override)%s' % (opname, sfx), ['A', 'B'], [], lambda kinds, env: _ref(kinds, env) in accept)
    no_overrides(chk, PID, facts, sfx, [m.path], 'comparison operators of Interval (<, <=, !=, ... follow from partial_cmp / eq)',
                 checkers={('PartialEq', 'ne'): lambda fnrec: table_check(chk, PID, facts, m, fnrec, 'ne(override)' + sfx, ['A', 'B'], [], lambda kinds, env: not _sem_eq(kinds, env)),
                           ('PartialOrd', 'lt'): _op_checker('lt', ('Less',)), ('PartialOrd', 'le'): _op_checker('le', ('Less', 'Equal')),
                           ('PartialOrd', 'gt'): _op_checker('gt', ('Greater',)), ('PartialOrd', 'ge'): _op_checker('ge', ('Greater', 'Equal'))}, traits=('PartialOrd', 'PartialEq', 'Ord', 'Eq'))
    pc = facts.trait_method('core::cmp::PartialOrd', m.path, 'partial_cmp')
    eq = facts.trait_method('core::cmp::PartialEq', m.path, 'eq')
    if not (chk.anchor('Interval::partial_cmp' + sfx, pc) and chk.anchor('Interval::eq' + sfx, eq)):
        return

    def sem_eq(kinds, env):
        return kinds[0] == kinds[1] and m.denote('A', kinds[0], env) == m.denote('B', kinds[1], env)

    def ref_cmp(kinds, env):
        a, b = m.denote('A', kinds[0], env), m.denote('B', kinds[1], env)
        if sem_eq(kinds, env):
            return 'Equal'
        if a[1] <= b[0]:
            return 'Less'
        if b[1] <= a[0]:
            return 'Greater'
        return 'None'
    table_check(chk, PID, facts, m, eq, 'eq' + sfx, ['A', 'B'], [], sem_eq)
    paths = table_check(chk, PID, facts, m, pc, 'partial_cmp' + sfx, ['A', 'B'], [], ref_cmp, decode=dec_ord)
    if paths is None:
        return
    # (b) axioms on the code's own table over a 6-chain
    N = 6
    ivs = []
    for lo in range(N):
        for hi in range(lo, N):
            ivs.append(('two', lo, hi))
    for x in range(N):
        ivs.append(('upper', x, None))
        ivs.append(('lower', None, x))

    def env_for(base, iv):
        lo, hi = m.bounds(base, iv[0])
        e = {}
        if lo:
            e[lo] = iv[1]
        if hi:
            e[hi] = iv[2]
        return e
    table = {}
    und = None
    for a in ivs:
        for b in ivs:
            env = dict(env_for('A', a))
            env.update(env_for('B', b))
            variants = {T.sym('A'): m.kinds[a[0]][0], T.sym('B'): m.kinds[b[0]][0]}
            try:
                hits = [p for p in paths if guard_holds(p.guard, variants, env)]
                outs = set(dec_ord(eval_term(p.ret, env)) if p.is_ret() else 'panic' for p in hits)
            except NotParametric as e:
                und = str(e)
                outs = set()
            if len(outs) != 1:
                und = und or 'no unique outcome for %r vs %r' % (a, b)
                continue
            table[(a, b)] = outs.pop()
    where = facts.loc(pc['id'])
    if und:
        chk.ob('%s:axioms%s' % (PID, sfx), 'E5-axioms', 'order axioms on the 6-chain table', None, 'undecided: ' + und, where)
        return

    def den(iv):
        return (iv[1] if iv[1] is not None else NEG_INF, iv[2] if iv[2] is not None else POS_INF)

    def first_bad(pred, arity):
        for tup in itertools.product(ivs, repeat=arity):
            r = pred(*tup)
            if r is not None:
                return r
        return None
    checks = [
        ('equal_iff_eq', 'partial_cmp(a,b) == Equal exactly when a == b', 2,
         lambda a, b: None if ((table[(a, b)] == 'Equal') == (a == b)) else 'a=%r b=%r gives %s' % (a, b, table[(a, b)])),
        ('less_iff_separated', 'a < b exactly when a != b and every member of a <= every member of b', 2,
         lambda a, b: None if ((table[(a, b)] == 'Less') == (a != b and den(a)[1] <= den(b)[0])) else 'a=%r b=%r gives %s' % (a, b, table[(a, b)])),
        ('antisymmetry', 'a < b exactly when b > a', 2,
         lambda a, b: None if ((table[(a, b)] == 'Less') == (table[(b, a)] == 'Greater')) else 'a=%r b=%r: %s vs %s' % (a, b, table[(a, b)], table[(b, a)])),
        ('transitivity', 'a < b and b < c imply a < c', 3,
         lambda a, b, c: None if not (table[(a, b)] == 'Less' and table[(b, c)] == 'Less') or table[(a, c)] == 'Less' else 'a=%r b=%r c=%r: a?c is %s' % (a, b, c, table[(a, c)])),
        ('incomparable', 'overlap in more than an endpoint, or unbounded on the same side => None', 2,
         lambda a, b: None if not (a != b and (min(den(a)[1], den(b)[1]) > max(den(a)[0], den(b)[0]) or (a[1] is None and b[1] is None) or (a[2] is None and b[2] is None))) or table[(a, b)] == 'None' else 'a=%r b=%r gives %s' % (a, b, table[(a, b)])),
    ]
    for name, desc, ar, pred in checks:
        bad = first_bad(pred, ar)
        chk.ob('%s:axiom:%s%s' % (PID, name, sfx), 'E5-axioms', desc + ' (all %d-tuples of 33 abstract intervals on a 6-chain)' % ar,
               bad is None, bad or '', where, sample={'axiom': name, 'tuples': len(ivs) ** ar})
    if cfg == 'default':
        chk.floor('comparison-impls', 2, 2)
    chk.rules.append('E5-table + E5-axioms: partial_cmp/eq decision tables vs the statement; axioms on the complete 6-chain table')
