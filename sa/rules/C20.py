"""C20 - every advertised feature set builds; serialised state round-trips losslessly.

D1 (E0, the compiler as checker): `cargo check --lib` must succeed and yield facts for each
   advertised feature combination: default, std, std+approx, std+serde, all.
D2 derive closure (under serde): Confidence, Interval, Arithmetic, Harmonic, Geometric,
   Paired, Unpaired, proportion::Stats and every local type reachable through their fields
   have BOTH derived serde impls (automatically_derived, no hand-written one) and no field
   attribute that drops or defaults data.  A derive without field attributes serialises every
   field and deserialises it into the same field => field-wise identity through any lossless
   self-describing format; "equal, same statistics, continues identically" then follows
   because every query and update reads only fields (C09-D2).
U: losslessness of a concrete format on floats is a property of the serialiser."""
import os
import re

from .. import core
from ..facts import norm_path

PID = 'C20'
ROOT_TYPES = ['Confidence', 'Interval', 'Arithmetic', 'Harmonic', 'Geometric', 'Paired', 'Unpaired']
ADVERTISED = ['default', 'std', 'std-approx', 'std-serde', 'all']


def run(chk, ctx):
    have = {}
    for cfg in ADVERTISED:
        try:
            facts = ctx.facts(cfg)
            have[cfg] = facts
            chk.saw(facts)
            chk.ob('%s:build:%s' % (PID, cfg), 'E0-build', 'the crate type-checks under feature set %s (%s)' % (cfg, ' '.join(core.CONFIGS[cfg]) or 'default features'),
                   True, 'features seen by rustc: %s; %d MIR bodies' % (facts.meta['features'], facts.meta['n_bodies']), 'Cargo.toml [features]',
                   sample={'config': cfg, 'features': facts.meta['features'], 'bodies': facts.meta['n_bodies']})
        except core.FactsUnavailable as e:
            errs = re.findall(r'error(?:\[E\d+\])?: [^\n]*', e.log)
            chk.ob('%s:build:%s' % (PID, cfg), 'E0-build', 'the crate type-checks under feature set %s' % cfg, False,
                   'cargo check failed: ' + '; '.join(errs[:4]), 'Cargo.toml [features]')
    # the advertised table itself: [features] of Cargo.toml must still name the four features
    # (read from the features rustc saw under `all`/default rather than from text)
    if 'default' in have:
        f = have['default'].meta['features']
        chk.ob('%s:features:default' % PID, 'E0-build', 'default feature set enables approx and std', 'approx' in f and 'std' in f, 'saw %s' % f)
    for cfg in ('std-serde', 'all'):
        if cfg not in have:
            continue
        facts = have[cfg]
        f = facts.meta['features']
        chk.ob('%s:features:%s' % (PID, cfg), 'E0-build', 'feature set %s enables serde' % cfg, 'serde' in f, 'saw %s' % f)
        derive_closure(chk, facts, cfg)
    chk.floor('feature-configs-built', len(have), 5)
    chk.rules.append('E0-build: cargo check per advertised feature set through the driver; derive-closure over the item graph')


def derive_closure(chk, facts, cfg):
    adts = facts.adts
    roots = []
    for name in ROOT_TYPES:
        c = [a for a in facts.raw['adts'] if a['path'].split('::')[-1] == name and a['exported']]
        if chk.anchor('%s[%s]' % (name, cfg), c[0] if len(c) == 1 else None):
            roots.append(c[0])
    c = [a for a in facts.raw['adts'] if a['path'] == 'proportion::Stats']
    if chk.anchor('proportion::Stats[%s]' % cfg, c[0] if len(c) == 1 else None):
        roots.append(c[0])
    # closure through fields
    todo = list(roots)
    seen = {}
    while todo:
        a = todo.pop()
        if a['path'] in seen:
            continue
        seen[a['path']] = a
        for v in a['variants']:
            for fld in v['fields']:
                for p in local_adts_in(fld['ty']):
                    if p in adts and p not in seen:
                        todo.append(adts[p])
    ser = {}
    de = {}
    for imp in facts.raw['impls']:
        if imp.get('trait_crate') not in ('serde', 'serde_core'):
            continue
        p = imp['self_ty'].get('adt')
        if imp.get('trait_name') == 'Serialize':
            ser.setdefault(p, []).append(imp)
        if imp.get('trait_name') == 'Deserialize':
            de.setdefault(p, []).append(imp)
    for p, a in sorted(seen.items()):
        s, d = ser.get(p, []), de.get(p, [])
        good = len(s) == 1 and len(d) == 1 and s[0]['derived'] and d[0]['derived']
        detail = '' if good else 'Serialize impls: %d (derived: %s), Deserialize impls: %d (derived: %s)' % (
            len(s), [i['derived'] for i in s], len(d), [i['derived'] for i in d])
        chk.ob('%s:derive:%s[%s]' % (PID, p, cfg), 'derive-closure', '%s (reachable from a public state type) has both derived serde impls' % p,
               good, detail, '%s:%s' % (a['span'][0], a['span'][1]), sample={'type': p, 'config': cfg, 'serialize': len(s), 'deserialize': len(d)})
        # field attributes that drop / default data: read from the source span of the ADT
        # (1) the attributes the compiler kept on the item, its variants and fields after expansion (cfg_attr resolved
        #     for this feature set; multi-line and nested forms included); (2) the text scan of the item as a second view
        attrs = compiler_serde_attrs(a, facts)
        for x in serde_field_attrs(a, getattr(facts, "repo", None)):
            if not any(x.strip('#[] ') in y or y in x for y in attrs):
                attrs.append(x)
        # attributes that cannot lose data in a round trip (the field is still written and read back; only the names on
        # the wire, the bounds of the impls or the treatment of inputs that lack / add fields change) are accepted
        attrs = [x for x in attrs if not round_trip_neutral(x)]
        chk.ob('%s:attrs:%s[%s]' % (PID, p, cfg), 'derive-closure', '%s has no serde attribute that skips or redirects a field or changes the shape of the representation' % p,
               not attrs, 'attributes found: %s' % attrs if attrs else '', '%s:%s' % (a['span'][0], a['span'][1]))
    chk.floor('serialisable-types[%s]' % cfg, len(seen), 9)


NEUTRAL_SERDE = {'default', 'rename', 'rename_all', 'rename_all_fields', 'alias', 'bound', 'deny_unknown_fields', 'crate', 'expecting'}


def round_trip_neutral(text):
    """every item of every serde(...) list in the attribute text is one of NEUTRAL_SERDE"""
    import re
    bodies = []
    i = 0
    while True:
        j = text.find('serde', i)
        if j < 0:
            break
        k = j + 5
        while k < len(text) and text[k] == ' ':
            k += 1
        if k >= len(text) or text[k] != '(':
            i = j + 5
            continue
        depth, e = 0, k
        while e < len(text):
            if text[e] == '(':
                depth += 1
            elif text[e] == ')':
                depth -= 1
                if depth == 0:
                    break
            e += 1
        if depth != 0:
            return False
        bodies.append(text[k + 1:e])
        i = e
    if not bodies:
        return False
    for b in bodies:
        items, depth, cur, instr = [], 0, '', False
        for ch in b:
            if ch == '"':
                instr = not instr
            if not instr and ch in '([':
                depth += 1
            elif not instr and ch in ')]':
                depth -= 1
            if ch == ',' and depth == 0 and not instr:
                items.append(cur)
                cur = ''
            else:
                cur += ch
        items.append(cur)
        for it in items:
            it = it.strip()
            if not it:
                continue
            m = re.match(r'[A-Za-z_][A-Za-z0-9_]*', it)
            if not m or m.group(0) not in NEUTRAL_SERDE:
                return False
    return True


def compiler_serde_attrs(adt, facts):
    """serde helper attributes (container, variant, field) of the item as the compiler saw them after expansion
    (fact file: inert attributes of the expanded AST, matched by file / line / name of the item)"""
    out = []
    name = adt['path'].split('::')[-1]
    recs = getattr(facts, 'adt_attrs', {}).get((adt['span'][0], adt['span'][1], name))
    if recs is None:
        return ['<no attribute record for this item in the fact file>']
    for r in recs:
        body = ' '.join(r['text'].split())
        if body.startswith('serde(') or body.startswith('serde ('):
            out.append('%s: %s' % (r['owner'], body))
    return out


def local_adts_in(ty):
    out = []
    if ty is None:
        return out
    if ty.get('adt') and ty.get('local'):
        out.append(ty['adt'])
    for k in ('args', 'elems'):
        for t in ty.get(k) or []:
            out.extend(local_adts_in(t))
    if 'inner' in ty:
        out.extend(local_adts_in(ty['inner']))
    return out


def serde_field_attrs(adt, repo=None):
    """#[serde(...)] attributes inside the item's source span (attributes are not types:
    they are read from the item text the compiler parsed, span from the fact file)."""
    path = os.path.join(repo or core.REPO, adt['span'][0])
    try:
        lines = open(path).read().split('\n')
    except OSError:
        return ['<source unreadable>']
    lo = adt['span'][1]
    # walk to the closing brace of the item
    depth = 0
    out = []
    started = False
    i = lo - 1
    # attributes directly above the item
    j = i - 1
    while j >= 0 and (lines[j].strip().startswith('#[') or lines[j].strip().startswith('///')):
        if 'serde(' in lines[j] and 'derive' not in lines[j]:
            out.append(lines[j].strip())
        j -= 1
    while i < len(lines):
        l = lines[i]
        if 'serde(' in l and 'cfg_attr' not in l or ('serde(' in l and 'cfg_attr' in l and 'derive' not in l):
            out.append(l.strip())
        depth += l.count('{') - l.count('}')
        if '{' in l or ';' in l:
            started = True
        if started and depth <= 0:
            break
        i += 1
    return out
