"""Scratch copies of /repo for the checker's own self-tests (mutants / silence rewrites).
Copies live under /tmp/sci-scratch-<pid>-<n>, are analysed through the same driver, and are
removed (with their fact files) before the command returns."""
import os
import shutil
import subprocess
import tempfile

from . import core


class Scratch:
    def __init__(self, repo=None):
        self.src = repo or core.REPO
        self.dir = tempfile.mkdtemp(prefix='sci-scratch-%d-' % os.getpid(), dir='/tmp')
        for name in ('src', 'Cargo.toml', 'Cargo.lock', 'README.md', 'benches', 'tests', 'examples', 'resources'):
            s = os.path.join(self.src, name)
            if os.path.isdir(s):
                shutil.copytree(s, os.path.join(self.dir, name))
            elif os.path.exists(s):
                shutil.copy(s, os.path.join(self.dir, name))

    def replace(self, rel, old, new, count=1):
        p = os.path.join(self.dir, rel)
        with open(p) as fh:
            s = fh.read()
        if old not in s:
            return False
        s = s.replace(old, new, count)
        with open(p, 'w') as fh:
            fh.write(s)
        return True

    def apply_patch(self, patch_path):
        r = subprocess.run(['git', 'apply', '--unsafe-paths', '--directory=' + self.dir, patch_path], cwd='/', capture_output=True, text=True)
        if r.returncode != 0:
            r = subprocess.run(['patch', '-p1', '-d', self.dir, '-i', patch_path], capture_output=True, text=True)
        return r.returncode == 0, r.stdout + r.stderr

    def cleanup(self):
        shutil.rmtree(self.dir, ignore_errors=True)
        import hashlib
        tag = hashlib.sha256(self.dir.encode()).hexdigest()[:8]
        for f in os.listdir(core.CACHE):
            if f.startswith('facts-%s-' % tag):
                try:
                    os.remove(os.path.join(core.CACHE, f))
                except OSError:
                    pass

    def __enter__(self):
        return self

    def __exit__(self, *a):
        self.cleanup()


def run_rule(pid, repo_dir, tier='quick'):
    """Run rule module `pid` against another tree; returns the Check (no evidence written)."""
    import importlib
    from .check import Ctx
    mod = importlib.import_module('sa.rules.%s' % pid)
    chk = core.Check(pid, tier)
    # scratch analyses (self-test, patch replay) use the default feature set only: one compiler run per copy
    ctx = Ctx('quick', repo=repo_dir, only=['default'])
    try:
        mod.run(chk, ctx)
    except core.FactsUnavailable as e:
        chk.ob('%s:facts:%s' % (pid, e.cfg), 'facts', 'crate builds under %s' % e.cfg, False, e.log[-800:])
    except Exception as e:
        import traceback
        chk.ob('%s:internal' % pid, 'internal', 'analysis completed', None, '%r %s' % (e, traceback.format_exc()[-1500:]))
    return chk
