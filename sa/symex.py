"""Path-sensitive function summaries over the MIR dumped by the driver (engine E3).

A summary is the list of paths (guard, outcome, effects, events) of one instance with all
local callees inlined through the *resolved* call graph and external callees replaced by
the explicit model table in models.py.  Nothing is executed on concrete inputs: inputs are
symbols, forks add literals to the guard, loops are summarised by havoc + one symbolic
iteration (base/step obligations are left to the rules).
"""
from fractions import Fraction
import struct

from . import terms as T
from .terms import sym, op, UNIT
from .types import TypeEnv, INT_BITS, is_int, is_float, adt_name, is_scalar, EXTERNAL_ADTS
from .facts import norm_path

UNINIT = ('uninit',)


class Infeasible(Exception):
    pass


class Unsupported(Exception):
    pass


class Frame:
    __slots__ = ('fid', 'inst', 'insts', 'body', 'def_id', 'bb', 'si', 'ret_dest', 'ret_target', 'promoted_of')

    def copy(self):
        f = Frame()
        for s in Frame.__slots__:
            setattr(f, s, getattr(self, s))
        return f


class State:
    def __init__(self):
        self.cells = {}
        self.guard = []          # list of (atom, polarity)
        self.gset = set()
        self.frames = []
        self.events = []
        self.unknowns = []
        self.writes = None       # write log (list) while a loop is being summarised
        self.loops = []          # loop record ids this path went through
        self.active_loops = {}   # (fid, bb) -> loop record under construction
        self.done = None         # outcome once finished

    def copy(self):
        s = State()
        s.cells = dict(self.cells)
        s.guard = list(self.guard)
        s.gset = set(self.gset)
        s.frames = [f.copy() for f in self.frames]
        s.events = list(self.events)
        s.unknowns = list(self.unknowns)
        s.writes = list(self.writes) if self.writes is not None else None
        s.loops = list(self.loops)
        s.active_loops = dict(self.active_loops)
        s.done = self.done
        return s

    def add_guard(self, atom, pol):
        if (atom, pol) not in self.gset:
            self.guard.append((atom, pol))
            self.gset.add((atom, pol))


class PathResult:
    def __init__(self, st, outcome, ret=None, effects=None):
        self.guard = st.guard
        self.outcome = outcome      # ('ret',) | ('panic', kind, where)
        self.ret = ret
        self.effects = effects or {}
        self.events = st.events
        self.unknowns = st.unknowns
        self.loops = st.loops

    def is_ret(self):
        return self.outcome[0] == 'ret'

    def is_panic(self):
        return self.outcome[0] == 'panic'


def merge_paths(paths, sx=None):
    """Join paths that end the same way and whose conditions differ in the polarity of exactly one literal:
    (G and a) or (G and not a) == G.  Forks on a test whose outcome does not influence anything (a classification
    that one caller ignores, a guard duplicated by a helper) would otherwise show up as unrelated residual
    literals in every rule.  Sound and exact: only the disjunction of two path conditions is rewritten."""
    def key(p):
        return (p.outcome, p.ret, repr(sorted(p.effects.items(), key=lambda kv: kv[0])), tuple(p.events), tuple(p.unknowns), tuple(p.loops))
    groups = {}
    order = []
    for p in paths:
        try:
            k = key(p)
        except TypeError:
            k = id(p)
        if k not in groups:
            groups[k] = []
            order.append(k)
        groups[k].append(p)
    out = []
    for k in order:
        g = groups[k]
        if len(g) > 1:
            # exact duplicates (both arms of a choice on auxiliary data that did not influence anything)
            seen_g, uniq = set(), []
            for p in g:
                fs = frozenset(p.guard)
                if fs not in seen_g:
                    seen_g.add(fs)
                    uniq.append(p)
            g = uniq
        changed = True
        while changed and len(g) > 1:
            changed = False
            sets = [set(p.guard) for p in g]
            for i in range(len(g)):
                for j in range(i + 1, len(g)):
                    d1, d2 = sets[i] - sets[j], sets[j] - sets[i]
                    if len(d1) == 1 and len(d2) == 1:
                        (a1, p1), = d1
                        (a2, p2), = d2
                        if a1 == a2 and p1 != p2 and a1[0] != 'variant':
                            g[i].guard = [l for l in g[i].guard if l != (a1, p1)]
                            del g[j]
                            changed = True
                            break
                if changed:
                    break
        out.extend(g)
    return merge_minmax(out, sx)


def _zip_minmax(r1, r2, p, q):
    """r1 (taken when p < q / p <= q) and r2 (otherwise) merged leaf-wise: a leaf pair (p, q) is min(p, q),
    (q, p) is max(p, q); any other difference -> None"""
    if r1 == r2:
        return r1
    if r1 == p and r2 == q:
        return ('op', 'min', (p, q))
    if r1 == q and r2 == p:
        return ('op', 'max', (p, q))
    if r1 is None or r2 is None or r1[0] != r2[0]:
        return None
    k = r1[0]
    if k == 'adt' and r1[1] == r2[1] and r1[2] == r2[2] and len(r1[3]) == len(r2[3]):
        fs = [_zip_minmax(a, b, p, q) for a, b in zip(r1[3], r2[3])]
        return None if any(f is None for f in fs) else ('adt', r1[1], r1[2], tuple(fs))
    if k == 'tuple' and len(r1[1]) == len(r2[1]):
        fs = [_zip_minmax(a, b, p, q) for a, b in zip(r1[1], r2[1])]
        return None if any(f is None for f in fs) else ('tuple', tuple(fs))
    if k == 'op' and r1[1] == r2[1] and len(r1[2]) == len(r2[2]):
        fs = [_zip_minmax(a, b, p, q) for a, b in zip(r1[2], r2[2])]
        return None if any(f is None for f in fs) else ('op', r1[1], tuple(fs))
    return None


def merge_minmax(paths, sx=None):
    """`if q < p { p = q }` and `p.min(q)` are the same function: two returning paths that differ in the polarity
    of one comparison literal p < q (or p <= q) and whose results differ only by p on one side and q on the other
    are joined into one path returning min / max.  Exact (a case split is undone), and it keeps the summaries of
    clamped values in the form the rank / bound rules read."""
    def key(p):
        return (p.outcome, repr(sorted(p.effects.items(), key=lambda kv: kv[0])), tuple(p.events), tuple(p.unknowns), tuple(p.loops))
    changed = True
    paths = list(paths)
    while changed:
        changed = False
        for i in range(len(paths)):
            pi = paths[i]
            if not pi.is_ret():
                continue
            for j in range(len(paths)):
                pj = paths[j]
                if i == j or not pj.is_ret():
                    continue
                try:
                    if key(pi) != key(pj):
                        continue
                except TypeError:
                    continue
                si, sj = set(pi.guard), set(pj.guard)
                d1, d2 = si - sj, sj - si
                if len(d1) != 1 or len(d2) != 1:
                    continue
                (a1, p1), = d1
                (a2, p2), = d2
                if a1 != a2 or p1 == p2 or not p1 or a1[0] != 'op' or a1[1] not in ('lt', 'le') or len(a1[2]) != 2:
                    continue
                if sx is None or not sx.total_order_literal(a1):
                    continue     # only integer comparisons: on floats / generic elements the two forms differ for NaN
                merged = _zip_minmax(pi.ret, pj.ret, a1[2][0], a1[2][1])
                if merged is None or merged == pi.ret:
                    continue
                pi.guard = [l for l in pi.guard if l != (a1, p1)]
                pi.ret = merged
                del paths[j]
                changed = True
                break
            if changed:
                break
    return paths


def canon_literal(cond):
    """boolean term -> (atom, polarity) with a canonical orientation of comparisons."""
    pol = True
    while cond[0] == 'op' and cond[1] == 'not':
        cond = cond[2][0]
        pol = not pol
    if cond[0] == 'op' and len(cond[2]) == 2:
        n, (a, b) = cond[1], cond[2]
        if n == 'gt':
            cond = ('op', 'lt', (b, a))
        elif n == 'ge':
            cond = ('op', 'le', (b, a))
        elif n == 'ne':
            cond = ('op', 'eq', (a, b))
            pol = not pol
        if cond[1] == 'eq' and repr(cond[2][0]) > repr(cond[2][1]):
            cond = ('op', 'eq', (cond[2][1], cond[2][0]))
    return cond, pol


def decode_float(bits, size):
    if size == 8:
        sign = bits >> 63
        e = (bits >> 52) & 0x7ff
        m = bits & ((1 << 52) - 1)
        bias, mbits, emax = 1023, 52, 0x7ff
    else:
        sign = bits >> 31
        e = (bits >> 23) & 0xff
        m = bits & ((1 << 23) - 1)
        bias, mbits, emax = 127, 23, 0xff
    if e == emax:
        if m:
            return 'nan'
        return '-inf' if sign else 'inf'
    if e == 0:
        v = Fraction(m, 1 << mbits) * Fraction(2) ** (1 - bias)
    else:
        v = (1 + Fraction(m, 1 << mbits)) * Fraction(2) ** (e - bias)
    return -v if sign else v


class Summarizer:
    def __init__(self, facts, assume_no_overflow=False, max_paths=20000, models=None):
        from . import models as M
        self.facts = facts
        self.tenv = TypeEnv(facts)
        self.assume_no_overflow = assume_no_overflow
        self.max_paths = max_paths
        self.merge = True
        self.int_cmp_atoms = set()
        self.nfid = 0
        self.nfresh = 0
        self.nheap = 0
        self.symty = {}
        self.symdef = {}
        self.celltys = {}
        self.loop_records = []
        self.models = M.ModelTable(self)
        self.cache = {}
        self._loopinfo = {}
        self.stubs = {}
        # {adt path: set of field indices} of auxiliary fields of the state types (sa/layout.py); None while the layout
        # itself is being discovered
        self.aux_fields = getattr(facts, 'aux_fields', None) or {}

    # ------------------------------------------------------------------ fresh things
    def fresh(self, base, ty=None):
        self.nfresh += 1
        name = '%s#%d' % (base, self.nfresh)
        if ty is not None:
            self.symty[name] = ty
        return sym(name)

    def named(self, name, ty):
        if ty is not None:
            self.symty[name] = ty
        return sym(name)

    def new_heap(self, value, ty=None):
        self.nheap += 1
        cid = ('H', self.nheap)
        self.celltys[cid] = ty
        return cid

    def input_value(self, st, name, ty):
        """Symbolic value for an input of type ty; references get a heap cell behind them."""
        if ty is not None and ty.get('k') == 'ref':
            inner = ty.get('inner')
            cid = self.new_heap(None, inner)
            st.cells[cid] = self.input_value(st, name, inner)
            return ('ref', cid, ())
        return self.named(name, ty)

    # ------------------------------------------------------------------ entry point
    def summarize(self, def_id, args=None, arg_names=None):
        """Summary of the root instance of local fn `def_id` with symbolic (or given) args."""
        insts = self.facts.root_instance(def_id)
        st = State()
        body = self.facts.bodies[def_id]
        fr = self.push_frame(st, insts, 0, None, None)
        params = []
        for i in range(1, body['arg_count'] + 1):
            l = body['locals'][i]
            name = (arg_names[i - 1] if arg_names else None) or l.get('name') or 'arg%d' % i
            if args is not None and i - 1 < len(args) and args[i - 1] is not None:
                v = args[i - 1]
                if callable(v):
                    v = v(st, self, l['ty'])
            else:
                v = self.input_value(st, name, l['ty'])
            st.cells[(fr.fid, i)] = v
            params.append((name, l['ty'], v))
        self._params = params
        return self.run(st, params)

    def run_callable(self, base_def_id, callable_value, args, cells=None):
        """All paths of one call of a callable value (closure or function item, as found in an event or a cell)
        on the given argument values, summarised like a function: -> [PathResult]."""
        insts = self.facts.root_instance(base_def_id)
        st = State()
        st.cells.update(cells or {})
        self.push_frame(st, insts, 0, None, None)
        tmp = self.new_heap(None, None)

        def then(sx_, s, v):
            s.done = ('ret', v)
            return [s]
        r = self.call_closure_value(st, st.frames[-1], callable_value, ('tuple', tuple(args)), (tmp, ()), ('then', then))
        if r is None:
            raise Unsupported('not a callable value: %s' % T.show(callable_value)[:60])
        results = []
        work = [s for s in r]
        steps = 0
        while work:
            cur = work.pop()
            if cur.done is not None:
                results.append(self.finish(cur, []))
                continue
            steps += 1
            if steps > 200000:
                raise Unsupported('step budget exceeded in callable')
            try:
                nxt = self.step(cur)
            except Infeasible:
                nxt = []
            work.extend(nxt)
        return merge_paths(results, self) if self.merge else results

    def push_frame(self, st, insts, inst_idx, ret_dest, ret_target, promoted=None):
        inst = insts[inst_idx]
        fr = Frame()
        self.nfid += 1
        fr.fid = self.nfid
        fr.inst = inst
        fr.insts = insts
        fr.def_id = inst['def']
        body = self.facts.bodies[fr.def_id]
        fr.promoted_of = None
        if promoted is not None:
            body = body['promoted'][promoted]
            fr.promoted_of = promoted
        fr.body = body
        fr.bb = 0
        fr.si = 0
        fr.ret_dest = ret_dest
        fr.ret_target = ret_target
        st.frames.append(fr)
        for i, l in enumerate(body['locals']):
            self.celltys[(fr.fid, i)] = l['ty']
        return fr

    # ------------------------------------------------------------------ main loop
    def run(self, st0, params):
        results = []
        work = [st0]
        steps = 0
        while work:
            st = work.pop()
            while True:
                steps += 1
                if steps > 4000000:
                    raise Unsupported('step budget exceeded')
                try:
                    nxt = self.step(st)
                except Infeasible:
                    nxt = []
                if len(nxt) == 1 and nxt[0].done is None:
                    st = nxt[0]
                    continue
                for n in nxt:
                    if n.done is not None:
                        results.append(self.finish(n, params))
                        if len(results) > self.max_paths:
                            raise Unsupported('path budget exceeded')
                    else:
                        work.append(n)
                break
        return merge_paths(results, self) if self.merge else results

    def finish(self, st, params):
        out = st.done
        effects = {}
        for name, ty, v in params:
            if v[0] == 'ref' and ty.get('mut'):
                effects[name] = self.resolve_deep(st, self.read_cell(st, v[1], v[2]))
        if out[0] == 'ret':
            return PathResult(st, ('ret',), ret=self.resolve_deep(st, out[1]), effects=effects)
        return PathResult(st, out, effects=effects)

    def resolve_deep(self, st, v, depth=0):
        """Replace references by ('refto', pointee value) so results are self-contained."""
        if depth > 12:
            return v
        k = v[0]
        if k == 'ref':
            try:
                inner = self.read_cell(st, v[1], v[2])
            except (Infeasible, Unsupported, KeyError):
                return v
            return ('op', 'ref', (self.resolve_deep(st, inner, depth + 1),))
        if k == 'adt':
            return ('adt', v[1], v[2], tuple(self.resolve_deep(st, a, depth + 1) for a in v[3]))
        if k == 'tuple':
            return ('tuple', tuple(self.resolve_deep(st, a, depth + 1) for a in v[1]))
        if k == 'closure':
            return ('closure', v[1], v[2], tuple(self.resolve_deep(st, a, depth + 1) for a in v[3]))
        return v

    def erase_aux(self, v):
        """an aggregate of a state type with its auxiliary fields replaced by AUX"""
        if v[0] == 'adt' and self.aux_fields:
            aux = self.aux_fields.get(v[1])
            if aux and v[2] == 0:
                return ('adt', v[1], v[2], tuple(T.AUX if i in aux else f for i, f in enumerate(v[3])))
        return v

    # ------------------------------------------------------------------ memory
    def read_cell(self, st, cell, path):
        v = st.cells.get(cell, UNINIT)
        ty = self.celltys.get(cell)
        prefix = ()
        variant = None
        for p in path:
            v2 = self.expand_if_needed(st, v, ty, p)
            if v2 is not v:
                self.write_cell(st, cell, prefix, v2, log=False)
                v = v2
            v, ty, variant = self.project_value(st, v, ty, p, variant)
            prefix = prefix + (p,)
        return v

    def expand_if_needed(self, st, v, ty, p):
        """A symbolic value that is projected into gets its structure from its type."""
        if v[0] not in ('sym', 'uninit') or v == T.AUX:
            return v
        if v[0] == 'sym':
            ty = self.symty.get(v[1], ty)
        k = p[0]
        if ty is None:
            raise Unsupported('projection %r of untyped symbolic value %s' % (p, T.show(v) if v[0] == 'sym' else 'uninit'))
        if k == 'f' and ty.get('k') == 'tuple':
            elems = ty.get('elems') or []
            return ('tuple', tuple(self.sub_sym(v, str(i), ety) for i, ety in enumerate(elems)))
        if k in ('f', 'v'):
            vs = self.tenv.variants(ty)
            if vs is None:
                raise Unsupported('projection into opaque type %s' % ty.get('s'))
            if k == 'v':
                return self.expand_variant(st, v, ty, p[1])
            if len(vs) != 1:
                raise Unsupported('field of enum without downcast')
            return self.expand_variant(st, v, ty, 0, struct=True)
        return v

    def sub_sym(self, parent, suffix, ty):
        if parent[0] == 'uninit':
            return UNINIT
        return self.named(parent[1] + '.' + suffix, ty)

    def expand_variant(self, st, v, ty, vidx, struct=False):
        vs = self.tenv.variants(ty)
        vn, dv, ftys = vs[vidx]
        names = self.tenv.field_names(ty, vidx) if adt_name(ty) not in EXTERNAL_ADTS else None
        fields = []
        for i, fty in enumerate(ftys):
            if struct:
                suffix = names[i] if names else str(i)
            else:
                suffix = '%s.%s' % (vn, names[i] if names and not names[i].isdigit() else i)
            fields.append(self.sub_sym(v, suffix, fty))
        if v[0] == 'sym' and not struct:
            st.add_guard(('variant', v, vidx), True)
        return self.erase_aux(('adt', adt_name(ty), vidx, tuple(fields)))

    def project_value(self, st, v, ty, p, variant):
        k = p[0]
        if v == T.AUX:
            # any part of auxiliary data is auxiliary
            try:
                pty = self.tenv.project(ty, p, variant) if (ty is not None and k == 'f') else (ty if k == 'v' else (ty or {}).get('inner'))
            except Exception:
                pty = None
            return T.AUX, pty, (p[1] if k == 'v' else None)
        if k == 'f':
            i = p[1]
            if v[0] == 'adt':
                if i >= len(v[3]):
                    raise Unsupported('field index out of range in %s' % T.show(v))
                return v[3][i], self.tenv.project(ty, p, v[2]), None
            if v[0] == 'tuple':
                return v[1][i], self.tenv.project(ty, p), None
            if v[0] == 'closure':
                return v[3][i], None, None
            if v[0] == 'uninit':
                return UNINIT, self.tenv.project(ty, p, variant), None
            raise Unsupported('field %d of %s' % (i, T.show(v)))
        if k == 'v':
            if v[0] == 'adt':
                if v[2] != p[1]:
                    raise Infeasible()
                return v, ty, p[1]
            if v[0] == 'uninit':
                return v, ty, p[1]
            raise Unsupported('downcast of %s' % T.show(v))
        if k == 'idx':
            return op('index', v, p[1]), (ty or {}).get('inner'), None
        if k == 'ci':
            return op('index', v, T.mk_int(p[1])), (ty or {}).get('inner'), None
        raise Unsupported('projection %r' % (p,))

    def write_cell(self, st, cell, path, value, log=True):
        if log and st.writes is not None:
            st.writes.append((cell, path))
        if not path:
            st.cells[cell] = self.erase_aux(value) if self.aux_fields else value
            return
        root = st.cells.get(cell, UNINIT)
        st.cells[cell] = self.set_at(st, root, self.celltys.get(cell), path, value)

    def set_at(self, st, v, ty, path, value, variant=None):
        if not path:
            return value
        if v == T.AUX:
            return T.AUX      # a write into auxiliary data
        p = path[0]
        k = p[0]
        if k == 'v':
            if v[0] in ('sym', 'uninit'):
                v = self.expand_if_needed(st, v, ty, p)
            if v[0] == 'adt' and v[2] != p[1]:
                raise Infeasible()
            return self.set_at(st, v, ty, path[1:], value, p[1])
        if k == 'f':
            if v[0] in ('sym', 'uninit'):
                if v[0] == 'uninit' and ty is not None:
                    v = self.expand_uninit(ty, variant)
                else:
                    v = self.expand_if_needed(st, v, ty, p)
            i = p[1]
            if v[0] == 'adt':
                fty = self.tenv.project(ty, p, v[2])
                fields = list(v[3])
                if self.aux_fields and v[2] == 0 and i in (self.aux_fields.get(v[1]) or ()):
                    fields[i] = T.AUX
                else:
                    fields[i] = self.set_at(st, fields[i], fty, path[1:], value)
                return ('adt', v[1], v[2], tuple(fields))
            if v[0] == 'tuple':
                fty = self.tenv.project(ty, p)
                fields = list(v[1])
                fields[i] = self.set_at(st, fields[i], fty, path[1:], value)
                return ('tuple', tuple(fields))
            raise Unsupported('write into field of %s' % T.show(v))
        raise Unsupported('write through projection %r' % (p,))

    def expand_uninit(self, ty, variant):
        if ty.get('k') == 'tuple':
            return ('tuple', tuple(UNINIT for _ in (ty.get('elems') or [])))
        vs = self.tenv.variants(ty)
        if vs is None:
            raise Unsupported('field write into opaque uninit %s' % ty.get('s'))
        v = variant if variant is not None else 0
        return ('adt', adt_name(ty), v, tuple(UNINIT for _ in vs[v][2]))

    def resolve_place(self, st, fr, place):
        """MIR place -> (cell, path), following dereferences."""
        if place[0] == 'cell':
            return place[1]      # already resolved (indirect call through a function value)
        local, proj = place
        cell = (fr.fid, local)
        path = ()
        for e in proj:
            if e == '*':
                v = self.read_cell(st, cell, path)
                if v == T.AUX:
                    cid = self.new_heap(None, None)
                    st.cells[cid] = T.AUX
                    v = ('ref', cid, ())
                if v[0] == 'sym':
                    ty = self.symty.get(v[1])
                    if ty is not None and ty.get('k') not in ('ref', 'rawptr', 'param', 'alias', 'other'):
                        raise Unsupported('deref of non-reference symbol %s' % v[1])
                    # a value typed by a generic parameter / associated type in the helper that produced it
                    # (`Option<I::Item>`), dereferenced where the instantiation is known to be a reference
                    inner = (ty or {}).get('inner')
                    cid = self.new_heap(None, inner)
                    st.cells[cid] = self.named(v[1] + '*', inner)
                    if ty is None or ty.get('k') not in ('ref', 'rawptr'):
                        # the element events of a by-reference iteration show the pointee (as `fresh_elem` does when
                        # the element type is known to be a reference at the `next()` site)
                        st.events = [(e[0], e[1], st.cells[cid]) if (e[0] == 'next' and len(e) == 3 and e[2] == v) else e for e in st.events]
                    nv = ('ref', cid, ())
                    self.write_cell(st, cell, path, nv, log=False)
                    v = nv
                if v[0] == 'op' and v[1] == 'ref':
                    # value-level reference (produced by a model): give it a cell
                    cid = self.new_heap(None, None)
                    st.cells[cid] = v[2][0]
                    nv = ('ref', cid, ())
                    self.write_cell(st, cell, path, nv, log=False)
                    v = nv
                if v[0] != 'ref':
                    raise Unsupported('deref of %s' % T.show(v))
                cell, path = v[1], v[2]
            else:
                k = e[0]
                if k == 'f':
                    path = path + (('f', e[1]),)
                elif k == 'v':
                    path = path + (('v', e[1]),)
                elif k == 'i':
                    idx = self.read_cell(st, (fr.fid, e[1]), ())
                    path = path + (('idx', idx),)
                elif k == 'ci':
                    path = path + (('ci', e[1]),)
                else:
                    raise Unsupported('place element %r' % (e,))
        return cell, path

    def read_place(self, st, fr, place):
        cell, path = self.resolve_place(st, fr, place)
        return self.read_cell(st, cell, path)

    # ------------------------------------------------------------------ operands
    def const_value(self, st, fr, c):
        ty = c['ty']
        k = ty.get('k')
        if 'fn' in c:
            # a function item used as a value: remember where its resolution record lives
            key = '%s|%s' % (c['fn'], c.get('fn_args', ''))
            if key in fr.inst.get('fnitemmap', {}):
                self._insts_by_id[id(fr.insts)] = fr.insts
                return ('fn', norm_path(c['fn']), (id(fr.insts), fr.inst['idx'], key))
            return ('fn', norm_path(c['fn']))
        if 'promoted' in c:
            return ('promoted', c['promoted'])
        if 'bits' in c:
            bits = int(c['bits'])
            size = c['size']
            if k in INT_BITS:
                if k.startswith('i') and bits >= 1 << (8 * size - 1):
                    bits -= 1 << (8 * size)
                return T.mk_int(bits)
            if k == 'bool':
                return ('bool', bits != 0)
            if k == 'char':
                return T.mk_int(bits)
            if k in ('f32', 'f64'):
                return T.mk_flt(decode_float(bits, size))
            return ('call', 'const:%s' % ty.get('s'), (T.mk_int(bits),))
        if 'str' in c:
            return ('op', 'ref', (('str', c['str']),))
        if k == 'ref' and ('item' in c or 'opaque' in c or 'uneval' in c):
            # reference to a static / constant allocation: one global cell per type
            inner = ty.get('inner')
            cid = ('S', ty.get('s'))
            self.celltys[cid] = inner
            if cid not in st.cells:
                st.cells[cid] = self.named('static:' + (inner or {}).get('s', '?'), inner)
            return ('ref', cid, ())
        if c.get('zst'):
            if k == 'tuple':
                return UNIT
            if k == 'closure':
                return ('closure', None, None, ())
            return ('call', 'zst:%s' % ty.get('s'), ())
        if 'item' in c:
            v = self.eval_const_item(c['item'])
            if v is not None:
                return v
        if 'uneval' in c or 'item' in c:
            return ('call', 'const:%s' % (c.get('item') or c.get('uneval')), ())
        return ('unknown', 'const %s' % ty.get('s'))

    def eval_const_item(self, path):
        """value of a local constant whose initialiser is straight-line MIR (struct / enum literals, arithmetic on
        literals): run the initialiser body; anything else (calls, several paths) -> None (kept opaque)"""
        cid = self.facts.const_body_ids.get(norm_path(path))
        if cid is None:
            return None
        cache = self.__dict__.setdefault('_const_cache', {})
        if cid in cache:
            return cache[cid]
        cache[cid] = None
        try:
            st = State()
            insts = [{'def': cid, 'idx': 0, 'callmap': {}, 'closuremap': {}, 'fnitemmap': {}, 'calls': [], 'allcalls': []}]
            self.push_frame(st, insts, 0, None, None)
            cur = st
            for _ in range(400):
                if cur.done is not None:
                    break
                nxt = self.step(cur)
                if len(nxt) != 1:
                    return None
                cur = nxt[0]
            if cur.done is not None and cur.done[0] == 'ret':
                cache[cid] = self.resolve_deep(cur, cur.done[1])
        except (Unsupported, Infeasible, KeyError, IndexError, TypeError):
            return None
        return cache[cid]

    def eval_operand(self, st, fr, o):
        if 'copy' in o:
            return self.read_place(st, fr, o['copy'])
        if 'move' in o:
            return self.read_place(st, fr, o['move'])
        if 'const' in o:
            v = self.const_value(st, fr, o['const'])
            if v[0] == 'promoted':
                return self.eval_promoted(st, fr, v[1])
            return v
        raise Unsupported('operand %r' % (o,))

    def eval_promoted(self, st, fr, idx):
        """Promoted constants are tiny straight-line bodies; run them in place."""
        sub = State()
        sub.cells = st.cells
        insts = fr.insts
        inst_idx = insts.index(fr.inst)
        pfr = self.push_frame(sub, insts, inst_idx, None, None, promoted=idx)
        res = None
        cur = sub
        for _ in range(1000):
            nxt = self.step(cur)
            if len(nxt) != 1:
                raise Unsupported('fork in promoted body')
            cur = nxt[0]
            if cur.done is not None:
                res = cur.done
                break
        if res is None or res[0] != 'ret':
            raise Unsupported('promoted body did not return')
        return res[1]

    # ------------------------------------------------------------------ rvalues
    def eval_rvalue(self, st, fr, rv):
        """-> list of (state, value); more than one only for Discriminant of a symbol."""
        if 'use' in rv:
            return [(st, self.eval_operand(st, fr, rv['use']))]
        if 'ref' in rv:
            cell, path = self.resolve_place(st, fr, rv['ref'])
            return [(st, ('ref', cell, path))]
        if 'rawptr' in rv:
            cell, path = self.resolve_place(st, fr, rv['rawptr'])
            return [(st, ('ref', cell, path))]
        if 'binop' in rv:
            a = self.eval_operand(st, fr, rv['l'])
            b = self.eval_operand(st, fr, rv['r'])
            return [(st, self.binop(rv['binop'], a, b, rv['opty']))]
        if 'unop' in rv:
            a = self.eval_operand(st, fr, rv['op'])
            name = rv['unop']
            if name == 'Not':
                if rv['opty'].get('k') == 'bool':
                    return [(st, op('not', a))]
                return [(st, op('bitnot', a))]
            if name == 'Neg':
                return [(st, op('neg', a))]
            if name == 'PtrMetadata':
                # length of a slice behind a reference
                if a[0] == 'ref':
                    a = self.read_cell(st, a[1], a[2])
                elif a[0] == 'op' and a[1] == 'ref':
                    a = a[2][0]
                return [(st, op('len', a))]
            return [(st, ('unknown', 'unop ' + name))]
        if 'cast' in rv:
            a = self.eval_operand(st, fr, rv['op'])
            kind = rv['cast']
            if kind.startswith('IntToFloat'):
                return [(st, op('i2f', a))]
            if kind.startswith('FloatToInt'):
                return [(st, op('f2i', a))]
            if kind.startswith('FloatToFloat'):
                return [(st, op('f2f', a))]
            if kind.startswith('IntToInt'):
                fk, tk = rv['from'].get('k'), rv['to'].get('k')
                if fk == tk:
                    return [(st, a)]
                fb, tb = INT_BITS.get(fk), INT_BITS.get(tk)
                if fb and tb:
                    fs, ts = fk.startswith('i'), tk.startswith('i')
                    lossless = (fs == ts and tb >= fb) or (not fs and ts and tb > fb)
                    if a[0] == 'int':
                        v = a[1] & ((1 << tb) - 1)
                        if ts and v >= 1 << (tb - 1):
                            v -= 1 << tb
                        return [(st, T.mk_int(v))]
                    if lossless:
                        return [(st, op('i2i', a))]
                    # a narrowing or sign-changing `as` cast wraps: not the identity on the integers
                    return [(st, op('wrap_int', a, ('str', tk)))]
                if a[0] == 'int':
                    return [(st, a)]
                return [(st, op('i2i', a))]
            if kind.startswith('PointerCoercion') or kind.startswith('PtrToPtr') or kind.startswith('Transmute'):
                return [(st, a)]
            return [(st, ('unknown', 'cast ' + kind))]
        if 'discr' in rv:
            return self.eval_discriminant(st, fr, rv['discr'])
        if 'agg' in rv:
            fields = tuple(self.eval_operand(st, fr, o) for o in rv['fields'])
            kind = rv['agg']
            if kind == 'tuple':
                if not fields:
                    return [(st, UNIT)]
                return [(st, ('tuple', fields))]
            if kind == 'adt':
                return [(st, self.erase_aux(('adt', norm_adt(rv['adt']), rv['variant'], fields)))]
            if kind == 'closure':
                key = None
                return [(st, ('closure', rv['def'], None, fields))]
            if kind == 'array':
                return [(st, ('tuple', fields))]
            return [(st, ('unknown', 'aggregate ' + kind))]
        if 'repeat' in rv:
            return [(st, ('unknown', 'repeat'))]
        return [(st, ('unknown', 'rvalue %s' % list(rv.keys())))]

    def binop(self, name, a, b, opty):
        base = name.replace('WithOverflow', '').replace('Unchecked', '')
        table = {'Add': 'add', 'Sub': 'sub', 'Mul': 'mul', 'Div': 'div', 'Rem': 'rem', 'Lt': 'lt', 'Le': 'le',
                 'Gt': 'gt', 'Ge': 'ge', 'Eq': 'eq', 'Ne': 'ne', 'BitAnd': 'and', 'BitOr': 'or',
                 'BitXor': 'xor', 'Shl': 'shl', 'Shr': 'shr', 'Cmp': 'cmp3', 'Offset': 'offset'}
        n = table.get(base)
        if n is None:
            return ('unknown', 'binop ' + name)
        if n in ('and', 'or') and opty.get('k') != 'bool':
            n = 'bit' + n
        k = opty.get('k') or ''
        if k.startswith('u') and k in INT_BITS:
            # comparisons of an unsigned value with 0 that hold for every value of the type
            # (unsigned range patterns `0..=c` compile to `0 <= x && x <= c`)
            zero = ('int', 0)
            if (n == 'le' and a == zero) or (n == 'ge' and b == zero):
                return ('bool', True)
            if (n == 'gt' and a == zero) or (n == 'lt' and b == zero):
                return ('bool', False)
        if n in ('lt', 'le', 'gt', 'ge') and k in INT_BITS:
            self.int_cmp_atoms.add(canon_literal(op(n, a, b))[0])
        if name.endswith('WithOverflow'):
            val = op(n, a, b)
            flag = self.overflow_flag(n, a, b, opty)
            return ('tuple', (val, flag))
        return op(n, a, b)

    def overflow_flag(self, n, a, b, opty):
        if a[0] == 'int' and b[0] == 'int':
            r = op(n, a, b)[1]
            k = opty.get('k')
            bits = INT_BITS.get(k, 64)
            if k and k.startswith('i'):
                lo, hi = -(1 << (bits - 1)), (1 << (bits - 1)) - 1
            else:
                lo, hi = 0, (1 << bits) - 1
            return ('bool', not (lo <= r <= hi))
        if a == T.AUX or b == T.AUX:
            return T.AUX
        return ('op', 'ovf_' + n, (a, b, ('str', opty.get('k', '?'))))

    def eval_discriminant(self, st, fr, place):
        cell, path = self.resolve_place(st, fr, place)
        v = self.read_cell(st, cell, path)
        if v == T.AUX:
            return [(st, T.AUX)]
        if v[0] == 'adt':
            return [(st, T.mk_int(self.discr_value(v)))]
        if v[0] in ('sym',):
            ty = self.symty.get(v[1])
            vs = self.tenv.variants(ty) if ty else None
            if vs is None:
                raise Unsupported('discriminant of opaque symbol %s : %s' % (v[1], ty and ty.get('s')))
            # already decided on this path?
            for i, (vn, dv, ftys) in enumerate(vs):
                if (('variant', v, i), True) in st.gset:
                    nv = self.expand_variant(st, v, ty, i)
                    self.write_cell(st, cell, path, nv, log=False)
                    return [(st, T.mk_int(dv))]
            out = []
            for i, (vn, dv, ftys) in enumerate(vs):
                if any(not self.tenv.inhabited(f) for f in ftys):
                    continue
                s2 = st.copy()
                nv = self.expand_variant(s2, v, ty, i)
                self.write_cell(s2, cell, path, nv, log=False)
                out.append((s2, T.mk_int(dv)))
            return out
        raise Unsupported('discriminant of %s' % T.show(v))

    def discr_value(self, v):
        if v[1] in EXTERNAL_ADTS:
            return EXTERNAL_ADTS[v[1]][v[2]][1]
        return v[2]

    # ------------------------------------------------------------------ stepping
    def step(self, st):
        fr = st.frames[-1]
        block = fr.body['blocks'][fr.bb]
        if fr.si == 0 and fr.promoted_of is None:
            r = self.loop_hook(st, fr)
            if r is not None:
                return r
        if fr.si < len(block['stmts']):
            stmt = block['stmts'][fr.si]
            fr.si += 1
            if 'setdiscr' in stmt:
                raise Unsupported('SetDiscriminant')
            results = self.eval_rvalue(st, fr, stmt['rv'])
            out = []
            for s2, val in results:
                f2 = s2.frames[-1]
                cell, path = self.resolve_place(s2, f2, stmt['p'])
                if val[0] == 'closure' and val[2] is None and val[1] is not None:
                    cid = f2.inst['closuremap'].get((f2.bb, f2.si - 1))
                    val = ('closure', val[1], (id(f2.insts), cid), val[3])
                    self._insts_by_id[id(f2.insts)] = f2.insts
                self.write_cell(s2, cell, path, val)
                out.append(s2)
            return out
        return self.exec_terminator(st, fr, block['term'])

    _insts_by_id = {}

    def goto(self, st, fr, bb):
        fr.bb = bb
        fr.si = 0
        return st

    def where(self, fr, term=None):
        f = self.facts.fns.get(fr.def_id)
        p = f['path'] if f else '?'
        file = f['span'][0] if f else '?'
        return '%s:%s in %s' % (file, term['line'] if term else '?', p)

    def known(self, st, cond):
        """True/False when the guard already fixes `cond`, else None."""
        if cond[0] == 'bool':
            return cond[1]
        atom, pol = canon_literal(cond)
        if (atom, True) in st.gset:
            return pol
        if (atom, False) in st.gset:
            return not pol
        return None

    def assume(self, st, cond, value):
        atom, pol = canon_literal(cond)
        st.add_guard(atom, pol == value)

    def fork_bool(self, st, cond):
        """-> [(state, bool)] consistent with the guard."""
        k = self.known(st, cond)
        if k is not None:
            return [(st, k)]
        if cond == T.AUX:
            # a choice made on auxiliary data: both ways, nothing learnt about the statistics
            return [(st.copy(), True), (st, False)]
        # conjunctions / disjunctions of comparisons are split so that guards stay atomic
        s_true = st.copy()
        self.assume(s_true, cond, True)
        s_false = st
        self.assume(s_false, cond, False)
        return [(s_true, True), (s_false, False)]

    # ------------------------------------------------------------------ if-conversion of clamps
    def ipdom(self, body, bb):
        """immediate post-dominator of block bb in the (non-cleanup) CFG of `body`, or None"""
        cache = body.setdefault('_ipdom', {})
        if bb in cache:
            return cache[bb]
        blocks = body['blocks']

        def succs(i):
            t = blocks[i]['term']
            k = t['k']
            if k in ('goto', 'drop'):
                return [t['target']]
            if k == 'switch':
                return [b for _v, b in t['arms']] + [t['otherwise']]
            if k in ('assert', 'call'):
                return [t['target']] if t.get('target') is not None else []
            return []
        n = len(blocks)
        EXIT = n
        pd = {i: set(range(n + 1)) for i in range(n)}
        pd[EXIT] = {EXIT}
        changed = True
        rounds = 0
        while changed and rounds < 50:
            changed = False
            rounds += 1
            for i in range(n - 1, -1, -1):
                ss = succs(i) or [EXIT]
                new = set.intersection(*[pd[x] for x in ss]) | {i}
                if new != pd[i]:
                    pd[i] = new
                    changed = True
        cands = pd[bb] - {bb}
        res = None
        for c in cands:
            if c != EXIT and all((c2 == c) or (c2 in pd[c]) for c2 in cands):
                res = c
        cache[bb] = res
        return res

    def is_int_term(self, t, depth=0):
        if depth > 12:
            return False
        k = t[0]
        if k == 'int':
            return True
        if k == 'sym':
            ty = self.symty.get(t[1])
            return ty is not None and ty.get('k') in INT_BITS
        if k == 'op':
            n = t[1]
            if n in ('f2i', 'len', 'i2i'):
                return True
            if n in ('add', 'sub', 'mul', 'min', 'max', 'ssub', 'wsub', 'rem', 'div') and len(t[2]) == 2:
                return self.is_int_term(t[2][0], depth + 1) and self.is_int_term(t[2][1], depth + 1)
        if k == 'call' and t[1] == 'iter_count':
            return True
        return False

    def total_order_literal(self, atom):
        """the comparison was evaluated on an integer type (recorded when the MIR BinaryOp was read), or both
        operands are visibly integer-valued"""
        if atom in self.int_cmp_atoms:
            return True
        return atom[0] == 'op' and len(atom[2]) == 2 and self.is_int_term(atom[2][0]) and self.is_int_term(atom[2][1])

    def try_clamp_merge(self, st, fr, term, d, arms):
        """`if p < q { x = p }` (or with the roles exchanged, directly or through mem::replace / swap of a local)
        rejoins immediately: run both arms up to the join; if neither forks, calls into local code, panics or
        records an event, and the states differ only in values that are p on one side and q on the other, continue
        with ONE state holding min / max there.  The summary is then that of `x.min(q)`; nothing is assumed."""
        if getattr(self, '_in_clamp', False):
            return None
        atom, pol = canon_literal(d)
        if atom[0] != 'op' or atom[1] not in ('lt', 'le') or len(atom[2]) != 2 or self.known(st, d) is not None:
            return None
        # only where < is total: on floats (or a generic PartialOrd element) `if p < q { p } else { q }` and min differ
        # for NaN / incomparable values
        if not self.total_order_literal(atom):
            return None
        join = self.ipdom(fr.body, fr.bb)
        if join is None or fr.promoted_of is not None or st.active_loops:
            return None
        depth = len(st.frames)
        ends = {}
        self._in_clamp = True
        n_loops = len(self.loop_records)
        try:
            for b in (True, False):
                s2 = st.copy()
                self.assume(s2, d, b)
                f2 = s2.frames[-1]
                target = term['otherwise']
                for v, bb in arms:
                    if v == int(b):
                        target = bb
                self.goto(s2, f2, target)
                steps = 0
                while True:
                    top = s2.frames[-1]
                    if len(s2.frames) == depth and top.bb == join and top.si == 0:
                        break
                    steps += 1
                    if steps > 60 or len(s2.frames) != depth:
                        return None
                    try:
                        nxt = self.step(s2)
                    except (Infeasible, Unsupported):
                        return None
                    if len(nxt) != 1 or nxt[0].done is not None:
                        return None
                    s2 = nxt[0]
                ends[b] = s2
        finally:
            self._in_clamp = False
            if len(ends) < 2:
                del self.loop_records[n_loops:]     # a speculative arm that is given up leaves no loop record behind
        sT, sF = ends[True], ends[False]
        base = len(st.guard)
        if len(sT.guard) != base + 1 or len(sF.guard) != base + 1:
            return None
        if sT.events != sF.events or sT.unknowns != sF.unknowns or sT.loops != sF.loops or (sT.writes or []) and False:
            return None
        if len(sT.events) != len(st.events):
            return None
        for c in set(sT.cells) ^ set(sF.cells):
            # a cell that exists on one arm only (a temporary): same argument
            sT.cells.setdefault(c, UNINIT)
            sF.cells.setdefault(c, UNINIT)
        # the literal as assumed: `atom` holds with polarity `pol` when d is true
        p_, q_ = atom[2]
        merged_cells = {}
        any_diff = False
        for c in sT.cells:
            a, b_ = sT.cells[c], sF.cells[c]
            if a == b_:
                continue
            any_diff = True
            if a == UNINIT or b_ == UNINIT or a is UNINIT or b_ is UNINIT:
                # initialised on one arm only: by definite initialisation it cannot be read after the join
                merged_cells[c] = UNINIT
                continue
            # value when (p < q) holds / does not hold
            v_lt, v_ge = (a, b_) if pol else (b_, a)
            m = _zip_minmax(v_lt, v_ge, p_, q_)
            if m is None:
                return None
            merged_cells[c] = m
        if not any_diff:
            out = sT
            out.guard = list(st.guard)
            out.gset = set(st.gset)
            return out
        out = sT
        out.guard = list(st.guard)
        out.gset = set(st.gset)
        for c, m in merged_cells.items():
            out.cells[c] = m
        if out.writes is not None and sF.writes is not None:
            for w in sF.writes:
                if w not in out.writes:
                    out.writes.append(w)
        return out

    def exec_terminator(self, st, fr, term):
        k = term['k']
        if k == 'goto':
            return [self.goto(st, fr, term['target'])]
        if k == 'drop':
            return [self.goto(st, fr, term['target'])]
        if k == 'return':
            return self.do_return(st, fr)
        if k == 'unreachable':
            raise Infeasible()
        if k == 'switch':
            d = self.eval_operand(st, fr, term['discr'])
            arms = [(int(v), bb) for v, bb in term['arms']]
            if d[0] == 'int' or d[0] == 'bool':
                val = d[1] if d[0] == 'int' else int(d[1])
                dty = term['dty'].get('k')
                bits = INT_BITS.get(dty)
                if bits and val < 0:
                    val += 1 << bits
                for v, bb in arms:
                    if v == val:
                        return [self.goto(st, fr, bb)]
                return [self.goto(st, fr, term['otherwise'])]
            if d == T.AUX:
                out = []
                targets = []
                for v, bb in arms:
                    if bb not in targets:
                        targets.append(bb)
                if term['otherwise'] not in targets and not self.unreachable_block(fr, term['otherwise']):
                    targets.append(term['otherwise'])
                for i, bb in enumerate(targets):
                    s2 = st if i == len(targets) - 1 else st.copy()
                    out.append(self.goto(s2, s2.frames[-1], bb))
                return out
            if term['dty'].get('k') == 'bool':
                merged = self.try_clamp_merge(st, fr, term, d, arms)
                if merged is not None:
                    return [merged]
                out = []
                for s2, b in self.fork_bool(st, d):
                    f2 = s2.frames[-1]
                    target = term['otherwise']
                    for v, bb in arms:
                        if v == int(b):
                            target = bb
                    out.append(self.goto(s2, f2, target))
                return out
            # integer-valued symbolic discriminant
            out = []
            rest = st
            for v, bb in arms:
                cond = op('eq', d, T.mk_int(v))
                kn = self.known(rest, cond)
                if kn is True:
                    out.append(self.goto(rest, rest.frames[-1], bb))
                    rest = None
                    break
                if kn is False:
                    continue
                s2 = rest.copy()
                self.assume(s2, cond, True)
                out.append(self.goto(s2, s2.frames[-1], bb))
                self.assume(rest, cond, False)
            if rest is not None:
                out.append(self.goto(rest, rest.frames[-1], term['otherwise']))
            return out
        if k == 'assert':
            c = self.eval_operand(st, fr, term['cond'])
            exp = term['expected']
            if c[0] == 'bool':
                if c[1] == exp:
                    return [self.goto(st, fr, term['target'])]
                st.done = ('panic', term['msg'], self.where(fr, term))
                return [st]
            if self.assume_no_overflow and term['msg'].startswith('Overflow') and c == T.AUX:
                return [self.goto(st, fr, term['target'])]     # arithmetic on auxiliary data
            if self.assume_no_overflow and term['msg'].startswith('Overflow'):
                # assumed away for the real-mode rules, but remembered: the rule must discharge it on its domain
                st.events.append(('no_overflow', self.resolve_deep(st, c), self.where(fr, term)))
                return [self.goto(st, fr, term['target'])]
            out = []
            for s2, b in self.fork_bool(st, c):
                f2 = s2.frames[-1]
                if b == exp:
                    out.append(self.goto(s2, f2, term['target']))
                else:
                    s2.done = ('panic', term['msg'], self.where(f2, term))
                    out.append(s2)
            return out
        if k == 'call':
            return self.exec_call(st, fr, term)
        raise Unsupported('terminator %s at %s' % (k, self.where(fr, term)))

    def unreachable_block(self, fr, bb):
        b = fr.body['blocks'][bb]
        return not b['stmts'] and b['term']['k'] == 'unreachable'

    def aux_arg(self, st, a, depth=0):
        """the argument is auxiliary data, or a reference to auxiliary data"""
        if a == T.AUX:
            return True
        if a[0] == 'ref' and depth < 4:
            try:
                return self.aux_arg(st, self.read_cell(st, a[1], a[2]), depth + 1)
            except (Infeasible, Unsupported, KeyError):
                return False
        if a[0] == 'op' and a[1] == 'ref':
            return self.aux_arg(st, a[2][0], depth + 1)
        return False

    def do_return(self, st, fr):
        v = st.cells.get((fr.fid, 0), UNIT)
        if v is UNINIT or v == UNINIT:
            v = UNIT
        # drop the frame's cells
        fid = fr.fid
        if fr.promoted_of is None:
            for c in [c for c in st.cells if c[0] == fid]:
                del st.cells[c]
        st.frames.pop()
        if not st.frames:
            st.done = ('ret', v)
            return [st]
        return self.continue_with(st, v, fr.ret_dest, fr.ret_target)

    # ------------------------------------------------------------------ calls
    def exec_call(self, st, fr, term):
        callee = fr.inst['callmap'].get(fr.bb) if fr.promoted_of is None else None    # the records are per block of the function body, not of its promoted constants
        args = [self.eval_operand(st, fr, a) for a in term['args']]
        dest = self.resolve_place(st, fr, term['dest'])
        dest_ty = self.place_type(fr, term['dest'])
        target = term['target']
        if callee is None and isinstance(term.get('func'), dict) and 'fn' in (term['func'].get('const') or {}) and (fr.def_id < 0 or fr.promoted_of is not None):
            # initialiser of a constant / promoted constant (no resolution records there): a direct call of a named
            # function, modelled or not
            callee = {'path': term['func']['const']['fn']}
        if callee is None:
            raise Unsupported('call without callee record at %s' % self.where(fr, term))
        if callee.get('rkind') == 'indirect' and 'func' in term:
            # a call through a function pointer / value: run the function item or closure it holds, if known
            fv = self.eval_operand(st, fr, term['func'])
            while fv[0] == 'ref':
                fv = self.read_cell(st, fv[1], fv[2])
            if fv[0] in ('fn', 'closure'):
                r = self.call_closure_value(st, fr, fv, ('tuple', tuple(args)) if args else UNIT, dest, target)
                if r is not None:
                    return r
        if 'inst' in callee:
            cdef = fr.insts[callee['inst']]['def']
            stub = self.stubs.get(cdef)
            if stub is not None:
                # modular analysis: a local callee replaced by its (separately proved) contract
                outs = stub(self, st, [self.resolve_deep(st, a) for a in args], dest_ty)
                res = []
                for i, val in enumerate(outs):
                    s2 = st if i == len(outs) - 1 else st.copy()
                    s2.events.append(('stub', cdef, tuple(self.resolve_deep(s2, a) for a in args), val))
                    f2 = s2.frames[-1]
                    self.write_cell(s2, dest[0], dest[1], val)
                    res.append(self.goto(s2, f2, target))
                return res
            return self.call_local(st, fr, fr.insts, callee['inst'], args, dest, target)
        res = self.models.apply(st, fr, callee, args, dest_ty, term)
        out = []
        for s2, val in res:
            if s2.done is not None:
                out.append(s2)
                continue
            if val is None:
                # model pushed a frame itself
                out.append(s2)
                continue
            f2 = s2.frames[-1]
            if target is None:
                s2.done = ('panic', 'diverging call %s' % callee.get('path'), self.where(f2, term))
                out.append(s2)
                continue
            self.write_cell(s2, dest[0], dest[1], val)
            out.append(self.goto(s2, f2, target))
        return out

    def place_type(self, fr, place):
        local, proj = place
        ty = fr.body['locals'][local]['ty']
        variant = None
        for e in proj:
            if e == '*':
                ty = self.tenv.project(ty, '*')
            elif e[0] == 'v':
                variant = e[1]
            elif e[0] == 'f':
                ty = self.tenv.project(ty, ('f', e[1]), variant)
                variant = None
            else:
                ty = self.tenv.project(ty, (e[0],))
            if ty is None:
                return None
        return ty

    def call_local(self, st, fr, insts, inst_idx, args, dest, target, untuple=None):
        inst = insts[inst_idx]
        body = self.facts.bodies[inst['def']]
        fn = self.facts.fns[inst['def']]
        if len(st.frames) > 40:
            raise Unsupported('call depth')
        if fn['kind'] == 'Closure':
            # (closure, (a, b, ..)) -> closure, a, b, ..
            clo = args[0]
            rest = args[1] if len(args) > 1 else UNIT
            spread = list(rest[1]) if rest[0] == 'tuple' else ([] if rest == UNIT else [rest])
            want_ref = body['locals'][1]['ty'].get('k') == 'ref'
            cv = clo
            if want_ref:
                while cv[0] == 'ref':
                    inner = self.read_cell(st, cv[1], cv[2])
                    if inner[0] == 'ref':
                        cv = inner
                    else:
                        break
                if cv[0] != 'ref':
                    cid = self.new_heap(None, None)
                    st.cells[cid] = cv
                    cv = ('ref', cid, ())
            else:
                while cv[0] == 'ref':
                    cv = self.read_cell(st, cv[1], cv[2])
            args = [cv] + spread
        nf = self.push_frame(st, insts, inst_idx, dest, target)
        if len(args) != body['arg_count']:
            raise Unsupported('arity mismatch calling %s: %d vs %d' % (fn['path'], len(args), body['arg_count']))
        for i, a in enumerate(args):
            st.cells[(nf.fid, i + 1)] = a
        return [st]

    def call_closure_value(self, st, fr, clo, argtuple, dest, target):
        """Invoke a closure value (possibly behind references) with a tuple of arguments."""
        cv = clo
        while cv[0] == 'ref':
            cv = self.read_cell(st, cv[1], cv[2])
        while cv[0] == 'op' and cv[1] == 'ref':
            cv = cv[2][0]
        if cv[0] == 'fn':
            return self.call_fn_item(st, fr, cv, argtuple, dest, target)
        if cv[0] != 'closure' or cv[2] is None:
            return None
        insts_id, idx = cv[2]
        insts = self._insts_by_id[insts_id]
        if idx is None:
            raise Unsupported('closure without instance record')
        return self.call_local(st, fr, insts, idx, [clo if clo[0] == 'ref' else cv, argtuple], dest, target)

    def call_fn_item(self, st, fr, cv, argtuple, dest, target):
        """Invoke a function item used as a value (`map_err(CIError::from)`, `unwrap_or_else(T::infinity)`,
        `map_or(Unbounded, Included)`), resolved by the driver like a direct call."""
        if len(cv) < 3:
            raise Unsupported('call of fn item %s through Fn trait (no resolution record)' % cv[1])
        iid, idx, key = cv[2]
        insts = self._insts_by_id[iid]
        rec = insts[idx]['fnitemmap'][key]
        args = list(argtuple[1]) if argtuple[0] == 'tuple' else ([] if argtuple == UNIT else [argtuple])
        if 'ctor' in rec:
            # a tuple-struct / tuple-variant constructor (local ones also carry an instance: its shim has no body here)
            val = ('adt', norm_path(rec['ctor']['adt']), rec['ctor']['variant'], tuple(args))
        elif 'inst' in rec:
            cdef = insts[rec['inst']]['def']
            if self.stubs.get(cdef) is not None:
                raise Unsupported('stubbed function %s used as a function value' % cv[1])
            return self.call_local(st, fr, insts, rec['inst'], args, dest, target)
        else:
            # the model sees a call whose destination / continuation are the ones of this indirect call
            term = {'target': target, 'dest': ('cell', dest), 'args': [], 'line': '?'}
            res = self.models.apply(st, fr, rec, args, None, term)
            out = []
            for s2, v2 in res:
                if s2.done is not None or v2 is None:
                    out.append(s2)            # finished, or the model continues by itself (pushed a frame)
                else:
                    out.extend(self.continue_with(s2, v2, dest, target))
            return out
        return self.continue_with(st, val, dest, target)

    def continue_with(self, st, v, ret_dest, target):
        """Deliver the value of a finished call to its continuation (shared by do_return)."""
        caller = st.frames[-1]
        if isinstance(target, tuple) and target[0] == 'then':
            # continuation given as a function (state, callee result) -> [states]
            return target[1](self, st, v)
        if isinstance(target, tuple):
            _, kind, dest, target = target
            tmp = ret_dest[0]
            if callable(kind):
                # continuation given by a model as a function (state, callee result) -> [(state, value)]
                out = []
                for s2, v2 in kind(self, st, v):
                    self.write_cell(s2, dest[0], dest[1], v2)
                    if target is None:
                        continue
                    out.append(self.goto(s2, s2.frames[-1], target))
                return out
            if kind == 'err':
                v = ('adt', 'core::result::Result', 1, (v,))
            elif kind == 'ok':
                v = ('adt', 'core::result::Result', 0, (v,))
            elif kind == 'some':
                v = ('adt', 'core::option::Option', 1, (v,))
            elif kind == 'ref':
                st.cells[tmp] = v
                v = ('ref', tmp, ())
            self.write_cell(st, dest[0], dest[1], v)
        elif ret_dest is not None:
            cell, path = ret_dest
            self.write_cell(st, cell, path, v)
        if target is None:
            raise Infeasible()
        return [self.goto(st, caller, target)]

    # ------------------------------------------------------------------ loops
    def loopinfo(self, body, key):
        """Back edges and natural loops of a body: {head: set(blocks)}."""
        if key in self._loopinfo:
            return self._loopinfo[key]
        blocks = body['blocks']
        succ = {}
        for i, b in enumerate(blocks):
            if b['cleanup']:
                succ[i] = []
                continue
            t = b['term']
            s = []
            if 'target' in t and t['target'] is not None:
                s.append(t['target'])
            if t['k'] == 'switch':
                s = [bb for _, bb in t['arms']] + [t['otherwise']]
            succ[i] = s
        # DFS for back edges
        color = {}
        back = []
        stack = [(0, iter(succ[0]))]
        color[0] = 1
        while stack:
            n, it = stack[-1]
            adv = False
            for m in it:
                if color.get(m, 0) == 0:
                    color[m] = 1
                    stack.append((m, iter(succ[m])))
                    adv = True
                    break
                elif color.get(m) == 1:
                    back.append((n, m))
            if not adv:
                color[n] = 2
                stack.pop()
        pred = {}
        for n, ss in succ.items():
            for m in ss:
                pred.setdefault(m, []).append(n)
        loops = {}
        for src, head in back:
            body_set = loops.setdefault(head, {head})
            work = [src]
            while work:
                x = work.pop()
                if x in body_set:
                    continue
                body_set.add(x)
                work.extend(pred.get(x, []))
        self._loopinfo[key] = loops
        return loops

    def loop_hook(self, st, fr):
        loops = self.loopinfo(fr.body, fr.def_id)
        if fr.bb not in loops:
            return None
        key = (fr.fid, fr.bb)
        rec = st.active_loops.get(key)
        if rec is not None:
            if rec.get('suspended'):
                return None
            # back at the head inside the generalised/discovery pass: end of one iteration
            st.done = ('loop_back', key)
            return [st]
        from .loops import summarize_loop
        return summarize_loop(self, st, fr, loops[fr.bb])


def norm_adt(p):
    p = norm_path(p)
    if p == 'core::ops::control_flow::ControlFlow':
        return 'core::ops::ControlFlow'
    if p == 'core::ops::range::Bound':
        return 'core::ops::Bound'
    return p
