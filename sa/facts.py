"""Loading and indexing of the fact file written by the rustc driver (/verif/driver).

Anchors are looked up by *public API identity* (inherent method of an ADT, method of a
(trait, self type) impl, free function path), never by private helper names or source text.
"""
import json
import re


def norm_path(p):
    """Normalise a def path: std/alloc -> core, drop generic argument lists."""
    if p is None:
        return None
    p = re.sub(r'\b(std|alloc)::', 'core::', p)
    return p


def strip_generics(p):
    out = []
    depth = 0
    i = 0
    while i < len(p):
        c = p[i]
        if c == '<':
            # drop a preceding '::' (turbofish)
            if depth == 0 and out[-2:] == [':', ':']:
                out = out[:-2]
            depth += 1
        elif c == '>':
            depth -= 1
        elif depth == 0:
            out.append(c)
        i += 1
    return ''.join(out)


class Facts:
    def __init__(self, path):
        with open(path) as fh:
            self.raw = json.load(fh)
        r = self.raw
        self.meta = r['meta']
        self.defs = r['defs']
        self.fns = {f['id']: f for f in r['fns']}
        self.bodies = {b['def']: b for b in r['bodies']}
        self.adts = {a['path']: a for a in r['adts']}
        self.impls = {i['id']: i for i in r['impls']}
        self.traits = {t['path']: t for t in r['traits']}
        self.consts = {c['path']: c for c in r['consts']}
        # initialiser bodies of constants get synthetic (negative) def ids so that the summariser can run them
        self.const_body_ids = {}
        for i, c in enumerate(r['consts']):
            if c.get('body') is not None:
                cid = -1000 - i
                self.bodies[cid] = c['body']
                self.const_body_ids[norm_path(c['path'])] = cid
        # format_args! templates and (separately) the inert attributes of struct / enum items from the expanded AST
        self.fmt = [x for x in r['fmt'] if 'adt_attrs' not in x]
        self.adt_attrs = {}
        for x in r['fmt']:
            if 'adt_attrs' in x:
                rec = x['adt_attrs']
                self.adt_attrs[(rec['at'][0], rec['at'][1], rec['name'])] = rec['attrs']
        # instances: root def id -> list of instance records
        self.inst_roots = {ir['root']: ir['insts'] for ir in r['instances']}
        for insts in self.inst_roots.values():
            for idx, ins in enumerate(insts):
                ins['idx'] = idx
                ins['callmap'] = {bb: c for bb, c in ins['calls']}
                ins['fnitemmap'] = {k: c for k, c in ins.get('fnitems', [])}
                # call sites plus functions referenced as values (they may be called by whoever receives them)
                ins['allcalls'] = list(ins['calls']) + [(None, c) for k, c in ins.get('fnitems', [])]
                ins['closuremap'] = {(bb, si): cid for bb, si, cid in ins['closures']}
        self.fn_by_path = {}
        for f in r['fns']:
            self.fn_by_path.setdefault(f['path'], []).append(f)

    # ------------------------------------------------------------------ lookups
    def fn_path(self, def_id):
        return self.fns[def_id]['path'] if def_id in self.fns else self.defs[def_id]

    def free_fn(self, path):
        """Free function by module path, e.g. 'proportion::ci_wilson'."""
        c = [f for f in self.raw['fns'] if f['kind'] == 'Fn' and f['path'] == path]
        return c[0] if len(c) == 1 else None

    def inherent(self, adt, name):
        """Inherent method `name` of the ADT with def path `adt` (any impl block)."""
        out = []
        for f in self.raw['fns']:
            if f['kind'] != 'AssocFn' or f.get('name') != name or 'impl' not in f:
                continue
            imp = self.impls.get(f['impl'])
            if imp is None or imp['trait'] is not None:
                continue
            if imp['self_ty'].get('adt') == adt:
                out.append(f)
        return out[0] if len(out) == 1 else None

    def inherent_all(self, adt):
        out = []
        for f in self.raw['fns']:
            if f['kind'] != 'AssocFn' or 'impl' not in f:
                continue
            imp = self.impls.get(f['impl'])
            if imp is None or imp['trait'] is not None:
                continue
            if imp['self_ty'].get('adt') == adt:
                out.append(f)
        return out

    def trait_impls(self, trait, self_adt=None, self_s=None):
        """All impls of `trait` (normalised path) for a self type."""
        out = []
        for imp in self.raw['impls']:
            if imp['trait'] is None or norm_path(imp['trait']) != norm_path(trait):
                continue
            if self_adt is not None and imp['self_ty'].get('adt') != self_adt:
                continue
            if self_s is not None and imp['self_ty']['s'] != self_s:
                continue
            out.append(imp)
        return out

    def trait_method(self, trait, self_adt, name, trait_args=None, self_s=None):
        """Method `name` of `impl trait<trait_args> for self_adt`.  trait_args: list of
        predicates/strings matched against the trait's type arguments (after Self)."""
        c = []
        for imp in self.trait_impls(trait, self_adt, self_s):
            if trait_args is not None:
                ta = [t['s'] for t in imp.get('trait_args', [])]
                if callable(trait_args):
                    if not trait_args(imp):
                        continue
                elif ta != list(trait_args):
                    continue
            for it in imp['items']:
                if it['name'] == name and it['is_fn'] and it['def'] in self.fns:
                    c.append((imp, self.fns[it['def']]))
        if len(c) > 1 and trait_args is None and self_adt is not None:
            # several impls of one trait for the type (PartialEq<Other>, Add<Scalar>, ...): the homogeneous one (Rhs = Self)
            c = [(imp, f) for imp, f in c if imp.get('trait_args') and all(t.get('adt') == self_adt for t in imp['trait_args'])]
        return c[0][1] if len(c) == 1 else None

    def root_instance(self, def_id):
        return self.inst_roots[def_id]

    def loc(self, def_id, line=None):
        f = self.fns.get(def_id)
        if f is None:
            return self.defs[def_id]
        sp = f['span']
        return '%s:%s (%s)' % (sp[0], line if line else sp[1], f['path'])
