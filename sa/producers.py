"""Uniform access to the Ok-path bounds of every interval producer, as terms over named
statistics (used by the relational properties C06, C10, C16)."""
from fractions import Fraction

from . import terms as T
from .ivl import IvlModel
from .meanci import ConfModel, KINDS, F0, F1, F2, unwrap_ok, tz_paths
from .nf import NotReal
from .realmode import Domain, prune, quantile_hook
from .statsmodel import StatsModel, by_ref
from .symex import Summarizer, Unsupported


class Producers:
    def __init__(self, facts):
        self.facts = facts
        self.sm = StatsModel(facts)
        self.im = IvlModel(facts)
        self.cm = ConfModel(facts)
        self.nf = self.sm.nf
        self.npaths = 0
        self.fns = set()

    def ok(self):
        return self.sm.ok() and self.im.ok() and self.cm.ok

    def summ(self, fn, names, args):
        sx = Summarizer(self.facts, assume_no_overflow=True)
        paths = sx.summarize(fn['id'], args=args, arg_names=names)
        self.npaths += len(paths)
        self.fns.add(fn['path'])
        return paths

    def dom(self, extra=None, level=(Fraction(0), Fraction(1), True, True)):
        r = {'L': level}
        r.update(extra or {})
        d = Domain(self.nf, r)
        d.hooks.append(quantile_hook())
        return d

    # ---- states
    def arith_mv(self, m, v, n):
        fn = T.op('i2f', n)
        s1 = T.op('mul', fn, m)
        s2 = T.op('add', T.op('mul', T.op('sub', fn, F1), v), T.op('mul', fn, T.op('mul', m, m)))
        return self.sm.arith_state(s1, s2, n)

    def decode_ok(self, p):
        iv = unwrap_ok(p.ret) if p.is_ret() else None
        d = self.im.decode(iv) if iv is not None else None
        if d is None:
            raise Unsupported('path does not return Ok(interval): %s' % (T.show(p.ret)[:80] if p.ret else p.outcome,))
        return d

    def mean_like(self, which, kind, level, state=None, ranges=None):
        """{True: (kind, lo, hi) on the t path, False: ... on the normal path} for
        which in arithmetic | geometric | harmonic | paired | unpaired."""
        sm, facts = self.sm, self.facts
        M, V, N = T.sym('m'), T.sym('v'), T.sym('n')
        rng = {'n': (Fraction(2), None, False, True), 'v': (Fraction(0), None, False, True)}
        if which == 'unpaired':
            adt = sm.adt('Unpaired')
            new = facts.inherent(adt['path'], 'new')
            ps = self.summ(new, ['sa', 'sb'], None)
            r = [p.ret for p in ps if p.is_ret()][0]
            ia, ib = r[3].index(T.sym('sa')), r[3].index(T.sym('sb'))
            Ma, Va, Na, Mb, Vb, Nb = (T.sym(x) for x in ('ma', 'va', 'na', 'mb', 'vb', 'nb'))
            f = [None, None]
            f[ia] = self.arith_mv(Ma, Va, Na)
            f[ib] = self.arith_mv(Mb, Vb, Nb)
            st = state or ('adt', adt['path'], 0, tuple(f))
            fn = facts.inherent(adt['path'], 'ci_mean')
            fna, fnb = T.op('i2f', Na), T.op('i2f', Nb)
            A_, B_ = T.op('div', Va, fna), T.op('div', Vb, fnb)
            nu = T.op('sub', T.op('div', T.op('mul', T.op('add', A_, B_), T.op('add', A_, B_)),
                                   T.op('add', T.op('div', T.op('mul', A_, A_), T.op('add', fna, F1)), T.op('div', T.op('mul', B_, B_), T.op('add', fnb, F1)))), F2)
            rng = {'na': (Fraction(2), None, False, True), 'nb': (Fraction(2), None, False, True),
                   'va': (Fraction(0), None, True, True), 'vb': (Fraction(0), None, False, True)}
        else:
            inner = self.arith_mv(M, V, N)
            nu = T.op('sub', T.op('i2f', N), F1)
            if which == 'arithmetic':
                st = state or inner
                fn = facts.inherent(sm.arith['path'], 'ci_mean')
            else:
                adt = sm.adt({'geometric': 'Geometric', 'harmonic': 'Harmonic', 'paired': 'Paired'}[which])
                st = state or sm.wrapper_state(adt, inner)
                fn = facts.inherent(adt['path'], 'ci_mean')
        if ranges:
            rng.update(ranges)
        paths = self.summ(fn, ['self', 'confidence'], [by_ref(st), self.cm.value(kind, level)])
        dom = self.dom(rng)
        if which == 'harmonic':
            # two-sided well-formedness needs positive reciprocal-space bounds (statement's proviso):
            # keep only Ok paths, identified by the threshold literal among the residuals
            out = {}
            for p, residual in prune(paths, dom):
                if not p.is_ret() or unwrap_ok(p.ret) is None:
                    continue
                from .meanci import threshold_literal
                th = [threshold_literal(self.nf, [r], nu) for r in residual]
                th = [t for t in th if t is not None]
                if len(th) == 1:
                    out[th[0][1]] = self.decode_ok(p)
            if set(out) != {True, False}:
                raise Unsupported('harmonic: expected t and normal Ok paths')
            return out
        tz = tz_paths(self.nf, paths, dom, nu)
        return {side: self.decode_ok(p) for side, p in tz.items()}

    def proportion(self, method, kind, level, n=None, k=None):
        """(kind, lo, hi) of the Ok path of ci_wilson / ci_z_normal on the accepted domain."""
        fn = self.facts.free_fn('proportion::ci_wilson' if method == 'wilson' else 'proportion::ci_z_normal')
        paths = self.summ(fn, ['confidence', 'n', 'k'], [self.cm.value(kind, level), n, k])
        dom = self.dom({'n': (Fraction(1), None, False, True), 'k': (Fraction(0), None, False, True)})
        oks = [p for p, r in prune(paths, dom) if p.is_ret() and unwrap_ok(p.ret) is not None]
        if len(oks) != 1:
            raise Unsupported('%d Ok paths' % len(oks))
        return self.decode_ok(oks[0])

    def quantile(self, kind, level):
        """(kind, lo rank, hi rank) of the Ok path of quantile::Stats::ci."""
        fn = self.facts.inherent('quantile::Stats', 'ci')
        paths = self.summ(fn, ['self', 'confidence', 'q'], [by_ref(self.facts.struct_state('quantile::Stats', [T.sym('n')]) or ('adt', 'quantile::Stats', 0, (T.sym('n'),))), self.cm.value(kind, level), None])
        dom = self.dom({'n': (Fraction(4), None, False, True), 'q': (Fraction(0), Fraction(1), True, True)})
        oks = [p for p, r in prune(paths, dom) if p.is_ret() and unwrap_ok(p.ret) is not None]
        decs = set(self.decode_ok(p) for p in oks)
        if len(decs) != 1:
            raise Unsupported('%d distinct Ok results' % len(decs))
        return decs.pop()
