"""Integer guards: linearisation of comparison literals and a finite zone enumeration.

A literal over non-negative integer inputs is first brought to the form  sum(c_i * v_i) + c  op 0
(through the real normal form: n*(k/n) < 10 becomes k - 10 < 0 once the positive factor n is
divided out).  For guards whose literals only involve v_i, v_i - v_j, v_i + v_j (unit
coefficients, as every domain check in this crate), the truth value of each literal is
constant on every cell of the arrangement of the lines v_i = c, v_i - v_j = c, v_i + v_j = c,
and every non-empty cell has an integer point in the box [0, B]^d with B = 2*max|c| + 4;
`points` enumerates that box, which therefore covers all inputs (a finite abstract domain,
not a sample)."""
import itertools
from fractions import Fraction

from . import terms as T
from .nf import NotReal, p_key


class NotLinear(Exception):
    pass


def linearize(nf, atom, pol, int_vars, positive=()):
    """(coeffs {var: int}, const int, op) with op in {'<', '<=', '==', '!='} meaning
    sum + const op 0, for the literal (atom, pol)."""
    if atom[0] == 'op' and atom[1] == 'ovf_sub' and len(atom[2]) == 3 and atom[2][2][0] == 'str' and atom[2][2][1].startswith('u'):
        # an unsigned subtraction of in-range operands overflows exactly when a < b
        atom = T.op('lt', atom[2][0], atom[2][1])
    if atom[0] == 'op' and atom[1] in ('lt', 'le', 'eq') and len(atom[2]) == 2:
        # unsigned saturating subtraction against a constant: max(a - b, 0) ? c by the sign of c
        l, r = atom[2]
        def const_of(x):
            x = x[2][0] if (x[0] == 'op' and x[1] in ('i2f', 'f2f', 'i2i') and len(x[2]) == 1) else x
            return Fraction(x[1]) if x[0] in ('int', 'flt') and not isinstance(x[1], str) else None
        def ssub_of(x):
            x = x[2][0] if (x[0] == 'op' and x[1] in ('i2f', 'f2f', 'i2i') and len(x[2]) == 1) else x
            return x if (x[0] == 'op' and x[1] == 'ssub' and len(x[2]) == 2) else None
        TRUE_, FALSE_ = T.op('lt', T.mk_int(0), T.mk_int(1)), T.op('lt', T.mk_int(1), T.mk_int(0))
        rew = None
        if ssub_of(r) is not None and const_of(l) is not None:          # c ? s
            c, d = const_of(l), T.op('sub', *ssub_of(r)[2])
            if atom[1] == 'lt':
                rew = T.op('lt', l, d) if c >= 0 else TRUE_
            elif atom[1] == 'le':
                rew = T.op('le', l, d) if c > 0 else TRUE_
            else:
                rew = T.op('eq', l, d) if c > 0 else (T.op('le', d, l) if c == 0 else FALSE_)
        elif ssub_of(l) is not None and const_of(r) is not None:        # s ? c
            c, d = const_of(r), T.op('sub', *ssub_of(l)[2])
            if atom[1] == 'lt':
                rew = T.op('lt', d, r) if c > 0 else FALSE_
            elif atom[1] == 'le':
                rew = T.op('le', d, r) if c >= 0 else FALSE_
            else:
                rew = T.op('eq', d, r) if c > 0 else (T.op('le', d, r) if c == 0 else FALSE_)
        if rew is not None:
            atom = rew
    if atom[0] != 'op' or atom[1] not in ('lt', 'le', 'eq') or len(atom[2]) != 2:
        raise NotLinear(T.show(atom))
    try:
        d = nf.sub(nf.of_term(atom[2][0]), nf.of_term(atom[2][1]))
    except NotReal as e:
        raise NotLinear(str(e))
    num = d.num
    # every denominator factor must be a positive atom (monomial) on the domain
    for k, e in d.fac.items():
        f = dict(k)
        if len(f) != 1:
            raise NotLinear('denominator factor %r' % (f,))
        (dm, dc), = f.items()
        if dc <= 0 or any(a not in positive for a, _e in dm):
            raise NotLinear('denominator sign')
    # divide the numerator by its monomial content in positive atoms
    if not num:
        coeffs, const = {}, 0
    else:
        common = None
        for m in num:
            dd = dict(m)
            if common is None:
                common = dict(dd)
            else:
                for a in list(common):
                    common[a] = min(common[a], dd.get(a, 0))
        common = {a: e for a, e in (common or {}).items() if e > 0 and a in positive}
        coeffs, const = {}, Fraction(0)
        for m, c in num.items():
            dd = dict(m)
            for a, e in common.items():
                dd[a] -= e
            rest = [(a, e) for a, e in dd.items() if e]
            if not rest:
                const += c
            elif len(rest) == 1 and rest[0][1] == 1 and rest[0][0] in int_vars:
                coeffs[rest[0][0]] = coeffs.get(rest[0][0], 0) + c
            else:
                raise NotLinear('non-linear monomial %r' % (m,))
    # scale to integers
    from math import gcd
    dens = [Fraction(c).denominator for c in list(coeffs.values()) + [const]]
    l = 1
    for x in dens:
        l = l * x // gcd(l, x)
    coeffs = {v: int(c * l) for v, c in coeffs.items() if c != 0}
    const = Fraction(const) * l
    op = {'lt': '<', 'le': '<=', 'eq': '=='}[atom[1]]
    if not pol:
        # negation: !(e < 0) is -e <= 0 ; !(e <= 0) is -e < 0 ; !(e == 0) is !=
        if op == '==':
            return coeffs, const, '!='
        coeffs = {v: -c for v, c in coeffs.items()}
        const = -const
        op = '<=' if op == '<' else '<'
    return coeffs, const, op


def holds(lin, point):
    coeffs, const, op = lin
    v = sum(c * point[x] for x, c in coeffs.items()) + const
    return {'<': v < 0, '<=': v <= 0, '==': v == 0, '!=': v != 0}[op]


def box_bound(lins, extra_consts=()):
    m = 0
    for coeffs, const, op in lins:
        if any(abs(c) != 1 for c in coeffs.values()) or len(coeffs) > 2:
            raise NotLinear('not a unit-coefficient two-variable constraint: %r' % (coeffs,))
        m = max(m, abs(const))
    for c in extra_consts:
        m = max(m, abs(c))
    return int(2 * m + 4)


def points(vars_, bound, lo=0):
    for vals in itertools.product(range(lo, bound + 1), repeat=len(vars_)):
        yield dict(zip(vars_, vals))


# ---------------------------------------------------------------------------------------
# exact satisfiability of conjunctions of zone constraints over the non-negative integers

def _to_diffs(lin):
    """One linear constraint -> list of alternatives, each a list of (x, y, c) meaning x - y <= c
    ('0' is the zero node).  Raises NotLinear for non-zone constraints."""
    coeffs, const, op = lin
    const = Fraction(const)
    if const.denominator != 1:
        raise NotLinear('non-integer constant')
    c = int(const)
    items = sorted(coeffs.items())

    def le(items, c):
        # sum + c <= 0
        if not items:
            return [('0', '0', -c)] if c > 0 else []
        if len(items) == 1:
            (x, a), = items
            if a == 1:
                return [(x, '0', -c)]
            if a == -1:
                return [('0', x, -c)]
        if len(items) == 2:
            (x, a), (y, b) = items
            if a == 1 and b == -1:
                return [(x, y, -c)]
            if a == -1 and b == 1:
                return [(y, x, -c)]
        raise NotLinear('not a zone constraint: %r' % (coeffs,))
    neg = [(x, -a) for x, a in items]
    if op == '<=':
        return [le(items, c)]
    if op == '<':
        return [le(items, c + 1)]
    if op == '==':
        return [le(items, c) + le(neg, -c)]
    if op == '!=':
        return [le(items, c + 1), le(neg, -c + 1)]
    raise NotLinear(op)


def sat(lins, vars_=('n', 'k')):
    """Is the conjunction satisfiable over integers >= 0?  (difference-bound closure; exact)"""
    import itertools
    alts = [_to_diffs(l) for l in lins]
    nodes = ['0'] + list(vars_)
    for choice in itertools.product(*alts) if alts else [()]:
        INF = None
        d = {(a, b): (0 if a == b else INF) for a in nodes for b in nodes}
        for v in vars_:
            d[('0', v)] = 0          # 0 - v <= 0
        ok = True
        for group in choice:
            for (x, y, c) in group:
                if x == y:
                    if c < 0:
                        ok = False
                    continue
                cur = d[(x, y)]
                if cur is None or c < cur:
                    d[(x, y)] = c
        if not ok:
            continue
        for k_ in nodes:
            for i in nodes:
                for j in nodes:
                    a, b = d[(i, k_)], d[(k_, j)]
                    if a is not None and b is not None and (d[(i, j)] is None or a + b < d[(i, j)]):
                        d[(i, j)] = a + b
        if all(d[(x, x)] >= 0 for x in nodes):
            return True
    return False


def lin(coeffs, const, op):
    return (dict(coeffs), Fraction(const), op)
