"""Integer-overflow assumptions of the real-mode rules.

Rules that read arithmetic over the reals summarise with `assume_no_overflow`: the MIR overflow
assertions are skipped, and each skipped assertion is recorded on the path as ('no_overflow', flag, where)
with flag = ovf_<op>(a, b, type).  `undischarged` returns the ones a rule still has to argue about:

  * an unsigned subtraction a - b is discharged when the path condition contains b <= a (or !(a < b));
  * an addition of a constant <= 2 to a counter is the documented exclusion "2^64 observations";
  * everything else (products, sums of two symbolic counts) is returned: on a 64-bit count it can overflow
    for admissible inputs, wrapping in release builds - the value then is not the real-arithmetic one.
"""
from . import terms as T


def undischarged(path):
    out = []
    gset = set((a, pol) for a, pol in path.guard)
    for e in path.events:
        if e[0] != 'no_overflow':
            continue
        flag = e[1]
        if flag[0] == 'bool':
            continue
        if not (flag[0] == 'op' and flag[1].startswith('ovf_') and len(flag[2]) >= 2):
            out.append((flag, e[2]))
            continue
        opn, a, b = flag[1][4:], flag[2][0], flag[2][1]
        if opn == 'sub':
            if (T.op('lt', a, b), False) in gset or (T.op('le', b, a), True) in gset or a == b:
                continue
            out.append((flag, e[2]))
        elif opn == 'add':
            small = lambda x: x[0] == 'int' and 0 <= x[1] <= 2
            if small(a) or small(b):
                continue
            out.append((flag, e[2]))
        else:
            if (a[0] == 'int' and a[1] in (0, 1)) or (b[0] == 'int' and b[1] in (0, 1)):
                continue
            out.append((flag, e[2]))
    return out
